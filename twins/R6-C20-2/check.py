"""Behaviour check for C20 refactoring 2 (reorganisation + typing of the macro helper).

Touched code: MultiCtl.macro, MultiCtl.Mapping, MultiCtl.MappingArray and the
signatures of convert_value / invert_value.

Sweeps MultiCtl.macro over every controller of every registered module type,
compares the created mappings / gain / links with an independent restatement
of the rules, drives the value through the created MultiCtl and checks range
containment and monotonicity, exercises the refusals, and pins the stored
form of the mapping chunk (also through a project write/read round trip).
Must print PASS on the unchanged tree and with the patch applied.
"""
import inspect
import struct
import sys
from enum import Enum
from io import BytesIO

import rv.modules.multictl as multictl_module
from rv.api import Project, m, read_sunvox_file
from rv.controller import CompactRange, Controller, Range
from rv.errors import MappingError, RadiantVoicesError
from rv.modules import MODULE_CLASSES
from rv.modules.base.multictl import BaseMultiCtl
from rv.modules.multictl import MultiCtl, convert_value, invert_value

FAILURES = []


def expect(cond, msg):
    if not cond:
        FAILURES.append(msg)
        if len(FAILURES) > 20:
            finish()


def finish():
    if FAILURES:
        for f in FAILURES:
            print("FAIL:", f)
        sys.exit(1)
    print("PASS")
    sys.exit(0)


def expected_window(t):
    """Independent restatement of the macro rules: (min, max, gain)."""
    if isinstance(t, type) and issubclass(t, Enum):
        return 0, len(t) - 1, 256 + int(256 / (len(t) - 1))
    if t is bool:
        return 0, 1, 512
    if t.min == 1:
        return 1, t.max, 256 + int(256 / t.max)
    if isinstance(t, CompactRange):
        return 0, t.max - t.min, 256
    return 0, 32768, 256


def fields(mp):
    return (mp.min, mp.max, mp.controller, mp.flags, mp.future_use2, mp.future_use3, mp.future_use4, mp.future_use5)


DEFAULT_ROW = (0, 32768, 0, 0, 0, 0, 0, 0)
SWEEP = sorted(set(list(range(0, 32769, 1013)) + [1, 127, 128, 16384, 32767, 32768]))


def new_target(project, cls):
    return project.new_module(cls)


def check_macro_over_all_controllers():
    seen_kinds = set()
    n_targets = 0
    for mtype in sorted(MODULE_CLASSES):
        cls = MODULE_CLASSES[mtype]
        if not cls.controllers:
            continue
        for by_object in (False, True):
            for name, ctl in cls.controllers.items():
                p = Project()
                try:
                    mod = new_target(p, cls)
                except Exception:  # module types needing constructor args are not our subject
                    break
                t = ctl.instance_value_type(mod)
                try:
                    want = expected_window(t)
                except Exception as e:
                    want = type(e)
                before = len(p.modules)
                try:
                    mc = MultiCtl.macro(p, (mod, ctl if by_object else name), name="macro", layer=3, x=11, y=22)
                except Exception as e:
                    expect(want is type(e), f"{mtype}.{name}: unexpected {type(e).__name__}: {e}")
                    expect(len(p.modules) == before, f"{mtype}.{name}: failed macro left a module behind")
                    continue
                expect(not isinstance(want, type), f"{mtype}.{name}: expected {want}")
                if isinstance(want, type):
                    continue
                n_targets += 1
                seen_kinds.add(want[2] if want[0] == 0 else "min1")
                expect(type(mc) is MultiCtl, "macro result type")
                expect(p.modules[mc.index] is mc and mc.parent is p, "attached to the project")
                expect((mc.name, mc.layer, mc.x, mc.y) == ("macro", 3, 11, 22), "placement kwargs")
                expect(mc.gain == want[2], f"{mtype}.{name}: gain {mc.gain} != {want[2]}")
                expect(mc.value == 0 and mc.quantization == 32768, "other controllers keep defaults")
                expect(
                    fields(mc.mappings.values[0]) == (want[0], want[1], ctl.number, 0, 0, 0, 0, 0),
                    f"{mtype}.{name}: mapping {fields(mc.mappings.values[0])}",
                )
                expect(all(fields(v) == DEFAULT_ROW for v in mc.mappings.values[1:]), "other slots default")
                expect(len(mc.mappings.values) == 16, "16 slots")
                expect(mc.out_links == [mod.index] and mod.in_links == [mc.index], "linked to target")
                if by_object or mtype == "MetaModule":
                    # (unbound user-defined MetaModule controllers cannot be driven at all)
                    continue
                # drive it
                vt = ctl.value_type
                start = getattr(mod, name)
                for reverse in (False, True):
                    if reverse:
                        mp = mc.mappings.values[0]
                        mp.min, mp.max = mp.max, mp.min
                    prev = None
                    for value in SWEEP:
                        try:
                            mc.value = value
                        except RadiantVoicesError as e:
                            expect(False, f"{mtype}.{name}: value {value} refused: {e}")
                            break
                        got = getattr(mod, name)
                        if not isinstance(vt, Range):
                            expect(got is start or got == start, f"{mtype}.{name}: non-ranged target changed")
                            continue
                        expect(vt.min <= got <= vt.max, f"{mtype}.{name}: {got} outside {vt}")
                        smin, smax = (want[1], want[0]) if reverse else (want[0], want[1])
                        span = vt.max - vt.min
                        lo, hi, dlo, dhi = (smax, smin, span, 0) if smin > smax else (smin, smax, 0, span)
                        ref = vt.min + convert_value(
                            mc.gain, 32768, lo, hi, dlo, dhi,
                            None if isinstance(vt, CompactRange) else span, value, mc.curve.values,
                        )
                        expect(got == ref, f"{mtype}.{name}: delivered {got}, convert_value says {ref}")
                        if prev is not None:
                            expect(got <= prev if reverse else got >= prev, f"{mtype}.{name}: not monotone {prev}->{got}")
                        prev = got
    expect(n_targets > 400, f"only {n_targets} targets swept")
    expect({256, 512, "min1"} <= seen_kinds, f"kinds seen: {seen_kinds}")


def check_macro_gain_choice_and_order():
    p = Project()
    amp = p.new_module(m.Amplifier)
    gen = p.new_module(m.Generator)
    ms = p.new_module(m.MultiSynth)
    flt = p.new_module(m.Filter)
    kick = p.new_module(m.Kicker)
    # all agree on 512
    mc = MultiCtl.macro(p, (amp, "inverse"), (gen, "sustain"), (kick, "no_click"))
    expect(mc.gain == 512, "agreeing bool gains -> 512")
    expect([fields(v)[:3] for v in mc.mappings.values[:4]] == [(0, 1, 4), (0, 1, 8), (0, 1, 9), (0, 32768, 0)], "bool rows")
    # disagreement -> 256
    mc = MultiCtl.macro(p, (amp, "inverse"), (gen, "volume"))
    expect(mc.gain == 256, "disagreeing gains -> 256")
    # polyphony 1..16 and 1..4 disagree
    mc = MultiCtl.macro(p, (gen, "polyphony"), (kick, "polyphony"))
    expect(mc.gain == 256, "272 vs 320 -> 256")
    expect([fields(v)[:3] for v in mc.mappings.values[:2]] == [(1, 16, 6), (1, 4, 8)], "polyphony rows")
    mc = MultiCtl.macro(p, (gen, "polyphony"))
    expect(mc.gain == 272, "single min==1 target")
    mc = MultiCtl.macro(p, (gen, "waveform"), (kick, "panning"), (ms, "transpose"), (flt, "type"))
    expect(mc.gain == 256, "mixed enum gains")
    expect(
        [fields(v)[:3] for v in mc.mappings.values[:4]]
        == [(0, len(m.Generator.Waveform) - 1, 2), (0, 32768, 3), (0, 256, 1), (0, len(m.Filter.Type) - 1, 4)],
        "mixed rows",
    )
    expect(mc.out_links == [gen.index, kick.index, ms.index, flt.index], "links follow argument order")
    expect(mc.out_link_slots == [len(x.in_links) - 1 for x in (gen, kick, ms, flt)], "slots")
    # no pairs at all
    before = len(p.modules)
    mc = MultiCtl.macro(p)
    expect(mc.gain == 256 and mc.out_links == [] and len(p.modules) == before + 1, "empty macro")
    # initial
    mc = MultiCtl.macro(p, (amp, "volume"), initial=8192)
    expect(mc.value == 8192 and amp.volume == 256, "initial value delivered")
    mc2 = MultiCtl.macro(p, (flt, "freq"), initial=0)
    expect(mc2.value == 0 and flt.freq == 0, "initial=0 is applied")
    # unknown controller name
    try:
        MultiCtl.macro(p, (amp, "nope"))
    except KeyError:
        pass
    else:
        expect(False, "unknown controller accepted")
    # signature is part of the public surface
    sig = inspect.signature(MultiCtl.macro)
    expect(list(sig.parameters) == ["project", "mod_ctl_pairs", "name", "layer", "x", "y", "initial"], "macro parameters")
    expect([sig.parameters[k].default for k in ("name", "layer", "x", "y", "initial")] == [None, 0, 0, 0, None], "defaults")
    expect(sig.parameters["mod_ctl_pairs"].kind is inspect.Parameter.VAR_POSITIONAL, "var positional")
    expect(all(sig.parameters[k].kind is inspect.Parameter.KEYWORD_ONLY for k in ("name", "layer", "x", "y", "initial")), "kw only")
    expect(isinstance(inspect.getattr_static(MultiCtl, "macro"), staticmethod), "macro is a staticmethod")
    expect(list(inspect.signature(convert_value).parameters) == ["gain", "qsteps", "smin", "smax", "dmin", "dmax", "vmax", "value", "curve"], "convert_value params")
    expect(inspect.signature(convert_value).parameters["curve"].default is None, "curve default")
    expect(list(inspect.signature(invert_value).parameters) == ["gain", "smin", "smax", "dmin", "dmax", "vmax", "value"], "invert_value params")
    for public in ("convert_value", "invert_value", "MultiCtl", "MappingError", "Controller", "Range", "CompactRange"):
        expect(hasattr(multictl_module, public), f"{public} importable from rv.modules.multictl")


def check_refusals():
    p = Project()
    amps = [p.new_module(m.Amplifier) for _ in range(17)]
    for pairs in ([(a, "volume") for a in amps], [(amps[0], "volume")] * 17, [(a, "nope") for a in amps]):
        try:
            MultiCtl.macro(p, *pairs)
        except MappingError as e:
            expect(str(e) == "MultiCtl supports max of 16 destinations", "message for >16")
            expect(isinstance(e, ValueError) and isinstance(e, RadiantVoicesError), "MappingError bases")
        else:
            expect(False, "17 destinations accepted")
    for pairs in (
        [(amps[0], "volume"), (amps[0], "balance")],
        [(amps[0], "volume"), (amps[1], "volume"), (amps[0], "volume")],
        [(a, "volume") for a in amps[:15]] + [(amps[3], m.Amplifier.controllers["gain"])],
    ):
        try:
            MultiCtl.macro(p, *pairs)
        except MappingError as e:
            expect(str(e) == "Only one MultiCtl mapping per destination module allowed", "message for duplicates")
        else:
            expect(False, "two targets on one module accepted")
    # a bad controller name wins over the duplicate check (it is found first)
    try:
        MultiCtl.macro(p, (amps[0], "volume"), (amps[0], "nope"))
    except KeyError:
        pass
    else:
        expect(False, "bad name after duplicate")
    expect(len(p.modules) == 18, "refused macros must not create modules")
    expect(all(a.in_links == [] for a in amps), "refused macros must not link")
    mc = MultiCtl.macro(p, *[(a, "volume") for a in amps[:16]], initial=16384)
    expect(mc.out_links == [a.index for a in amps[:16]], "16 links")
    expect([a.volume for a in amps] == [512] * 16 + [256], "initial value is fanned out to 16 targets")
    expect([fields(v)[:3] for v in mc.mappings.values] == [(0, 32768, 1)] * 16, "16 rows")
    # module of a foreign project: looked up by index in *this* project
    q = Project()
    foreign = q.new_module(m.Amplifier)
    mc = MultiCtl.macro(p, (foreign, "volume"))
    expect(mc.out_links == [foreign.index], "foreign module resolved by index")


def check_mapping_chunk():
    arr = MultiCtl().mappings
    expect(type(arr) is MultiCtl.MappingArray and issubclass(MultiCtl.MappingArray, BaseMultiCtl.mappings_chunk.__mro__[1]), "chunk class")
    expect((arr.chnm, arr.length, arr.type, arr.element_size) == (0, 16, "IIIIIIII", 32), "chunk layout")
    expect(arr.python_type is MultiCtl.Mapping, "python_type")
    expect(len({id(v) for v in arr.values}) == 16 and all(type(v) is MultiCtl.Mapping for v in arr.values), "distinct defaults")
    expect(arr.encoded_values == list(DEFAULT_ROW) * 16 and type(arr.encoded_values) is list, "default encoded values")
    d = arr.default(5)
    expect(type(d) is MultiCtl.Mapping and fields(d) == DEFAULT_ROW, "default(i)")
    rows = [(i * 3, 32768 - i, (i * 5) % 11, i & 1, i + 2, i + 3, i + 4, 2 ** 32 - 1 - i) for i in range(16)]
    flat = [x for row in rows for x in row]
    mc = MultiCtl(mappings=rows)
    expect([fields(v) for v in mc.mappings.values] == rows, "constructor rows")
    expect(vars(mc.mappings.values[3]) == dict(zip(
        ("min", "max", "controller", "flags", "future_use2", "future_use3", "future_use4", "future_use5"), rows[3])),
        "instance attributes of a mapping")
    data = mc.mappings.bytes
    expect(data == struct.pack("<128I", *flat) and mc.mappings.chdt() == data, "bytes")
    back = MultiCtl()
    back.load_chunk(type("C", (), {"chnm": 0, "chdt": data}))
    expect([fields(v) for v in back.mappings.values] == rows, "load_chunk")
    expect(list(mc.mappings.chunks()) == [(b"CHNM", b"\0\0\0\0"), (b"CHDT", data)], "chunk stream")
    mp = MultiCtl.Mapping(list(range(1, 12)))
    expect(fields(mp) == (1, 2, 3, 4, 5, 6, 7, 8), "long input truncated to 8 fields")
    mp = MultiCtl.Mapping(struct.unpack("<IIIIIIII", data[32:64]))
    expect(fields(mp) == rows[1], "tuple from unpack")
    for bad in [(), (1,), (1, 2, 3, 4, 5, 6, 7)]:
        try:
            MultiCtl.Mapping(bad)
        except ValueError:
            pass
        else:
            expect(False, f"short mapping {bad} accepted")
    try:
        MultiCtl.Mapping(5)
    except TypeError:
        pass
    else:
        expect(False, "int mapping accepted")
    # any object with the eight attributes is encoded
    class Duck:
        min, max, controller, flags = 9, 8, 7, 6
        future_use2 = future_use3 = future_use4 = future_use5 = 1
    mc.mappings.values[0] = Duck()
    expect(mc.mappings.encoded_values[:9] == [9, 8, 7, 6, 1, 1, 1, 1, rows[1][0]], "duck-typed mapping")


def check_file_round_trip():
    p = Project()
    amp = p.new_module(m.Amplifier)
    gen = p.new_module(m.Generator)
    ms = p.new_module(m.MultiSynth)
    mc = MultiCtl.macro(p, (amp, "balance"), (gen, "polyphony"), (ms, "transpose"), initial=20000)
    mc.mappings.values[0].min, mc.mappings.values[0].max = 30000, 100
    state = (amp.balance, gen.polyphony, ms.transpose)
    buf = BytesIO()
    p.write_to(buf)
    buf.seek(0)
    q = read_sunvox_file(buf)
    mc2 = q.modules[mc.index]
    expect(type(mc2) is MultiCtl, "read back type")
    expect([fields(v) for v in mc2.mappings.values] == [fields(v) for v in mc.mappings.values], "mappings survive")
    expect(mc2.out_links == mc.out_links and mc2.gain == mc.gain and mc2.value == 20000, "links/gain/value survive")
    expect(mc2.curve.values == mc.curve.values, "curve survives")
    a2, g2, s2 = (q.modules[x.index] for x in (amp, gen, ms))
    expect((a2.balance, g2.polyphony, s2.transpose) == state, "target state survives")
    mc2.value = 5000
    mc.value = 5000
    expect((a2.balance, g2.polyphony, s2.transpose) == (amp.balance, gen.polyphony, ms.transpose), "same fan-out after reload")
    buf2 = BytesIO()
    q2 = read_sunvox_file(BytesIO(buf.getvalue()))
    q2.write_to(buf2)
    expect(buf2.getvalue() == buf.getvalue(), "byte-identical rewrite")


def main():
    check_mapping_chunk()
    check_macro_gain_choice_and_order()
    check_refusals()
    check_file_round_trip()
    check_macro_over_all_controllers()
    finish()


if __name__ == "__main__":
    main()
