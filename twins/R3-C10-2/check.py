"""Behaviour check for Module.get_raw / Module.set_raw (property C10: stored
controller encodings are exact bijections on each controller's range).

Every controller of every module type (every unit variant of unit-dependent
ranges) is driven through set_raw()/get_raw() for ALL raw values of its range
and compared with an independent reference.  Error/warning behaviour for
out-of-range raw values, enum/bool/None handling and a file round trip are
checked as well.

Run: cd <root> && PYTHONPATH=<root>/src/python /venv/bin/python check.py
"""
import io
import logging
import sys
from enum import Enum

import rv.api as rv_api
from rv import errors
from rv.controller import (
    CompactRange,
    Controller,
    DependentRange,
    NoOffsetRange,
    Range,
    WarnOnlyRange,
)
from rv.errors import ControllerValueError, RangeValidationError
from rv.modules import MODULE_CLASSES
from rv.modules.module import Module
from rv.readers.reader import read_sunvox_file

failures = []


def check(cond, msg):
    if not cond:
        failures.append(msg)
        if len(failures) > 30:
            print("\n".join(failures))
            print("FAIL (too many failures)")
            sys.exit(1)


class Capture(logging.Handler):
    def __init__(self):
        super().__init__(level=logging.DEBUG)
        self.records = []

    def emit(self, record):
        self.records.append(record)

    def take(self):
        out, self.records = self.records, []
        return out


capture = Capture()
root_logger = logging.getLogger("rv")
root_logger.addHandler(capture)
root_logger.setLevel(logging.DEBUG)
root_logger.propagate = False


def ref_offset(t):
    if isinstance(t, NoOffsetRange):
        return 0
    return t.min if t.min < 0 else 0


def check_ranged(mod, name, t, label):
    """set_raw/get_raw over the complete range of one controller."""
    off = ref_offset(t)
    values = mod.controller_values
    raws = range(t.min - off, t.max - off + 1)
    seen = []
    for raw in raws:
        mod.set_raw(name, raw)
        v = values[name]
        if v != raw + off or type(v) is not int:
            check(False, f"{label}: set_raw({raw}) stored {v!r}")
        back = mod.get_raw(name)
        if back != raw or type(back) is not int:
            check(False, f"{label}: get_raw after set_raw({raw}) gave {back!r}")
        seen.append(v)
    check(seen == list(range(t.min, t.max + 1)), f"{label}: not onto the range")
    if not isinstance(t, NoOffsetRange):
        check(raws[0] >= 0, f"{label}: negative stored value")
    # a value put in place directly, then get_raw: v -> v - offset
    for v in {t.min, t.max, (t.min + t.max) // 2, min(t.max, t.min + 1)}:
        values[name] = v
        check(getattr(mod, name) == v, f"{label}: attribute {v}")
        check(mod.get_raw(name) == v - off, f"{label}: get_raw({v})")
    return len(raws)


def check_out_of_range(mod, name, t, label):
    off = ref_offset(t)
    for bad in (t.min - 1, t.max + 1, t.max + 1000):
        raw = bad - off
        mod.set_raw(name, t.min - off)
        capture.take()
        if isinstance(t, WarnOnlyRange):
            mod.set_raw(name, raw)
            recs = capture.take()
            check(mod.controller_values[name] == bad, f"{label}: warn-only keeps")
            check(
                len(recs) == 1
                and recs[0].levelno == logging.WARNING
                and recs[0].name == "rv.controller"
                and recs[0].getMessage() == str((bad, t.min, t.max)),
                f"{label}: warn-only log {[r.getMessage() for r in recs]}",
            )
            check(mod.get_raw(name) == raw, f"{label}: warn-only get_raw")
            continue
        expected = "{:x}({}).{}={} is not within [{}, {}]".format(
            mod.index or 0, mod.mtype, name, bad, t.min, t.max
        )
        try:
            mod.set_raw(name, raw)
        except ControllerValueError as e:
            check(e.args == (expected,), f"{label}: error args {e.args}")
            check(isinstance(e, ValueError), f"{label}: not a ValueError")
            cause = e.__cause__
            check(
                type(cause) is RangeValidationError
                and cause.args == (bad, t.min, t.max),
                f"{label}: cause {cause!r}",
            )
            check(e.__context__ is cause, f"{label}: context")
        else:
            check(False, f"{label}: set_raw({raw}) did not raise")
        check(mod.controller_values[name] == t.min, f"{label}: value changed on error")
        check(capture.take() == [], f"{label}: logged while raising")
        with errors.override_raise_controller_value_errors(False):
            mod.set_raw(name, raw)
        recs = capture.take()
        check(mod.controller_values[name] == bad, f"{label}: lenient keeps value")
        check(mod.get_raw(name) == raw, f"{label}: lenient get_raw")
        check(
            len(recs) == 1
            and recs[0].levelno == logging.WARNING
            and recs[0].name == "rv.modules.module"
            and recs[0].getMessage() == expected
            and recs[0].exc_info
            and type(recs[0].exc_info[1]) is RangeValidationError,
            f"{label}: lenient log {[r.getMessage() for r in recs]}",
        )


pairs = 0
for mtype, cls in sorted(MODULE_CLASSES.items()):
    mod = cls()
    for name, ctl in mod.controllers.items():
        label = f"{mtype}.{name}"
        vt = ctl.value_type
        if isinstance(vt, DependentRange):
            for unit in mod.controllers[vt.ctl_name].value_type:
                setattr(mod, vt.ctl_name, unit)
                t = vt.range_map[unit]
                pairs += check_ranged(mod, name, t, f"{label}[{unit.name}]")
                check_out_of_range(mod, name, t, f"{label}[{unit.name}]")
            continue
        t = ctl.instance_value_type(mod)
        if isinstance(t, Range):
            pairs += check_ranged(mod, name, t, label)
            check_out_of_range(mod, name, t, label)
        elif isinstance(t, type) and issubclass(t, Enum):
            raws = []
            for member in t:
                mod.set_raw(name, member.value)
                check(mod.controller_values[name] is member, f"{label}: {member}")
                check(getattr(mod, name) is member, f"{label}: attr {member}")
                raw = mod.get_raw(name)
                check(raw == member.value and type(raw) is int, f"{label}: raw")
                raws.append(raw)
                setattr(mod, name, member.name)  # by name
                check(mod.get_raw(name) == member.value, f"{label}: by name")
                pairs += 1
            check(len(set(raws)) == len(raws), f"{label}: enum raws collide")
            bad = max(m.value for m in t) + 1
            try:
                mod.set_raw(name, bad)
            except ValueError as e:
                check(not isinstance(e, ControllerValueError), f"{label}: enum err")
            else:
                check(False, f"{label}: bad enum raw accepted")
        elif t is bool:
            for raw, want in ((0, False), (1, True), (2, True)):
                mod.set_raw(name, raw)
                check(mod.controller_values[name] is want, f"{label}: bool {raw}")
                back = mod.get_raw(name)
                check(back == int(want) and type(back) is int, f"{label}: bool raw")
            pairs += 2
        else:
            check(False, f"{label}: unexpected value type {t!r}")

check(pairs > 5_000_000, f"only {pairs} pairs enumerated")

# --- get_raw on values that are None / enums with odd payloads ---------------
amp = MODULE_CLASSES["Amplifier"]()
for name, ctl in amp.controllers.items():
    saved = amp.controller_values[name]
    amp.controller_values[name] = None
    t = ctl.instance_value_type(amp)
    want = t.to_raw_value(0) if isinstance(t, Range) else 0
    check(amp.get_raw(name) == want, f"Amplifier.{name}: None -> {want}")
    amp.controller_values[name] = saved
try:
    amp.get_raw("no_such_controller")
except KeyError:
    pass
else:
    check(False, "get_raw of unknown controller should raise KeyError")
try:
    amp.set_raw("no_such_controller", 1)
except KeyError:
    pass
else:
    check(False, "set_raw of unknown controller should raise KeyError")
check("no_such_controller" not in amp.controller_values, "stray value stored")


class Odd(Enum):
    nothing = None
    five = 5


class Probe(Module):
    mtype = "C10 Probe"
    mgroup = "Test"
    flags = 0
    plain = Controller((-7, 7), 0)
    compact = Controller(CompactRange(-3, 3), 0)
    nooff = Controller(NoOffsetRange(-4, 4), 0)
    positive = Controller((2, 9), 2)
    odd = Controller(Odd, Odd.five)
    flag = Controller(bool, False)
    untyped = Controller(None, None)


try:
    probe = Probe(index=0x2A)
    for name in ("plain", "compact", "nooff", "positive"):
        t = probe.controllers[name].value_type
        check_ranged(probe, name, t, f"Probe.{name}")
        check_out_of_range(probe, name, t, f"Probe.{name}")
    check(probe.get_raw("odd") == 5, "Probe.odd five")
    probe.controller_values["odd"] = Odd.nothing
    check(probe.get_raw("odd") == 0, "Probe.odd None payload -> 0")
    probe.set_raw("odd", 5)
    check(probe.odd is Odd.five, "Probe.odd set_raw")
    check(probe.get_raw("untyped") == 0, "Probe.untyped None -> 0")
    check(probe.get_raw("flag") == 0, "Probe.flag")
    probe.flag = True
    check(probe.get_raw("flag") == 1 and type(probe.get_raw("flag")) is int, "flag 1")
    try:
        probe.set_raw("untyped", 3)
    except TypeError:
        pass
    else:
        check(False, "Probe.untyped set_raw should raise TypeError")
    check(probe.untyped is None, "Probe.untyped changed")
    try:
        probe.set_raw("plain", 15)
    except ControllerValueError as e:
        check(e.args == ("2a(C10 Probe).plain=8 is not within [-7, 7]",), str(e))
    else:
        check(False, "Probe.plain 15 accepted")
    # float raw values go through the same arithmetic
    probe.set_raw("plain", 2.5)
    check(probe.plain == -4.5 and probe.get_raw("plain") == 2.5, "float raw")
finally:
    MODULE_CLASSES.pop("C10 Probe", None)

# --- MetaModule user defined controllers (proxy -> controller()) -------------
meta = MODULE_CLASSES["MetaModule"]()
for name in ("user_defined_1", "user_defined_27"):
    for raw in (0, 1, 12345, 32768, 44100):
        meta.set_raw(name, raw)
        check(meta.controller_values[name] == raw, f"MetaModule.{name} {raw}")
        check(getattr(meta, name) == raw, f"MetaModule.{name} attr {raw}")
        check(meta.get_raw(name) == raw, f"MetaModule.{name} raw {raw}")
    try:
        meta.set_raw(name, 44101)
    except ControllerValueError as e:
        check(
            e.args == (f"0(MetaModule).{name}=44101 is not within [0, 44100]",),
            f"MetaModule.{name}: {e.args}",
        )
    else:
        check(False, f"MetaModule.{name}: 44101 accepted")

# --- file round trip: values written by get_raw come back through set_raw ----
project = rv_api.Project()
settings = {
    "Amplifier": dict(dc_offset=-128, balance=128, fine_volume=0),
    "MultiSynth": dict(transpose=-128, random_pitch=4096),
    "Vorbis player": dict(finetune=-128, transpose=128),
    "LFO": dict(frequency_unit="hz", freq=16384),
    "Delay": dict(delay_unit="sample", delay_l=0, delay_r=32768),
    "Generator": dict(waveform="saw", sustain=False, panning=-128),
}
made = {}
for mtype, kw in settings.items():
    made[mtype] = project.new_module(MODULE_CLASSES[mtype], **kw)
    project.connect(made[mtype], project.output)
buf = io.BytesIO()
project.write_to(buf)
buf.seek(0)
capture.take()
again = read_sunvox_file(buf)
for mtype, original in made.items():
    loaded = again.modules[original.index]
    check(type(loaded) is type(original), f"round trip {mtype}: type")
    check(
        loaded.controller_values == original.controller_values,
        f"round trip {mtype}: {loaded.controller_values}",
    )
    for name in original.controllers:
        check(loaded.get_raw(name) == original.get_raw(name), f"rt raw {mtype}.{name}")
check(
    [r for r in capture.take() if r.levelno >= logging.WARNING] == [],
    "warnings while reading back",
)

if failures:
    print("\n".join(failures))
    print("FAIL")
    sys.exit(1)
print(f"PASS ({pairs} (controller, value) pairs)")
