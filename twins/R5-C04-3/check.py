import hashlib
import io
import logging
import os
import struct
import sys
from enum import Enum
from pathlib import Path

logging.disable(logging.CRITICAL)

from rv.api import read_sunvox_file  # noqa: E402

ROOT = Path(os.getcwd())
FILES = ROOT / "tests" / "files"
FAILURES = []


def check(cond, msg):
    if not cond:
        FAILURES.append(msg)
        print("FAIL:", msg)


# ---------------------------------------------------------------- raw IFF tools
def split_chunks(blob):
    """Independent chunk splitter: [(id4, payload), ...]."""
    out, pos = [], 0
    while pos + 8 <= len(blob):
        cid = blob[pos : pos + 4]
        (size,) = struct.unpack("<I", blob[pos + 4 : pos + 8])
        out.append((cid, blob[pos + 8 : pos + 8 + size]))
        pos += 8 + size
    return out


def join_chunks(items):
    return b"".join(cid + struct.pack("<I", len(d)) + d for cid, d in items)


def u32(v):
    return struct.pack("<I", v)


def i32(v):
    return struct.pack("<i", v)


# ---------------------------------------------------------------- snapshots
SKIP_KEYS = {"parent", "project", "pattern", "_parent", "_project", "_pattern", "_order"}


def norm(v, depth=0, seen=None):
    seen = seen or ()
    if depth > 12:
        return "<deep>"
    if v is None or isinstance(v, (bool, int, float, str)):
        if isinstance(v, Enum):
            return ("enum", type(v).__name__, v.value)
        return v
    if isinstance(v, Enum):
        return ("enum", type(v).__name__, norm(v.value, depth + 1, seen))
    if isinstance(v, (bytes, bytearray)):
        return ("bytes", hashlib.sha1(bytes(v)).hexdigest(), len(v))
    if isinstance(v, (list, tuple)):
        return [norm(x, depth + 1, seen) for x in v]
    if isinstance(v, (set, frozenset)):
        return ("set", sorted((norm(x, depth + 1, seen) for x in v), key=repr))
    if isinstance(v, dict):
        return (
            "dict",
            sorted(
                ((norm(k, depth + 1, seen), norm(x, depth + 1, seen)) for k, x in v.items()),
                key=repr,
            ),
        )
    if hasattr(v, "tolist") and hasattr(v, "dtype"):
        return ("array", str(v.dtype), v.tolist())
    if id(v) in seen:
        return "<cycle>"
    if isinstance(v, type) or callable(v):
        return ("callable", getattr(v, "__name__", type(v).__name__))
    d = getattr(v, "__dict__", None)
    if d is None:
        slots = getattr(type(v), "__slots__", None)
        if slots:
            d = {s: getattr(v, s) for s in slots if hasattr(v, s)}
        else:
            return ("obj", type(v).__name__)
    seen = seen + (id(v),)
    return (
        "obj",
        type(v).__name__,
        sorted(
            ((k, norm(x, depth + 1, seen)) for k, x in d.items() if k not in SKIP_KEYS),
            key=repr,
        ),
    )


def snapshot(obj):
    """Deterministic, reader-independent dump of everything reachable from obj."""
    return norm(obj)


def digest(obj):
    return hashlib.sha256(repr(snapshot(obj)).encode()).hexdigest()[:16]


def load(blob):
    return read_sunvox_file(io.BytesIO(blob))


def fixture_paths():
    return sorted(p for p in FILES.rglob("*") if p.suffix in (".sunvox", ".sunsynth"))


def finish():
    if FAILURES:
        print("%d failure(s)" % len(FAILURES))
        sys.exit(1)
    print("PASS")


# ---------------------------------------------------------------- reference encoder
def cstr(s):
    return s.encode("utf8") + b"\0"


def ver(t):
    return bytes(reversed(t))


def enc_module(m):
    """m: None (empty slot) or dict description -> list of chunks."""
    if m is None:
        return [(b"SEND", b"")]
    out = [(b"SFFF", u32(m.get("flags", 0x49))), (b"SNAM", cstr(m["name"]).ljust(32, b"\0"))]
    if "type" in m:
        out.append((b"STYP", cstr(m["type"])))
    out += [
        (b"SFIN", i32(m.get("finetune", 0))),
        (b"SREL", i32(m.get("relnote", 0))),
        (b"SXXX", i32(m.get("x", 512))),
        (b"SYYY", i32(m.get("y", 512))),
        (b"SZZZ", u32(m.get("layer", 0))),
        (b"SSCL", u32(m.get("scale", 256))),
    ]
    if "vis" in m:
        out.append((b"SVPR", u32(m["vis"])))
    out.append((b"SCOL", bytes(m.get("color", (1, 2, 3)))))
    out.append((b"SMII", u32(m.get("smii", 0))))
    if "midi_out_name" in m:
        out.append((b"SMIN", cstr(m["midi_out_name"])))
    out += [
        (b"SMIC", i32(m.get("smic", 0))),
        (b"SMIB", i32(m.get("smib", -1))),
        (b"SMIP", i32(m.get("smip", -1))),
    ]
    if "links" in m:
        out.append((b"SLNK", b"".join(i32(x) for x in m["links"])))
    if "slots" in m:
        out.append((b"SLnK", b"".join(i32(x) for x in m["slots"])))
    for v in m.get("cvals", []):
        out.append((b"CVAL", i32(v)))
    if "cmid" in m:
        out.append((b"CMID", m["cmid"]))
    out.append((b"SEND", b""))
    return out


def enc_pattern(p):
    if p is None:
        return [(b"PEND", b"")]
    if "clone_of" in p:
        return [
            (b"PPAR", u32(p["clone_of"])),
            (b"PFFF", u32(p.get("pfff", 1))),
            (b"PXXX", i32(p.get("x", 0))),
            (b"PYYY", i32(p.get("y", 0))),
            (b"PEND", b""),
        ]
    notes = p["notes"]  # list of lines; each line a list of (note, vel, module, ctl, val)
    raw = b"".join(struct.pack("<BBHHH", *n) for line in notes for n in line)
    out = [(b"PDTA", raw)]
    if "name" in p:
        out.append((b"PNME", cstr(p["name"])))
    out += [
        (b"PCHN", u32(len(notes[0]))),
        (b"PLIN", u32(len(notes))),
        (b"PYSZ", u32(p.get("ysize", 32))),
        (b"PFLG", u32(p.get("pflg", 0))),
        (b"PICO", p.get("icon", bytes(range(32)))),
        (b"PFGC", bytes(p.get("fg", (0, 0, 0)))),
        (b"PBGC", bytes(p.get("bg", (255, 255, 255)))),
        (b"PFFF", u32(p.get("pfff", 0))),
        (b"PXXX", i32(p.get("x", 0))),
        (b"PYYY", i32(p.get("y", 0))),
        (b"PEND", b""),
    ]
    return out


def enc_project_chunks(d):
    out = [(b"SVOX", b""), (b"VERS", ver(d["vers"]))]
    if "bver" in d:
        out.append((b"BVER", ver(d["bver"])))
    for cid, key, pk in HEADER_FIELDS:
        if key in d:
            out.append((cid, pk(d[key])))
        if cid == b"GVOL" and "name" in d:
            out.append((b"NAME", cstr(d["name"])))
    for p in d.get("patterns", []):
        out += enc_pattern(p)
    for m in d.get("modules", []):
        out += enc_module(m)
    return out


HEADER_FIELDS = [
    (b"FLGS", "flags", u32),
    (b"SFGS", "sfgs", u32),
    (b"BPM ", "bpm", u32),
    (b"SPED", "tpl", u32),
    (b"TGRD", "tgrd", u32),
    (b"TGD2", "tgd2", u32),
    (b"GVOL", "gvol", u32),
    (b"MSCL", "mscl", u32),
    (b"MZOO", "mzoo", u32),
    (b"MXOF", "mxof", i32),
    (b"MYOF", "myof", i32),
    (b"LMSK", "lmsk", u32),
    (b"CURL", "curl", u32),
    (b"TIME", "time", i32),
    (b"REPS", "reps", i32),
    (b"SELS", "sels", u32),
    (b"LGEN", "lgen", i32),
    (b"PATN", "patn", u32),
    (b"PATT", "patt", u32),
    (b"PATL", "patl", u32),
]

REF = dict(
    vers=(1, 9, 6, 1),
    bver=(1, 9, 5, 2),
    flags=0x12345,
    sfgs=(5 << 3) | 2,
    bpm=133,
    tpl=5,
    tgrd=3,
    tgd2=7,
    gvol=90,
    name="Réf project",
    mscl=300,
    mzoo=200,
    mxof=-17,
    myof=23,
    lmsk=0b101,
    curl=2,
    time=-4,
    reps=12,
    sels=2,
    lgen=-1,
    patn=1,
    patt=2,
    patl=3,
    patterns=[
        dict(
            name="pat A",
            notes=[
                [(1, 2, 0x0103, 0x0405, 0x0607), (0, 0, 0, 0, 0)],
                [(128, 129, 0xFFFF, 0x1F00, 0x8001), (60, 0, 3, 0, 0)],
                [(0, 0, 0, 0, 0), (13, 64, 0x0201, 0x0011, 0x2233)],
            ],
            ysize=24,
            pflg=1,
            fg=(9, 8, 7),
            bg=(6, 5, 4),
            pfff=0x10,
            x=-64,
            y=96,
        ),
        None,
        dict(clone_of=0, pfff=0x9, x=12, y=-32),
    ],
    modules=[
        dict(name="Output", flags=0x43, links=[2, -1, -1], color=(255, 254, 253), x=900, y=-5),
        None,
        dict(
            name="amp one",
            type="Amplifier",
            flags=0x51,
            links=[3],
            cvals=[700, 28, 200],
            finetune=-33,
            relnote=4,
            layer=3,
            scale=128,
            vis=0x12345678,
            smii=(7 << 1) | 1,
            midi_out_name="dev",
            smic=3,
            smib=5,
            smip=9,
        ),
        dict(
            name="amp two",
            type="Amplifier",
            flags=0x51,
            links=[],
            cvals=[1, 2, 3, 1, 4, 0, 5, 6, 16390],
            cmid=b"".join(struct.pack("<BBBBHBB", i % 9, i, i % 6, 0, 1000 + i, 0, 0xC8) for i in range(9)),
        ),
        None,
        None,
    ],
)


def check_ref_project(p, label="ref"):
    """Assert every field of the hand-encoded reference project (independent oracle)."""
    def eq(a, b, what):
        check(a == b, "%s: %s: %r != %r" % (label, what, a, b))

    eq(type(p).__name__, "Project", "type")
    eq(p.loaded_sunvox_version, (1, 9, 6, 1), "VERS")
    eq(p.based_on_version, (1, 9, 5, 2), "BVER")
    eq(p.flags, 0x12345, "FLGS")
    eq(int(p.receive_sync_midi), 2, "SFGS midi")
    eq(int(p.receive_sync_other), 5, "SFGS other")
    eq(p.initial_bpm, 133, "BPM")
    eq(p.initial_tpl, 5, "SPED")
    eq(p.time_grid, 3, "TGRD")
    eq(p.time_grid2, 7, "TGD2")
    eq(p.global_volume, 90, "GVOL")
    eq(p.name, "Réf project", "NAME")
    eq(p.modules_scale, 300, "MSCL")
    eq(p.modules_zoom, 200, "MZOO")
    eq(p.modules_x_offset, -17, "MXOF")
    eq(p.modules_y_offset, 23, "MYOF")
    eq(p.modules_layer_mask, 5, "LMSK")
    eq(p.modules_current_layer, 2, "CURL")
    eq(p.timeline_position, -4, "TIME")
    eq(p.restart_position, 12, "REPS")
    eq(p.selected_module, 2, "SELS")
    eq(p.selected_generator, -1, "LGEN")
    eq(p.current_pattern, 1, "PATN")
    eq(p.current_track, 2, "PATT")
    eq(p.current_line, 3, "PATL")
    # patterns
    eq(len(p.patterns), 3, "pattern count")
    a, b, c = p.patterns
    eq(b, None, "empty pattern slot")
    eq(type(a).__name__, "Pattern", "pattern 0 type")
    eq((a.name, a.tracks, a.lines, a.y_size, a.flags_PFLG), ("pat A", 2, 3, 24, 1), "pattern hdr")
    eq(a.icon, bytes(range(32)), "PICO")
    eq((tuple(a.fg_color), tuple(a.bg_color)), ((9, 8, 7), (6, 5, 4)), "pattern colors")
    eq((a.flags_PFFF, a.x, a.y), (0x10, -64, 96), "pattern placement")
    got = [[(n.note, n.vel, n.module, n.ctl, n.val) for n in line] for line in a.data]
    eq(got, [[tuple(n) for n in line] for line in REF["patterns"][0]["notes"]], "notes")
    check(a.project is p and c.project is p, label + ": pattern.project")
    eq(type(c).__name__, "PatternClone", "pattern 2 type")
    eq((c.source, c.flags_PFFF, c.x, c.y), (0, 9, 12, -32), "clone fields")
    # modules
    eq([type(m).__name__ for m in p.modules], ["Output", "NoneType", "Amplifier", "Amplifier"], "module layout")
    m0, _, m2, m3 = p.modules
    eq([m0.index, m2.index, m3.index], [0, 2, 3], "module indexes")
    check(p.output is m0, label + ": project.output")
    check(all(m.parent is p for m in (m0, m2, m3)), label + ": module.parent")
    eq((m0.name, m0.flags, tuple(m0.color), m0.x, m0.y), ("Output", 0x43, (255, 254, 253), 900, -5), "output fields")
    eq((m0.in_links, m0.in_link_slots, m0.out_links, m0.out_link_slots), ([2], [0], [], []), "output links")
    eq((m2.in_links, m2.in_link_slots, m2.out_links, m2.out_link_slots), ([3], [0], [0], [0]), "amp one links")
    eq((m3.in_links, m3.in_link_slots, m3.out_links, m3.out_link_slots), ([], [], [2], [0]), "amp two links")
    eq((m2.name, m2.mtype, m2.flags), ("amp one", "Amplifier", 0x51), "amp one ident")
    eq((m2.mod_finetune, m2.mod_relative_note, m2.layer, m2.mod_scale), (-33, 4, 3, 128), "amp one misc")
    eq(int(m2.visualization), 0x12345678, "SVPR")
    eq((m2.midi_in_always, m2.midi_in_channel), (True, 7), "SMII")
    eq((m2.midi_out_name, m2.midi_out_channel, m2.midi_out_bank, m2.midi_out_program), ("dev", 3, 5, 9), "midi out")
    eq((m0.midi_in_always, m0.midi_in_channel, m0.midi_out_name), (False, 0, None), "output midi defaults")
    amp = lambda m: (m.volume, m.balance, m.dc_offset, m.inverse, m.stereo_width, m.absolute, m.fine_volume, m.gain, m.bipolar_dc_offset)
    eq(amp(m2), (700, -100, 72, False, 128, False, 32768, 1, 0), "truncated CVAL list leaves defaults")
    eq(amp(m3), (1, -126, -125, True, 4, False, 5, 6, 6), "full CVAL list")
    names = ["volume", "balance", "dc_offset", "inverse", "stereo_width", "absolute", "fine_volume", "gain", "bipolar_dc_offset"]
    got = [
        (mm.message_type.value, mm.channel, mm.slope.value, mm.message_parameter)
        for mm in (m3.controller_midi_maps[n] for n in names)
    ]
    eq(got, [(i % 9, i, i % 6, 1000 + i) for i in range(9)], "CMID")


def ref_blob():
    return join_chunks(enc_project_chunks(REF))


# digests of snapshot() for every shipped fixture, recorded on the unchanged tree
GOLDEN = {
    "amplifier.sunsynth": "5d6f880fedb5f904",
    "analog-generator.sunsynth": "3be7ceb0f016ec9c",
    "compressor.sunsynth": "e6f1038422f61688",
    "dc-blocker.sunsynth": "90aa1998869f0f48",
    "delay.sunsynth": "2e38f4fe0ca15aaa",
    "distortion.sunsynth": "1969b322f8a5dde9",
    "drum-synth.sunsynth": "488e1601728c1116",
    "echo.sunsynth": "580eaffedbb69fc2",
    "empty.sunvox": "66be1e92ec6532c7",
    "eq.sunsynth": "8f01a6e2c2d07800",
    "feedback.sunsynth": "7ad817f8f81fcd5a",
    "fft.sunsynth": "a0b0d6b410ada8bb",
    "filter-pro.sunsynth": "b3d981a8716b0a32",
    "filter.sunsynth": "43405146cbcc1e50",
    "flanger.sunsynth": "b12b2f389e627572",
    "fmx.sunsynth": "de9a7f9d3d90ad76",
    "generator.sunsynth": "624283da0b85d36b",
    "glide.sunsynth": "1cf43fc4070de7c7",
    "gpio.sunsynth": "cb05b77d563c8a09",
    "input.sunsynth": "a23f54a65f8c8ba9",
    "issue109/filter_lfo.sunvox": "6e55d05c6f26ed39",
    "issue41/sample.sunvox": "e11853aeb1ba9611",
    "issue54/test1.sunvox": "cea9ca107590a02d",
    "kicker.sunsynth": "59a6b8c06e9c1d8f",
    "lfo.sunsynth": "0d5bb121971aa05b",
    "loop.sunsynth": "4093635d3bd2e484",
    "metamodule-option-78.sunsynth": "c2666b79cc73033d",
    "metamodule-option-79.sunsynth": "2e5939fff56e3dbf",
    "metamodule-option-7a.sunsynth": "685d1bbb11bfd64a",
    "metamodule.sunsynth": "8fcc8d3bee277fda",
    "modulator.sunsynth": "15bace403c9eb3db",
    "module-multiselect.sunvox": "1683412b3881c570",
    "multictl.sunsynth": "b8e6c11ab7bcf06f",
    "multisynth-random-off.sunsynth": "741bd3f6ffea1442",
    "multisynth-random1.sunsynth": "aab8a6004f28bc26",
    "multisynth-random2.sunsynth": "ba1ea7fa357d858d",
    "multisynth-random3.sunsynth": "3f7571e21c859ac3",
    "multisynth.sunsynth": "f186cdab2dcb36b4",
    "pitch-shifter.sunsynth": "16664fcadd126d60",
    "pitch2ctl.sunsynth": "c3e5861640f5b8f2",
    "reverb.sunsynth": "bd96b899a99dcc63",
    "sampler.sunsynth": "d1c3c5ea0833ffdb",
    "single-fm.sunvox": "f67221a4f23364ad",
    "smooth.sunsynth": "9d2eebad4c95b971",
    "sound2ctl.sunsynth": "b43aafd48fbbc1ba",
    "spectravoice.sunsynth": "65143c11826b3abd",
    "supertracks.sunvox": "5596f5c3251e421d",
    "velocity2ctl.sunsynth": "663791474a8a7277",
    "vibrato.sunsynth": "abe22eeb52538033",
    "vocal-filter.sunsynth": "b4280c62a5d055c0",
    "vorbis-player.sunsynth": "03d538592c4550f5",
    "waveshaper.sunsynth": "0f1cfe307027aef4",
}


def check_fixtures_golden():
    paths = fixture_paths()
    check(len(paths) == len(GOLDEN), "fixture count %d" % len(paths))
    for p in paths:
        key = str(p.relative_to(FILES)).replace(os.sep, "/")
        got = digest(load(p.read_bytes()))
        check(got == GOLDEN.get(key), "golden digest differs for %s: %s" % (key, got))


# ================================================================ checks for refactoring 3
# (ModuleReader / PatternReader / PatternCloneReader chunk handlers)
import copy


def outcome(blob):
    try:
        return digest(load(blob))
    except Exception as e:  # noqa
        return "raises " + type(e).__name__


class LogCapture(logging.Handler):
    def __init__(self, logger_name):
        super().__init__(level=logging.DEBUG)
        self.logger_name = logger_name
        self.records = []

    def emit(self, record):
        if record.name == self.logger_name:
            self.records.append((record.levelname, record.getMessage()))

    def __enter__(self):
        logging.disable(logging.NOTSET)
        root = logging.getLogger("rv")
        self._old = root.level
        root.setLevel(logging.DEBUG)
        root.addHandler(self)
        return self

    def __exit__(self, *exc):
        root = logging.getLogger("rv")
        root.removeHandler(self)
        root.setLevel(self._old)
        logging.disable(logging.CRITICAL)


AMP = dict(name="amp", type="Amplifier", flags=0x51)


def synth_of(chunks_):
    return join_chunks([(b"SSYN", b""), (b"VERS", ver((2, 1, 2, 1)))] + chunks_)


def load_module(chunks_):
    return load(synth_of(chunks_)).module


def replace_chunk(items, cid, payload, nth=0):
    out, seen = [], 0
    for c, d in items:
        if c == cid:
            if seen == nth:
                d = payload
            seen += 1
        out.append((c, d))
    assert seen > nth, cid
    return out


def test_strings():
    base = enc_module(dict(AMP, midi_out_name="x"))
    cases = [
        (b"plain\0", "plain"), (b"unterminated", "unterminated"), (b"\0", ""), (b"", ""),
        (b"cut\0junk\0more", "cut"), (b"\0hidden", ""), ("Grüße ☃".encode("utf8") + b"\0\0\0", "Grüße ☃"),
        (b"a" * 31 + b"\0", "a" * 31), (b"tab\there\0", "tab\there"),
    ]
    for raw, want in cases:
        m = load_module(replace_chunk(base, b"SNAM", raw))
        check(m.name == want, "SNAM %r -> %r" % (raw, m.name))
        m = load_module(replace_chunk(base, b"SMIN", raw))
        check(m.midi_out_name == want, "SMIN %r -> %r" % (raw, m.midi_out_name))
        pats = enc_pattern(dict(notes=[[(0, 0, 0, 0, 0)]], name="n"))
        p = load(join_chunks([(b"SVOX", b"")] + replace_chunk(pats, b"PNME", raw)))
        check(p.patterns[0].name == want, "PNME %r -> %r" % (raw, p.patterns[0].name))
    check(outcome(synth_of(replace_chunk(base, b"SNAM", b"\xff\xfe\0"))) == "raises UnicodeDecodeError", "bad utf8 name")
    # STYP: terminated or not, unknown type is a KeyError
    for raw in (b"Amplifier\0", b"Amplifier", b"Amplifier\0garbage"):
        m = load_module(replace_chunk(base, b"STYP", raw))
        check(type(m).__name__ == "Amplifier" and m.mtype == "Amplifier", "STYP %r" % raw)
    check(outcome(synth_of(replace_chunk(base, b"STYP", b"NoSuchModule\0"))) == "raises KeyError", "unknown STYP")
    check(outcome(synth_of(replace_chunk(base, b"STYP", b"\0"))) == "raises KeyError", "empty STYP")
    # name / flags seen before STYP carry over (flags OR-ed with the type's defaults)
    m = load_module(enc_module(dict(AMP, name="carried", flags=0x10002)))
    check((m.name, m.flags) == ("carried", 0x10002 | 0x51), "STYP carries name/flags: %r %x" % (m.name, m.flags))
    # an Output (no STYP) keeps its plain fields
    m = load(join_chunks([(b"SVOX", b"")] + enc_module(dict(name="Output", flags=0x43, x=7)))).modules[0]
    check((type(m).__name__, m.flags, m.x) == ("Output", 0x43, 7), "output module")


def test_scalars():
    base = enc_module(dict(AMP, midi_out_name="x", vis=1))
    signed = {b"SFIN": "mod_finetune", b"SREL": "mod_relative_note", b"SXXX": "x", b"SYYY": "y",
              b"SMIC": "midi_out_channel", b"SMIB": "midi_out_bank", b"SMIP": "midi_out_program"}
    unsigned = {b"SZZZ": "layer", b"SSCL": "mod_scale"}
    for cid, attr in signed.items():
        for v in (0, 1, -1, 2**31 - 1, -(2**31), 0x01020304, -0x01020304):
            m = load_module(replace_chunk(base, cid, i32(v)))
            check(getattr(m, attr) == v and type(getattr(m, attr)) is int, "%s=%d -> %r" % (cid, v, getattr(m, attr)))
    for cid, attr in unsigned.items():
        for v in (0, 1, 2**31, 2**32 - 1, 0x80000001, 0x01020304):
            m = load_module(replace_chunk(base, cid, u32(v)))
            check(getattr(m, attr) == v, "%s=%d -> %r" % (cid, v, getattr(m, attr)))
    for v in (0, 1, 0x000C0101, 0xFFFFFFFF, 0x12345678):
        m = load_module(replace_chunk(base, b"SVPR", u32(v)))
        check(int(m.visualization) == v, "SVPR %x -> %r" % (v, m.visualization))
    for v, want in ((0, (False, 0)), (1, (True, 0)), (2, (False, 1)), (0x21, (True, 16)), (0xFFFFFFFF, (True, 0x7FFFFFFF))):
        m = load_module(replace_chunk(base, b"SMII", u32(v)))
        check((m.midi_in_always, m.midi_in_channel) == want, "SMII %x -> %r" % (v, (m.midi_in_always, m.midi_in_channel)))
        check(type(m.midi_in_always) is bool, "SMII flag is bool")
    m = load_module(replace_chunk(base, b"SCOL", b"\x00\x80\xff"))
    check(m.color == (0, 128, 255), "SCOL")
    for cid in list(signed) + list(unsigned) + [b"SVPR", b"SMII", b"SFFF", b"SCOL", b"CVAL", b"CHNK", b"CHNM", b"CHFF", b"CHFR"]:
        for bad in (b"", b"\x01", b"\x01\x02\x03\x04\x05"):
            items = replace_chunk(base, cid, bad) if any(c == cid for c, _ in base) else base[:-1] + [(cid, bad)] + base[-1:]
            check(outcome(synth_of(items)) == "raises error", "%s with %d bytes must be struct.error" % (cid, len(bad)))
    # absent optional chunks leave the defaults
    from rv.modules.amplifier import Amplifier

    fresh = Amplifier()
    minimal = [(b"SFFF", u32(0x51)), (b"SNAM", b"m\0"), (b"STYP", b"Amplifier\0"), (b"SEND", b"")]
    m = load_module(minimal)
    for attr in ("mod_finetune mod_relative_note x y layer mod_scale color midi_in_always midi_in_channel midi_out_name "
                 "midi_out_channel midi_out_bank midi_out_program in_links in_link_slots volume balance gain").split():
        check(getattr(m, attr) == getattr(fresh, attr), "default kept: " + attr)
    check(int(m.visualization) == int(fresh.visualization), "default visualization")
    for cid, _ in base:
        if cid in (b"SFFF", b"SNAM", b"STYP", b"SEND"):
            continue
        full = load_module(base)
        part = load_module([it for it in base if it[0] != cid])
        attrs = dict(list(signed.items()) + list(unsigned.items()))
        for c2, attr in attrs.items():
            want = getattr(fresh, attr) if c2 == cid else getattr(full, attr)
            check(getattr(part, attr) == want, "drop %s: %s" % (cid, attr))


def test_links():
    def links_after(*payloads, cid=b"SLNK", attr="in_links"):
        items = enc_module(dict(AMP))
        items = items[:-1] + [(cid, pl) for pl in payloads] + items[-1:]
        return getattr(load_module(items), attr)

    ints = lambda *v: b"".join(i32(x) for x in v)
    for cid, attr in ((b"SLNK", "in_links"), (b"SLnK", "in_link_slots")):
        cases = [
            ((ints(1, 2, 3),), [1, 2, 3]),
            ((ints(1, -1, 3, -1, -1),), [1, -1, 3]),
            ((ints(-1, -1),), []),
            ((ints(-1),), []),
            ((b"",), []),
            ((ints(5), b""), [5]),
            ((ints(5, -1), ints(6)), [5, 6]),
            ((ints(5, -1, 7), ints(-1, -1)), [5, -1, 7]),
            ((ints(-1, 4), ints(-1, 2, -1)), [-1, 4, -1, 2]),
            ((ints(0, 0, 0),), [0, 0, 0]),
            ((ints(-2, -1),), [-2]),
            ((ints(2**31 - 1, -(2**31)),), [2**31 - 1, -(2**31)]),
        ]
        for payloads, want in cases:
            got = links_after(*payloads, cid=cid, attr=attr)
            check(got == want and type(got) is list, "%s %r -> %r" % (cid, payloads, got))
        for bad in (b"\x01", b"\x01\x02\x03", ints(1) + b"\x00", ints(1, 2) + b"\x00\x00\x00"):
            items = enc_module(dict(AMP))
            items = items[:-1] + [(cid, bad)] + items[-1:]
            check(outcome(synth_of(items)) == "raises error", "%s ragged payload %r" % (cid, bad))


def test_cvals():
    from rv.modules.amplifier import Amplifier

    fresh = Amplifier()
    names = ["volume", "balance", "dc_offset", "inverse", "stereo_width", "absolute", "fine_volume", "gain", "bipolar_dc_offset"]
    raws = [1000, 200, 30, 1, 99, 1, 12345, 4000, 20000]
    decoded = [1000, 72, -98, True, 99, True, 12345, 4000, 3616]
    for k in range(len(raws) + 1):
        with LogCapture("rv.readers.module") as lc:
            m = load_module(enc_module(dict(AMP, cvals=raws[:k])))
        got = [getattr(m, n) for n in names]
        want = decoded[:k] + [getattr(fresh, n) for n in names[k:]]
        check(got == want, "CVAL x%d: %r" % (k, got))
        check(lc.records == [("DEBUG", "Setting %s from raw %d" % (names[i], raws[i])) for i in reversed(range(k))],
              "CVAL x%d log order: %r" % (k, lc.records))
        check(m.controllers_loaded >= set(names[:k]), "controllers_loaded")
    # more values than the type has: extras are reported (highest first) and otherwise ignored
    with LogCapture("rv.readers.module") as lc:
        m = load_module(enc_module(dict(AMP, cvals=raws + [7, -8, 9])))
    check([getattr(m, n) for n in names] == decoded, "extra CVALs ignored")
    check(
        lc.records[:3]
        == [
            ("WARNING", "Unsupported controller at index 11 with raw value 9"),
            ("WARNING", "Unsupported controller at index 10 with raw value -8"),
            ("WARNING", "Unsupported controller at index 9 with raw value 7"),
        ]
        and [lvl for lvl, _ in lc.records[3:]] == ["DEBUG"] * 9,
        "extra CVAL warnings: %r" % lc.records[:4],
    )
    # an Output has no controllers at all: every CVAL is reported
    with LogCapture("rv.readers.module") as lc:
        load(join_chunks([(b"SVOX", b"")] + enc_module(dict(name="Output", flags=0x43, cvals=[5, 6]))))
    check(
        lc.records == [
            ("WARNING", "Unsupported controller at index 1 with raw value 6"),
            ("WARNING", "Unsupported controller at index 0 with raw value 5"),
        ],
        "output CVALs: %r" % lc.records,
    )
    # out-of-range raw value on read: logged (module logger), value still stored, others unaffected
    m = load_module(enc_module(dict(AMP, cvals=[100, 70000, 5])))
    check((m.volume, m.balance, m.dc_offset) == (100, 69872, -123), "out of range CVAL: %r" % ((m.volume, m.balance, m.dc_offset),))
    check(outcome(synth_of(enc_module(dict(AMP, cvals=[100, 70000, 5])))) != "raises RangeValidationError", "lenient read by default")
    import rv.readers.reader as rr

    saved = rr.RAISE_RANGE_ERRORS_ON_READ
    rr.RAISE_RANGE_ERRORS_ON_READ = True
    try:
        res = outcome(synth_of(enc_module(dict(AMP, cvals=[100, 70000, 5]))))
        ok = outcome(synth_of(enc_module(dict(AMP, cvals=[100, 7, 5]))))
    finally:
        rr.RAISE_RANGE_ERRORS_ON_READ = saved
    check(res == "raises ControllerValueError", "strict read raises: %r" % res)
    check(not ok.startswith("raises"), "strict read of valid values: %r" % ok)


def test_cval_truncation_on_fixtures():
    agg = hashlib.sha256()
    for p in fixture_paths():
        if p.suffix != ".sunsynth":
            continue
        items = split_chunks(p.read_bytes())
        cv = [i for i, (c, _) in enumerate(items) if c == b"CVAL"]
        full = load(join_chunks(items)).module
        names = [n for n, c in full.controllers.items() if c.attached(full)]
        fresh = type(full)()
        for k in range(len(cv) + 1):
            drop = set(cv[k:])
            m = load(join_chunks([it for i, it in enumerate(items) if i not in drop])).module
            agg.update(digest(m).encode())
            for j, n in enumerate(names):
                if n.startswith("user_defined_"):
                    continue
                want = getattr(full, n) if j < k else getattr(fresh, n)
                check(getattr(m, n) == want, "%s: %d CVALs: %s = %r, want %r" % (p.name, k, n, getattr(m, n), want))
    check(agg.hexdigest()[:16] == TRUNCATION_DIGEST, "truncation digest %s" % agg.hexdigest()[:16])


def test_module_chunks_on_fixtures():
    # modules with CHNK/CHNM/CHDT/CHFF/CHFR blocks: dropping the optional rate/format chunks,
    # or inserting an unknown chunk between blocks, is handled per block
    agg = hashlib.sha256()
    for name in ("sampler.sunsynth", "metamodule.sunsynth", "analog-generator.sunsynth", "multictl.sunsynth",
                 "vorbis-player.sunsynth", "waveshaper.sunsynth", "spectravoice.sunsynth"):
        items = split_chunks((FILES / name).read_bytes())
        want = digest(load(join_chunks(items)))
        idx = [i for i, (c, _) in enumerate(items) if c in (b"CHNM", b"CHDT", b"CHFF", b"CHFR", b"CHNK", b"CMID")]
        check(len(idx) > 0, name + " has data chunks")
        for i in idx:
            edited = items[:i] + [(b"Zz00", b"\x01\x02")] + items[i:]
            check(digest(load(join_chunks(edited))) == want, "%s: unknown chunk before #%d" % (name, i))
        for i in idx:
            if items[i][0] in (b"CHFF", b"CHFR", b"CMID", b"CHNK"):
                agg.update(outcome(join_chunks(items[:i] + items[i + 1 :])).encode())
    check(agg.hexdigest()[:16] == CHUNK_DROP_DIGEST, "chunk drop digest %s" % agg.hexdigest()[:16])


def test_patterns():
    notes = [[(1, 2, 3, 4, 5), (6, 7, 8, 9, 10)], [(11, 12, 13, 14, 15), (16, 17, 18, 19, 20)]]
    base = enc_pattern(dict(notes=notes, name="pp"))
    def pat(items):
        return load(join_chunks([(b"SVOX", b"")] + items)).patterns

    from rv.pattern import Pattern

    fresh = Pattern()
    for cid, attr, pk, vals in (
        (b"PYSZ", "y_size", u32, (0, 1, 2**32 - 1)),
        (b"PFLG", "flags_PFLG", u32, (0, 3, 2**31)),
        (b"PFFF", "flags_PFFF", u32, (0, 0x1B, 2**32 - 1)),
        (b"PXXX", "x", i32, (0, -1, 2**31 - 1, -(2**31))),
        (b"PYYY", "y", i32, (0, -1, 2**31 - 1, -(2**31))),
    ):
        for v in vals:
            (p,) = pat(replace_chunk(base, cid, pk(v)))
            check(getattr(p, attr) == v, "%s=%d -> %r" % (cid, v, getattr(p, attr)))
        (p,) = pat([it for it in base if it[0] != cid])
        check(getattr(p, attr) == getattr(fresh, attr), "%s absent -> default" % cid)
        for bad in (b"", b"\x01\x02", b"\x01\x02\x03\x04\x05"):
            check(outcome(join_chunks([(b"SVOX", b"")] + replace_chunk(base, cid, bad))) == "raises error", "%s bad size" % cid)
    (p,) = pat(replace_chunk(replace_chunk(base, b"PFGC", b"\x01\x02\x03"), b"PBGC", b"\xff\xfe\xfd"))
    check((p.fg_color, p.bg_color) == ((1, 2, 3), (255, 254, 253)), "pattern colours")
    check(p.icon == bytes(range(32)), "PICO")
    check((p.tracks, p.lines, p.name) == (2, 2, "pp"), "PCHN/PLIN/PNME")
    check([[(n.note, n.vel, n.module, n.ctl, n.val) for n in line] for line in p.data] == [[tuple(n) for n in l] for l in notes], "PDTA")
    # ignored legacy chunks and unknown chunks inside the pattern section
    want = digest(pat(base)[0])
    for i in range(1, len(base)):
        for extra in ((b"PSYN", b"\x01\x02\x03\x04"), (b"PCTL", b""), (b"PAMD", b"x"), (b"????", b"zz")):
            (p,) = pat(base[:i] + [extra] + base[i:])
            check(digest(p) == want, "extra %s at %d inside pattern" % (extra[0], i))
    # clones
    cbase = enc_pattern(dict(clone_of=3, pfff=0x11, x=-7, y=9))
    for src in (0, 3, 2**32 - 1):
        p = pat(base + replace_chunk(cbase, b"PPAR", u32(src)))[1]
        check((type(p).__name__, p.source, p.flags_PFFF, p.x, p.y) == ("PatternClone", src, 0x11, -7, 9), "clone %d" % src)
    from rv.pattern import PatternClone

    cfresh = PatternClone(source=0)
    for cid, attr in ((b"PFFF", "flags_PFFF"), (b"PXXX", "x"), (b"PYYY", "y")):
        p = pat(base + [it for it in cbase if it[0] != cid])[1]
        check(getattr(p, attr) == getattr(cfresh, attr), "clone %s absent -> default" % cid)
        check(outcome(join_chunks([(b"SVOX", b"")] + replace_chunk(cbase, cid, b"\x01"))) == "raises error", "clone %s bad size" % cid)
    check(outcome(join_chunks([(b"SVOX", b"")] + replace_chunk(cbase, b"PPAR", b""))) == "raises error", "PPAR bad size")
    for i in range(1, len(cbase)):
        p = pat(cbase[:i] + [(b"PNME", b"ignored\0")] + cbase[i:])[0]
        check((p.source, p.x, p.y) == (3, -7, 9), "unknown chunk in clone section at %d" % i)


TRUNCATION_DIGEST = "9339cf7998d770b3"
CHUNK_DROP_DIGEST = "821c23f72c61cef2"

test_strings()
test_scalars()
test_links()
test_cvals()
test_cval_truncation_on_fixtures()
test_module_chunks_on_fixtures()
test_patterns()
check_ref_project(load(ref_blob()))
check_fixtures_golden()
finish()
