"""Behaviour check for Module.__init__ (controller seeding, options, common attributes)."""
import logging
import sys

import rv.api  # noqa: F401  (registers all module classes)
from rv import errors
from rv.controller import DependentRange, Range
from rv.errors import ControllerValueError
from rv.modules import MODULE_CLASSES
from rv.modules.module import Module, Visualization

logging.disable(logging.CRITICAL)
failures = []

# SpectraVoice.__init__ overwrites these from the selected harmonic after Module.__init__
MIRRORED = {("SpectraVoice", k) for k in ("h_freq_hz", "h_volume", "h_width", "h_type")}


def check(cond, msg):
    if not cond:
        failures.append(msg)


COMMON_DEFAULTS = dict(
    mod_finetune=0,
    mod_relative_note=0,
    x=512,
    y=512,
    layer=0,
    mod_scale=256,
    color=(255, 255, 255),
    midi_in_always=False,
    midi_in_channel=0,
    midi_out_name=None,
    midi_out_channel=0,
    midi_out_bank=-1,
    midi_out_program=-1,
    in_links=[],
    in_link_slots=[],
    out_links=[],
    out_link_slots=[],
    index=None,
    parent=None,
)

classes = sorted(set(MODULE_CLASSES.values()), key=lambda c: c.__name__)
check(len(classes) >= 40, "too few module classes: %d" % len(classes))
n_ctl = 0
for cls in classes:
    m = cls()
    # 1. every controller reports its declared default, in dependency order
    indep = [k for k, c in cls.controllers.items() if not isinstance(c.value_type, DependentRange)]
    dep = [k for k, c in cls.controllers.items() if isinstance(c.value_type, DependentRange)]
    check(list(m.controller_values) == indep + dep, f"{cls.__name__}: seeding order")
    check(m.controllers_loaded == set(cls.controllers), f"{cls.__name__}: controllers_loaded")
    for k, c in cls.controllers.items():
        n_ctl += 1
        check(getattr(m, k) == c.default, f"{cls.__name__}.{k}: default {getattr(m, k)!r} != {c.default!r}")
        check(m.controller_values[k] == c.default, f"{cls.__name__}.{k}: stored default")
    # 2. common attributes
    for attr, expected in COMMON_DEFAULTS.items():
        if attr in cls.controllers:
            continue
        check(getattr(m, attr) == expected, f"{cls.__name__}.{attr} = {getattr(m, attr)!r}")
    fixed_name = cls.__name__ == "Output"  # Output's name is a read-only property
    check(m.name == ("Output" if fixed_name else cls.name), f"{cls.__name__}: name default")
    check(isinstance(m.visualization, Visualization) and int(m.visualization) == 0x000C0101, f"{cls.__name__}: vis")
    check(m.in_links is not m.in_link_slots and m.out_links is not m.out_link_slots, "distinct link lists")
    check(m.in_links is not m.out_links, "distinct link lists 2")
    for k, o in cls.options.items():
        check(k in m.option_values, f"{cls.__name__}: option {k} not set")
    # 3. options take defaults unless given
    m2 = cls()
    check(m2.option_values == m.option_values, f"{cls.__name__}: option defaults stable")
    # 4. kwargs for every fixed-range controller: min, max accepted; min-1, max+1 rejected
    for k, c in cls.controllers.items():
        if type(c.value_type) is not Range:
            continue
        t = c.instance_value_type(m)  # MetaModule's user-defined slots widen the declared range
        if type(t) is not Range:
            continue
        for v in (t.min, t.max, (t.min + t.max) // 2):
            mm = cls(**{k: v})
            if (cls.__name__, k) in MIRRORED:
                check(getattr(mm, k) == c.default, f"{cls.__name__}({k}={v}) mirrored harmonic value")
                continue
            check(getattr(mm, k) == v, f"{cls.__name__}({k}={v}) reads {getattr(mm, k)!r}")
            for k2, c2 in cls.controllers.items():
                if (cls.__name__, k2) in MIRRORED:
                    continue
                if k2 != k and not isinstance(c2.value_type, DependentRange):
                    check(getattr(mm, k2) == c2.default, f"{cls.__name__}({k}={v}) disturbed {k2}")
        for v in (t.min - 1, t.max + 1):
            try:
                cls(**{k: v})
            except ControllerValueError:
                pass
            else:
                check(False, f"{cls.__name__}({k}={v}) was not rejected")
            try:
                with errors.override_raise_controller_value_errors(False):
                    mm = cls(**{k: v})
            except IndexError:
                # SpectraVoice indexes its harmonics with the (invalid) value
                check(cls.__name__ == "SpectraVoice" and k == "harmonic", f"IndexError {cls.__name__}.{k}")
                continue
            if (cls.__name__, k) in MIRRORED:
                continue
            check(getattr(mm, k) == v, f"lenient {cls.__name__}({k}={v}) reads {getattr(mm, k)!r}")
    # 5. common attribute kwargs
    kw = dict(
        index=7, finetune=-3, relative_note=5, x=10, y=20, layer=3, color=(1, 2, 3),
        midi_in_always=True, midi_in_channel=4, midi_out_name="dev", midi_out_channel=2,
        midi_out_bank=9, midi_out_program=11, name="zz", visualization=0x01020304,
    )
    kw = {k: v for k, v in kw.items() if k not in cls.controllers and k not in cls.options}
    mm = cls(**kw)
    expect = dict(kw)
    for kwname in ("finetune", "relative_note"):
        if kwname in expect:
            expect["mod_" + kwname] = expect.pop(kwname)
    vis = expect.pop("visualization")
    if fixed_name:
        expect["name"] = "Output"
    for attr, v in expect.items():
        check(getattr(mm, attr) == v, f"{cls.__name__}({attr}) kw -> {getattr(mm, attr)!r}")
    check(int(mm.visualization) == vis and mm._visualization == vis, f"{cls.__name__}: vis kw")
    check(cls(name=None).name == m.name, f"{cls.__name__}: name=None")
    check(cls(name="").name == ("Output" if fixed_name else ""), f"{cls.__name__}: name=''")
    # 6. scale / mod_scale
    if "scale" in cls.controllers:
        mm = cls(scale=150, mod_scale=300)
        check(mm.scale == 150 and mm.mod_scale == 300, f"{cls.__name__}: scale controller vs mod_scale")
        mm = cls(scale=150)
        check(mm.scale == 150 and mm.mod_scale == 256, f"{cls.__name__}: scale controller only")
        check(cls().scale == cls.controllers["scale"].default, "scale ctl default")
    else:
        check(cls(scale=300).mod_scale == 300, f"{cls.__name__}: scale kw")
        check(cls(scale=300).scale == 300, f"{cls.__name__}: scale property")
        check(cls(mod_scale=301).mod_scale == 301, f"{cls.__name__}: mod_scale kw")
        check(cls(scale=300, mod_scale=301).mod_scale == 300, f"{cls.__name__}: scale wins over mod_scale")
        check(cls(scale=None).mod_scale is None, f"{cls.__name__}: scale=None passes through")

check(n_ctl >= 500, "too few controllers visited: %d" % n_ctl)

# Enumeration / boolean kwargs, by value and by name; invalid names
from rv.modules.smooth import Smooth
from rv.modules.delay import Delay

s = Smooth(mode="lp_filter", channels=1, fall_eq_rise=1)
check(s.mode is Smooth.Mode.lp_filter, "enum by name")
check(s.channels is Smooth.Channels.mono, "enum by value")
check(s.fall_eq_rise is True, "bool coercion")
for bad in (dict(mode="nope"), dict(mode=17)):
    try:
        Smooth(**bad)
    except (KeyError, ValueError):
        pass
    else:
        check(False, f"Smooth({bad}) accepted")

# Dependent range is seeded after the controller it depends on, whatever kwargs order
U = Delay.DelayUnit
d = Delay(delay_l=3000, delay_r=4000, delay_unit=U.ms)
check((d.delay_l, d.delay_r, d.delay_unit) == (3000, 4000, U.ms), "Delay ms kwargs")
check(list(d.controller_values)[-2:] == ["delay_l", "delay_r"], "Delay dependent last")
d = Delay(delay_unit=U.hz, delay_l=8192)
check(d.delay_l == 8192 and d.delay_r == Delay.controllers["delay_r"].default, "Delay hz kwargs")
d = Delay(delay_l=100000)  # WarnOnlyRange: only logs
check(d.delay_l == 100000, "Delay warn-only range")

# Options from kwargs
from rv.modules.multisynth import MultiSynth
from rv.modules.sound2ctl import Sound2Ctl

ms = MultiSynth(use_static_note_C5=True, trigger=True)
check(ms.use_static_note_C5 is True and ms.trigger is True, "MultiSynth option kwargs")
check(MultiSynth().use_static_note_C5 is False, "MultiSynth option default")
ms = MultiSynth(round_note_x=True, round_pitch_y=True)  # mutually exclusive: later one wins
check((ms.round_note_x, ms.round_pitch_y) == (False, True), "exclusive options order")
check(list(ms.option_values) == sorted(ms.option_values), "options seeded in sorted-name order")
from rv.modules.analoggenerator import AnalogGenerator

check(AnalogGenerator().option_values["smooth_frequency_change"] is False, "inverted option default")
check(AnalogGenerator(smooth_frequency_change=False).option_values["smooth_frequency_change"] is True, "inverted kw")
s2c = Sound2Ctl(record_values=True)
check(s2c.record_values is True, "Sound2Ctl option kwarg")

# Base Module instance
b = Module(index=2, x=1)
check((b.index, b.x, b.y, b.name, b.controller_values, b.option_values) == (2, 1, 512, "", {}, {}), "base Module")

# unknown kwargs are ignored
check(Smooth(bogus=1).rise == 5000, "unknown kw ignored")

if failures:
    print("FAIL")
    for f in failures[:40]:
        print("  ", f)
    sys.exit(1)
print("PASS")
