"""Behaviour check for the writer side of MetaModules (C15, refactoring 3).

Exercises Synth.chunks, Project.chunks (module section: links, CVAL, CMID,
CHNK) and MetaModule.specialized_iff_chunks: the exact chunk sequence that is
generated for MetaModules with 0..96 user defined controllers, labels at
arbitrary positions, nested MetaModules, empty module slots, link/slot
variants, plus byte-exact round trips.

Run from the repository root:
    PYTHONPATH=<root>/src/python python check.py
"""
import hashlib
import io
import struct
import sys
from pathlib import Path
from struct import pack, unpack

from rv.api import Project, Synth, m, read_sunvox_file
from rv.errors import EmptySynthError
from rv.lib.iff import chunks as iff_chunks
from rv.modules.metamodule import MetaModule

FAILURES = []


def check(cond, what):
    if not cond:
        FAILURES.append(what)
        print("FAIL:", what[:300])


TARGETS = [("gen", 0), ("gen", 1), ("amp", 1), ("amp", 3), ("gen", 13), ("amp", 2)]


def build_metamodule(count, depth=0, labels=None):
    inner = Project()
    inner.name = f"inner-{count}-{depth}"
    gen = inner.new_module(m.AnalogGenerator)
    amp = inner.new_module(m.Amplifier)
    gen >> amp >> inner.output
    if depth:
        inner.attach_module(build_metamodule(max(count - 1, 0), depth - 1))
    mm = MetaModule(project=inner, name=f"mm {count}/{depth}")
    mm.user_defined_controllers = count
    mods = {"gen": gen, "amp": amp}
    for i in range(count):
        modname, ctl = TARGETS[i % len(TARGETS)]
        mm.mappings.values[i].module = mods[modname].index
        mm.mappings.values[i].controller = ctl
    if labels is None:
        labels = {i: f"L{i} ø" for i in range(count) if i % 5 != 3}
    for i, text in labels.items():
        mm.user_defined[i].label = text
    mm.update_user_defined_controllers()
    for i in range(count):
        t = mm.user_defined[i].value_type
        if hasattr(t, "min") and hasattr(t, "max"):
            value = t.min + (i * 13 + 2) % (t.max - t.min + 1)
            mm.controller_values[f"user_defined_{i + 1}"] = value
    return mm


def specialized(chunk_list):
    """Split a CHNM/CHDT(/CHFF/CHFR) sequence into {chnm: chdt} (ordered)."""
    out = []
    for name, data in chunk_list:
        if name == b"CHNM":
            out.append([unpack("<I", data)[0], None])
        elif name == b"CHDT":
            out[-1][1] = data
    return out


# --------------------------------------------------------------------------
def specialized_chunk_checks():
    for count in (0, 1, 2, 6, 40, 96):
        mm = build_metamodule(count)
        # labels on detached slots must not be written
        if count < 96:
            mm.user_defined[count].label = "not exposed"
            mm.user_defined[95].label = "last, not exposed"
        raw = list(mm.specialized_iff_chunks())
        check(all(len(x) == 2 for x in raw), f"pairs only ({count})")
        names = [x[0] for x in raw]
        check(set(names) <= {b"CHNM", b"CHDT"}, f"chunk kinds ({count})")
        check(names[0::2] == [b"CHNM"] * (len(raw) // 2), f"CHNM/CHDT pairs ({count})")
        parts = specialized(raw)
        numbers = [p[0] for p in parts]
        labelled = [i for i in range(count) if i % 5 != 3]
        check(
            numbers == [0, 1, 2] + [8 + i for i in labelled],
            f"chunk numbers ({count}): {numbers}",
        )
        check(parts[0][1] == mm.project.read(), f"embedded project bytes ({count})")
        check(parts[0][1][:4] == b"SVOX", f"embedded project magic ({count})")
        wanted = b"".join(
            pack("<HH", x.module, x.controller) for x in mm.mappings.values
        )
        check(parts[1][1] == wanted and len(wanted) == 96 * 4, f"mappings ({count})")
        check(parts[2][1][0] == count, f"option byte 0 is the count ({count})")
        for (chnm, data), i in zip(parts[3:], labelled):
            check(data == f"L{i} ø".encode("utf-8") + b"\0", f"label {i} ({count})")
    # explicit empty-string label is written, None is not
    mm = build_metamodule(3, labels={0: "", 2: "x" * 300})
    parts = specialized(list(mm.specialized_iff_chunks()))
    check([p[0] for p in parts] == [0, 1, 2, 8, 10], "empty label written")
    check(parts[3][1] == b"\0" and parts[4][1] == b"x" * 300 + b"\0", "label data")
    # generator is lazy: project is serialized when CHDT is requested
    mm = build_metamodule(1)
    gen = mm.specialized_iff_chunks()
    first = next(gen)
    check(first == (b"CHNM", pack("<I", 0)), "first chunk")
    mm.project.name = "renamed late"
    second = next(gen)
    check(b"renamed late\0" in second[1], "project read lazily")


def synth_chunk_checks():
    try:
        list(Synth().chunks())
    except EmptySynthError:
        pass
    else:
        check(False, "empty synth must raise EmptySynthError")

    for count in (0, 1, 2, 5, 31, 96):
        mm = build_metamodule(count, depth=1)
        mm.volume, mm.bpm, mm.tpl = 300, 140, 7
        mm.play_patterns = mm.PlayPatterns.on_repeat
        # stale attach state: Synth.chunks has to recompute it from the option
        for c in mm.user_defined:
            c.detach(mm)
        mm.user_defined[95].attach(mm)
        seq = list(Synth(mm).chunks())
        names = [x[0] for x in seq]
        check(seq[0] == (b"SSYN", b""), f"magic ({count})")
        check(seq[1] == (b"VERS", bytes([1, 2, 1, 2])), f"version ({count})")
        check(seq[-1] == (b"SEND", b""), f"SEND last ({count})")
        check(b"SXXX" not in names and b"SVPR" not in names, f"stand-alone ({count})")
        cvals = [unpack("<i", d)[0] for n, d in seq if n == b"CVAL"]
        wanted = [300, 1, 1, 140, 7]
        wanted += [mm.get_raw(f"user_defined_{i + 1}") for i in range(count)]
        check(cvals == wanted, f"CVALs ({count}): {cvals[:8]}")
        first_cval = names.index(b"CVAL")
        n = 5 + count
        check(names[first_cval : first_cval + n] == [b"CVAL"] * n, f"CVAL run ({count})")
        check(names[first_cval + n] == b"CMID", f"CMID follows ({count})")
        check(len(seq[first_cval + n][1]) == 8 * n, f"CMID size ({count})")
        check(names[first_cval + n + 1] == b"CHNK", f"CHNK follows ({count})")
        check(seq[first_cval + n + 1][1] == pack("<I", 104), f"CHNK value ({count})")
        check(names.count(b"CMID") == 1 and names.count(b"CHNK") == 1, f"once ({count})")
        tail = seq[first_cval + n + 2 : -1]
        check(tail == list(mm.specialized_iff_chunks()), f"specialized tail ({count})")
        check(
            [c.attached(mm) for c in mm.user_defined]
            == [True] * count + [False] * (96 - count),
            f"attach state recomputed ({count})",
        )
    # MIDI maps are written in controller order
    amp = m.Amplifier(volume=5)
    map_a = pack("<BBBBHBB", 3, 2, 1, 0, 74, 0, 0xC8)
    map_b = pack("<BBBBHBB", 8, 15, 5, 0, 0, 0, 0xC8)
    amp.controller_midi_maps["volume"].cmid_data = map_a
    amp.controller_midi_maps["gain"].cmid_data = map_b
    seq = list(Synth(amp).chunks())
    cmid = [d for n, d in seq if n == b"CMID"][0]
    keys = list(amp.controllers)
    check(cmid[:8] == map_a, "volume midi map first")
    pos = keys.index("gain") * 8
    check(cmid[pos : pos + 8] == map_b, "gain midi map in place")
    unset = pack("<BBBBHBB", 0, 0, 0, 0, 0, 0, 0xFF)
    check(cmid[8:16] == unset, "unmapped controller written as unset")
    check(len(cmid) == 8 * len(keys), "CMID length")
    check([n for n, _ in seq].count(b"CVAL") == len(keys), "amp CVAL count")
    # modules without specialized chunks / options still end in (None, None)
    for cls in (m.Amplifier, m.Generator, m.Sampler, m.MultiSynth, m.Output):
        mod = cls()
        seq = list(Synth(mod).chunks())
        names = [x[0] for x in seq]
        attached = [k for k, c in mod.controllers.items() if c.attached(mod)]
        check(names.count(b"CVAL") == len(attached), f"{cls.__name__} CVALs")
        check(names.count(b"CMID") == (1 if attached else 0), f"{cls.__name__} CMID")
        check(names.count(b"CHNK") == (1 if mod.chnk else 0), f"{cls.__name__} CHNK")
        check(seq[-1] == (b"SEND", b""), f"{cls.__name__} SEND")
        if cls is m.Output:
            continue  # written without STYP, cannot be read back stand-alone
        data = Synth(mod).read()
        check(read_sunvox_file(io.BytesIO(data)).read() == data, f"{cls.__name__} rt")


def module_section(project):
    """The chunks of Project.chunks() from the first module on, split per slot."""
    seq = list(project.chunks())
    names = [x[0] for x in seq]
    start = names.index(b"SFFF")
    slots, current = [], []
    # patterns come before modules; PEND never appears after the first SFFF
    for item in seq[start:]:
        if item[0] == b"SEND":
            slots.append(current)
            current = []
        else:
            current.append(item)
    check(current == [], "module section ends with SEND")
    return slots


def project_chunk_checks():
    p = Project()
    gens = [p.new_module(m.Generator, name=f"g{i}") for i in range(3)]
    amp = p.new_module(m.Amplifier)
    mm = p.attach_module(build_metamodule(4, depth=1))
    p.connect(gens, amp)
    amp >> p.output
    mm >> p.output
    slots = module_section(p)
    check(len(slots) == len(p.modules) == 6, "one slot per module")
    # output: links from amp and mm, no controllers
    out_names = [x[0] for x in slots[0]]
    check(b"STYP" not in out_names, "output has no STYP")
    check(b"CVAL" not in out_names and b"CMID" not in out_names, "output: no CVAL/CMID")
    check(b"CHNK" not in out_names, "output: no CHNK")
    links = dict(slots[0])[b"SLNK"]
    check(unpack("<2i", links) == (amp.index, mm.index), "output links")
    check(b"SLnK" not in out_names, "zero slots -> no SLnK")
    # generators: no incoming links -> empty SLNK
    for i in (1, 2, 3):
        d = dict(slots[i])
        check(d[b"SLNK"] == b"", f"generator {i} empty SLNK")
        check(b"SLnK" not in d, f"generator {i} no SLnK")
    # amplifier: three incoming links
    d = dict(slots[4])
    check(unpack("<3i", d[b"SLNK"]) == (1, 2, 3), "amp links")
    check(b"SLnK" not in d, "amp slots all zero")
    names = [x[0] for x in slots[4]]
    check(names.index(b"SLNK") < names.index(b"CVAL") < names.index(b"CMID"), "order")
    check(b"SXXX" in names and b"SVPR" in names, "in-project position chunks")
    # metamodule slot
    names = [x[0] for x in slots[5]]
    check(names.count(b"CVAL") == 9, "metamodule CVALs in project")
    i = names.index(b"CHNK")
    check(slots[5][i][1] == pack("<I", 104), "metamodule CHNK")
    check(slots[5][i + 1 :] == list(mm.specialized_iff_chunks()), "specialized tail")
    check(names[i - 1] == b"CMID" and len(slots[5][i - 1][1]) == 72, "CMID before CHNK")

    # non-trivial slots: outputs of the generators feed amp on slots 0,1,2 of
    # *their* out lists; connect one generator to two targets for a slot of 1
    p2 = Project()
    g = p2.new_module(m.Generator)
    a1 = p2.new_module(m.Amplifier)
    a2 = p2.new_module(m.Amplifier)
    g >> a1
    g >> a2
    a1 >> p2.output
    a2 >> p2.output
    slots = module_section(p2)
    d1, d2 = dict(slots[a1.index]), dict(slots[a2.index])
    check(b"SLnK" not in d1, "a1: slot 0 only")
    check(d2.get(b"SLnK") == pack("<i", 1), "a2: slot 1 written")
    check(d2[b"SLNK"] == pack("<i", g.index), "a2 link")
    names = [x[0] for x in slots[a2.index]]
    check(names.index(b"SLnK") == names.index(b"SLNK") + 1, "SLnK right after SLNK")
    # disconnect leaves -1 placeholders which are written as such
    g >> ~a1
    slots = module_section(p2)
    d1 = dict(slots[a1.index])
    check(d1[b"SLNK"] == pack("<i", -1), "disconnected link written as -1")
    check(b"SLnK" not in d1, "-1 slots do not force SLnK")
    a2.in_link_slots[0] = 5
    a2.in_links.append(-1)
    a2.in_link_slots.append(-1)
    d2 = dict(module_section(p2)[a2.index])
    check(d2[b"SLNK"] == pack("<2i", g.index, -1), "two links")
    check(d2[b"SLnK"] == pack("<2i", 5, -1), "two slots")
    # inconsistent list lengths are an error raised before SLNK is produced
    a2.in_link_slots.append(0)
    produced = []
    try:
        for item in p2.chunks():
            produced.append(item)
    except struct.error:
        own = produced[len(produced) - produced[::-1].index((b"SEND", b"")) :]
        check(b"SLNK" not in [x[0] for x in own], "error before SLNK is yielded")
    else:
        check(False, "mismatched slot list must raise struct.error")
    a2.in_link_slots.pop()

    # empty module slots produce a bare SEND
    p3 = Project()
    p3.attach_module(None)
    x = p3.attach_module(m.Amplifier(), loading=True)
    p3.attach_module(None, loading=True)
    slots = module_section(p3)
    check(len(slots) == 4, "slots incl. empty: {}".format(len(slots)))
    check(x.index == 2 and slots[1] == [] and slots[3] == [], "empty slots bare")
    check(slots[2][0][0] == b"SFFF", "module after an empty slot")
    loaded = read_sunvox_file(io.BytesIO(p3.read()))
    check(loaded.modules[1] is None, "inner empty slot survives")
    check(type(loaded.modules[2]) is m.Amplifier, "module index kept")
    data = loaded.read()
    check(read_sunvox_file(io.BytesIO(data)).read() == data, "empty slot byte stable")

    # patterns section is unaffected and precedes modules
    p4 = Project()
    from rv.api import Pattern

    p4.attach_pattern(Pattern(lines=4, tracks=2))
    p4.patterns.append(None)
    names = [x[0] for x in p4.chunks()]
    check(names.count(b"PEND") == 2, "PEND per pattern slot")
    check(max(i for i, n in enumerate(names) if n == b"PEND") < names.index(b"SFFF"), "patterns first")


def roundtrip_digest():
    digest = hashlib.sha256()

    def snap(mm):
        n = mm.user_defined_controllers
        return (
            n,
            [c.label for c in mm.user_defined],
            [(x.module, x.controller) for x in mm.mappings.values],
            [repr(getattr(mm, f"user_defined_{i + 1}")) for i in range(n)],
            [snap(x) for x in mm.project.modules if isinstance(x, MetaModule)],
        )

    for count in (0, 1, 2, 3, 8, 64, 96):
        for depth in (0, 1, 2):
            if count > 8 and depth == 2:
                continue
            tag = f"count={count} depth={depth}"
            mm = build_metamodule(count, depth)
            before = snap(mm)
            data = Synth(mm).read()
            digest.update(data)
            loaded = read_sunvox_file(io.BytesIO(data))
            check(snap(loaded.module) == before, f"stand-alone ({tag})")
            check(loaded.read() == data, f"stand-alone byte stable ({tag})")
            # generic chunk walk agrees with the generator
            walked = list(iff_chunks(io.BytesIO(data)))
            produced = [
                (n.ljust(4), d) for n, d in Synth(mm).chunks() if n is not None
            ]
            check(walked == produced, f"file equals chunk sequence ({tag})")
            outer = Project()
            outer.attach_module(mm)
            amp = outer.new_module(m.Amplifier)
            mm >> amp >> outer.output
            pdata = outer.read()
            digest.update(pdata)
            reloaded = read_sunvox_file(io.BytesIO(pdata))
            check(snap(reloaded.modules[1]) == before, f"in-project ({tag})")
            check(reloaded.read() == pdata, f"in-project byte stable ({tag})")
    root = Path.cwd() / "tests" / "files"
    paths = sorted(root.glob("*.sunsynth")) + sorted(root.glob("*.sunvox"))
    check(len(paths) > 40, "fixtures found (run from the repository root)")
    for path in paths:
        digest.update(read_sunvox_file(str(path)).read())
    return digest.hexdigest()


EXPECTED_DIGEST = "7a4be7623942579fc10366c612579310976dc9e0d0bda4e98b45993787b6fe24"


def main():
    specialized_chunk_checks()
    synth_chunk_checks()
    project_chunk_checks()
    digest = roundtrip_digest()
    if "--print-digests" in sys.argv:
        print(digest)
    check(digest == EXPECTED_DIGEST, f"digest {digest}")
    if FAILURES:
        print(f"{len(FAILURES)} check(s) failed")
        sys.exit(1)
    print("PASS")


if __name__ == "__main__":
    main()
