"""Behaviour check for property C15 (MetaModule embedded projects / user controllers).

Runs against whatever ``rv`` is on PYTHONPATH.  Prints PASS and exits 0 when the
observable behaviour matches the expectations recorded from the reference tree.
"""
import hashlib
import logging
import struct
import sys
from io import BytesIO
from pathlib import Path

import rv.errors
from rv.api import Project, Synth, m, read_sunvox_file
from rv.errors import EmptySynthError
from rv.lib.iff import chunks as iff_chunks
from rv.modules import MODULE_CLASSES, Chunk
from rv.modules.metamodule import (
    MAX_USER_DEFINED_CONTROLLERS,
    MetaModule,
    UserDefined,
    UserDefinedProxy,
)
from rv.readers.module import ModuleReader

FAILURES = []


def check(cond, msg):
    if not cond:
        FAILURES.append(msg)


def raises(exc_type, fn, *args):
    try:
        fn(*args)
    except exc_type as e:
        return type(e) is exc_type or isinstance(e, exc_type)
    except BaseException as e:  # noqa
        FAILURES.append(f"expected {exc_type.__name__}, got {type(e).__name__}: {e}")
        return False
    return False


def plain(v):
    """Reduce a controller value to something with a stable repr."""
    if hasattr(v, "name") and hasattr(v, "value"):
        return f"{type(v).__name__}.{v.name}"
    return v


def write(container):
    f = BytesIO()
    container.write_to(f)
    return f.getvalue()


def read(data):
    return read_sunvox_file(BytesIO(data))


def iff(data):
    return list(iff_chunks(BytesIO(data)))


def raw_file(pairs):
    out = BytesIO()
    for name, data in pairs:
        out.write(name)
        out.write(struct.pack("<I", len(data)))
        out.write(data)
    return out.getvalue()


# ---------------------------------------------------------------------------
# builders
# ---------------------------------------------------------------------------

TARGETS = [
    # (module index, controller index) in the embedded project built by leaf()
    (1, 0),  # Generator.volume           Range 0..256
    (1, 1),  # Generator.waveform         enum
    (2, 2),  # Amplifier.dc_offset        Range -128..128
    (2, 3),  # Amplifier.inverse          bool
    (3, 4),  # Lfo.waveform               enum
    (1, 4),  # Generator.release          Range 0..512
    (2, 1),  # Amplifier.balance          Range -128..128
    (3, 0),  # Lfo.volume                 Range 0..512
    (3, 3),  # Lfo.freq                   DependentRange
    (1, 7),  # Generator.sustain          bool
]

# targets inside a project built by wrap(): [Output, Generator, MetaModule]
WRAP_TARGETS = [
    (1, 0),  # Generator.volume
    (1, 1),  # Generator.waveform
    (2, 0),  # MetaModule.volume          Range 0..1024
    (2, 2),  # MetaModule.play_patterns   enum
    (2, 5),  # MetaModule.user_defined_1  (proxy of the nested module)
    (2, 6),  # MetaModule.user_defined_2
    (2, 7),  # MetaModule.user_defined_3
    (2, 4),  # MetaModule.tpl
]


def attempt(fn, *args):
    """Return the call result, or the exception class name if it raises."""
    try:
        return plain(fn(*args))
    except Exception as e:  # noqa
        return f"!{type(e).__name__}"


def leaf(tag=0):
    p = Project()
    p.name = f"leaf{tag}"
    g = p.new_module(m.Generator, volume=100 + tag, waveform="saw", release=7)
    a = p.new_module(m.Amplifier, dc_offset=-17 + tag, balance=33, inverse=True)
    lfo = p.new_module(m.Lfo, waveform="square", volume=77)
    p.connect(g, a)
    p.connect(a, p.output)
    p.connect(lfo, p.output)
    return p


def wrap(inner, count, labels=None, mappings=None, name="MM"):
    """Return a project holding a MetaModule around ``inner``."""
    p = Project()
    p.name = f"wrap-{name}"
    p.new_module(m.Generator, volume=3)
    mm = m.MetaModule(project=inner, name=name, bpm=140, tpl=3, play_patterns=2)
    p.attach_module(mm)
    p.connect(mm, p.output)
    mm.user_defined_controllers = count
    mappings = TARGETS if mappings is None else mappings
    for i, t in enumerate(mappings):
        mm.mappings.values[i] = mm.Mapping(t)
    for i, label in (labels or {}).items():
        mm.user_defined[i].label = label
    mm.update_user_defined_controllers()
    return p, mm


def describe_mm(mm, depth=0):
    d = {
        "name": mm.name,
        "count": mm.user_defined_controllers,
        "attached": [c.attached(mm) for c in mm.user_defined].count(True),
        "attached_prefix": all(
            c.attached(mm) == (i < mm.user_defined_controllers)
            for i, c in enumerate(mm.user_defined)
        ),
        "mappings": [(x.module, x.controller) for x in mm.mappings.values],
        "labels": [c.label for c in mm.user_defined],
        "fixed": [
            plain(v)
            for v in (mm.volume, mm.input_module, mm.play_patterns, mm.bpm, mm.tpl)
        ],
        "values": [
            plain(getattr(mm, f"user_defined_{i + 1}"))
            for i in range(MAX_USER_DEFINED_CONTROLLERS)
        ],
        "types": [repr(c.value_type) for c in mm.user_defined[:12]],
        "defaults": [plain(c.default) for c in mm.user_defined[:12]],
        "aliases": mm.user_defined_aliases,
        "project": describe_project(mm.project, depth + 1),
        "project_backref": mm.project.metamodule is mm,
    }
    return d


def describe_project(p, depth=0):
    mods = []
    for mod in p.modules:
        if mod is None:
            mods.append(None)
            continue
        entry = {
            "cls": type(mod).__name__,
            "name": mod.name,
            "index": mod.index,
            "in": list(mod.in_links),
            "ctl": {k: plain(v) for k, v in mod.controller_values.items()}
            if not isinstance(mod, MetaModule)
            else None,
        }
        if isinstance(mod, MetaModule):
            entry["mm"] = describe_mm(mod, depth)
        mods.append(entry)
    return {"name": p.name, "bpm": p.initial_bpm, "mods": mods}


# ---------------------------------------------------------------------------
# scenarios
# ---------------------------------------------------------------------------

SNAPSHOT = []


def snap(tag, value):
    SNAPSHOT.append((tag, value))


def scenario_nesting():
    counts = (3, 5, 8)
    for depth in (1, 2, 3):
        inner = leaf(0)
        mm = None
        for level in range(depth):
            count = counts[level]
            labels = {0: f"L{level} vol", count - 1: "last one", count: "hidden"}
            targets = TARGETS if level == 0 else WRAP_TARGETS
            p, mm = wrap(inner, count, labels, targets, name=f"mm{level}")
            # give stored values that differ from the targets' defaults
            mm.user_defined_1 = 40 + level
            if level == 0:
                mm.user_defined_3 = 100  # pushed to dc_offset as 100 - 128 = -28
            else:
                mm.user_defined_3 = 500 + level
                mm.user_defined_4 = "on_no_repeat"
                mm.user_defined_5 = 33
            inner = p
        top = inner
        data = write(top)
        again = read(data)
        data2 = write(again)
        check(data == data2, f"nesting depth {depth}: rewrite not byte-identical")
        check(
            describe_project(again) == describe_project(read(data2)),
            f"nesting depth {depth}: structure changed on 2nd round trip",
        )
        snap(f"nest{depth}-sha", hashlib.sha256(data).hexdigest())
        snap(f"nest{depth}-desc", describe_project(again))
        # dig down and verify counts at each level
        cur = again
        for level in reversed(range(depth)):
            mm2 = cur.modules[2]
            check(isinstance(mm2, MetaModule), f"depth {depth} level {level}: no MM")
            count = counts[level]
            check(mm2.user_defined_controllers == count, "count lost")
            check(mm2.user_defined[0].label == f"L{level} vol", "label 0 lost")
            check(mm2.user_defined[count - 1].label == "last one", "label n-1 lost")
            check(mm2.user_defined[count].label is None, "hidden label was written")
            # an outer level maps its 5th controller onto this level's 1st one
            exp1 = 40 + level if level == depth - 1 else 33
            check(mm2.user_defined_1 == exp1, f"value 1 lost at level {level}")
            if level == 0:
                check(mm2.user_defined_3 == 100, "negative-range value")
                check(mm2.project.modules[2].dc_offset == -28, "leaf amplifier lost")
            else:
                check(mm2.user_defined_3 == 500 + level, "nested MM volume value")
                check(mm2.project.modules[2].volume == 500 + level, "nested MM volume")
                check(plain(mm2.user_defined_4) == "PlayPatterns.on_no_repeat", "enum")
                check(mm2.user_defined_5 == 33, "value mapped onto nested user ctl")
            cur = mm2.project
        check(cur.name == "leaf0", "innermost project lost")

        # stand-alone context
        mm_top = top.modules[2]
        sdata = write(Synth(mm_top))
        synth = read(sdata)
        check(isinstance(synth, Synth), "synth expected")
        check(write(synth) == sdata, f"synth depth {depth}: rewrite differs")
        check(
            describe_mm(synth.module) == describe_mm(read(write(synth)).module),
            "synth structure changes",
        )
        snap(f"synth{depth}-sha", hashlib.sha256(sdata).hexdigest())
        clone = mm_top.clone()
        check(describe_mm(clone) == describe_mm(synth.module), "clone != synth")


def scenario_counts():
    for count in (0, 1, 2, 3, 7, 48, 95, 96):
        labels = {i: f"c{i}" for i in range(0, 96, 5)}
        mappings = [TARGETS[i % len(TARGETS)] for i in range(96)]
        p, mm = wrap(leaf(count), count, labels, mappings, name=f"n{count}")
        for i in range(0, count, 3):
            # index i maps to TARGETS[i % 8]; write a valid value for each kind
            kind = i % len(TARGETS)
            val = {0: 11, 1: "noise", 2: 100, 3: True, 4: "sin2", 5: 9, 6: 30, 7: 5,
                   8: 10, 9: False}[kind]
            setattr(mm, f"user_defined_{i + 1}", val)
        data = write(p)
        cvals = _module_chunks(data, 2, b"CVAL")
        check(len(cvals) == 5 + count, f"count {count}: {len(cvals)} CVALs written")
        names = _module_chnms(data, 2)
        expect = [0, 1, 2] + [8 + i for i in range(0, 96, 5) if i < count]
        check(names == expect, f"count {count}: chunk numbers {names}")
        q = read(data)
        mm2 = q.modules[2]
        check(mm2.user_defined_controllers == count, f"count {count} not restored")
        check(describe_mm(mm2)["attached"] == count, f"count {count}: attach state")
        check(describe_mm(mm2)["attached_prefix"], f"count {count}: not a prefix")
        check(
            [c.label for c in mm2.user_defined]
            == [f"c{i}" if i % 5 == 0 and i < count else None for i in range(96)],
            f"count {count}: labels",
        )
        check(
            [(x.module, x.controller) for x in mm2.mappings.values] == mappings,
            f"count {count}: mappings",
        )
        check(write(q) == data, f"count {count}: rewrite differs")
        sdata = write(Synth(mm))
        check(write(read(sdata)) == sdata, f"count {count}: synth rewrite differs")
        check(
            len([1 for n, _ in iff(sdata) if n == b"CVAL"]) == 5 + count,
            f"count {count}: synth CVALs",
        )
        snap(f"count{count}", hashlib.sha256(data + sdata).hexdigest())
        snap(f"count{count}-vals", describe_mm(mm2)["values"][: count + 2])
        # changing the count afterwards re-attaches exactly the first n
        for new in (96, 0, 10, -4, 500):
            mm2.user_defined_controllers = new
            eff = max(0, min(96, new))
            check(mm2.user_defined_controllers == eff, "option clamp")
            check(
                [c.attached(mm2) for c in mm2.user_defined]
                == [i < eff for i in range(96)],
                f"reattach {new}",
            )


def _module_chunks(data, index, wanted):
    """Return payloads of chunks named ``wanted`` belonging to module ``index``."""
    out, cur = [], -1
    started = False
    for name, payload in iff(data):
        if name == b"SFFF":
            cur += 1
            started = True
        if name == b"SEND":
            if not started:
                cur += 1
            started = False
        if started and cur == index and name == wanted:
            out.append(payload)
    return out


def _module_chnms(data, index):
    return [struct.unpack("<I", x)[0] for x in _module_chunks(data, index, b"CHNM")]


def scenario_attachment_odd_counts():
    mm = m.MetaModule()
    for raw in (0, 1, 96, 97, 200, 255, -1, -500, True, False):
        mm.option_values["user_defined_controllers"] = raw
        mm.recompute_controller_attachment()
        got = [c.attached(mm) for c in mm.user_defined]
        check(got == [i < raw for i in range(96)], f"odd count {raw!r}")
        # proxies agree with the per-instance controllers
        check(
            [MetaModule.controllers[f"user_defined_{i + 1}"].attached(mm) for i in range(96)]
            == got,
            "proxy attach state",
        )
    mm.option_values["user_defined_controllers"] = None
    check(raises(TypeError, mm.recompute_controller_attachment), "None count error")
    # two instances do not share attach state
    a, b = m.MetaModule(user_defined_controllers=3), m.MetaModule()
    check(sum(c.attached(a) for c in a.user_defined) == 3, "ctor count a")
    check(sum(c.attached(b) for c in b.user_defined) == 0, "ctor count b")
    check(a.chnk == 104 and b.chnk == 104, "chnk")


def scenario_mapping_resolution():
    inner = leaf(1)
    inner.modules.append(None)  # index 4 is an empty slot
    inner.new_module(m.Filter)  # goes into the empty slot (index 4)
    inner.modules.append(None)  # index 5 empty
    maps = [
        (0, 0),  # output => skipped
        (1, 0),
        (9, 0),  # module out of range
        (5, 0),  # empty slot
        (1, 99),  # controller out of range
        (2, 3),  # bool
        (4, 1),  # Filter.freq
        (-1, -1),  # python negative indices (never produced by files)
        (2, 2),
        (3, 2),
    ]
    p, mm = wrap(inner, 6, {}, [(0, 0)] * 10, name="res")
    for i, t in enumerate(maps):
        mm.mappings.values[i] = mm.Mapping(t)
    results = []
    for count in (0, 4, 6, 8, 10, 96):
        mm2 = m.MetaModule(project=inner)
        inner.metamodule = mm2
        mm2.mappings.values[: len(maps)] = [mm2.Mapping(t) for t in maps]
        mm2.user_defined_controllers = count
        if count == 8:
            # index 7 maps to (-1, -1): last slot is None => skipped
            pass
        mm2.update_user_defined_controllers()
        results.append(
            (
                count,
                [repr(c.value_type) for c in mm2.user_defined[:11]],
                [plain(c.default) for c in mm2.user_defined[:11]],
                [plain(mm2.controller_values[c.name]) for c in mm2.user_defined[:11]],
            )
        )
    snap("resolution", results)
    # negative indices hit the last module / last controller when present
    inner.modules.pop()  # drop trailing None so [-1] is the Filter
    mm3 = m.MetaModule(project=inner)
    mm3.mappings.values[0] = mm3.Mapping((-1, -1))
    mm3.user_defined_controllers = 1
    mm3.update_user_defined_controllers()
    last_ctl = list(inner.modules[-1].controllers.values())[-1]
    check(
        mm3.user_defined[0].value_type == last_ctl.instance_value_type(inner.modules[-1]),
        "negative index resolution",
    )
    snap("neg", (repr(mm3.user_defined[0].value_type), plain(mm3.user_defined_1)))
    # count larger than the table / negative count processes every row
    for raw in (300, -2):
        mm4 = m.MetaModule(project=leaf(2))
        mm4.mappings.values[95] = mm4.Mapping((1, 0))
        mm4.mappings.values[0] = mm4.Mapping((2, 2))
        mm4.option_values["user_defined_controllers"] = raw
        mm4.update_user_defined_controllers()
        check(repr(mm4.user_defined[95].value_type) == "<Range 0..256>", f"row 95 {raw}")
        check(mm4.controller_values["user_defined_96"] == 102, f"value 95 {raw}")
        check(mm4.controller_values["user_defined_1"] == -15, f"value 0 {raw}")
    # the static method is reachable via the class as well
    mm5 = m.MetaModule(project=leaf(3))
    mm5.mappings.values[0] = mm5.Mapping((1, 1))
    mm5.user_defined_controllers = 1
    MetaModule.MappingArray.update_user_defined_controllers(mm5)
    check(plain(mm5.user_defined_1) == "Waveform.saw", "staticmethod path")


def scenario_mapping_array():
    arr = MetaModule.MappingArray()
    check(len(arr.values) == 96 and arr.length == 96, "default length")
    check(all((x.module, x.controller) == (0, 0) for x in arr.values), "defaults")
    check(len({id(x) for x in arr.values}) == 96, "default rows are distinct objects")
    check(arr.python_type is MetaModule.Mapping, "python_type")
    check(arr.bytes == b"\0" * 384, "default bytes")
    check(arr.chnm == 1 and arr.element_size == 4 and arr.type == "HH", "consts")
    for n in (0, 1, 2, 95, 96):
        payload = b"".join(struct.pack("<HH", i + 1, 65535 - i) for i in range(n))
        arr.reset()
        arr.bytes = payload
        check(len(arr.values) == 96, f"padded to 96 from {n}")
        check(len({id(x) for x in arr.values}) == 96, f"distinct rows {n}")
        exp = [(i + 1, 65535 - i) for i in range(n)] + [(0, 0)] * (96 - n)
        check([(x.module, x.controller) for x in arr.values] == exp, f"rows {n}")
        check(arr.encoded_values == [v for pair in exp for v in pair], f"encoded {n}")
        check(isinstance(arr.encoded_values, list), "encoded is a list")
        check(arr.bytes == payload.ljust(384, b"\0"), f"bytes {n}")
        check(list(arr.chunks()) == [(b"CHNM", b"\1\0\0\0"), (b"CHDT", arr.bytes)], "chunks")
    # odd trailing bytes are ignored, over-long payload keeps all rows
    arr.bytes = struct.pack("<HH", 7, 8) + b"\x01\x02\x03"
    check((arr.values[0].module, arr.values[0].controller) == (7, 8), "partial row")
    check(len(arr.values) == 96, "partial row padded")
    arr.bytes = struct.pack("<HH", 1, 2) * 100
    check(len(arr.values) == 100, "over-long payload")
    check(raises(struct.error, lambda: arr.bytes), "over-long cannot be packed")
    mp = MetaModule.Mapping([3, 4, 5])
    check((mp.module, mp.controller) == (3, 4), "Mapping ctor")


def scenario_load_chunk():
    mm = m.MetaModule()

    def ch(chnm, chdt):
        c = Chunk()
        c.chnm, c.chdt = chnm, chdt
        return c

    # labels
    mm.load_chunk(ch(8, b"Abc\0"))
    mm.load_chunk(ch(9, b"no terminator"))
    mm.load_chunk(ch(10, b"cut\0tail\0"))
    mm.load_chunk(ch(11, b"\0"))
    mm.load_chunk(ch(12, b""))
    mm.load_chunk(ch(103, "café Ж".encode("utf8") + b"\0"))
    labels = [c.label for c in mm.user_defined]
    check(labels[:5] == ["Abc", "no terminator", "cut", "", ""], f"labels {labels[:5]}")
    check(labels[95] == "café Ж", f"label 95 {labels[95]!r}")
    check(labels[5:95] == [None] * 90, "untouched labels")
    check(raises(IndexError, mm.load_chunk, ch(104, b"x\0")), "label index 96")
    check(raises(TypeError, mm.load_chunk, ch(8, None)), "label without data")
    check(raises(TypeError, mm.load_chunk, ch(None, b"")), "chnm None")
    check(raises(UnicodeDecodeError, mm.load_chunk, ch(20, b"\xff\xfe\0")), "bad utf8")
    # ignored chunk numbers
    before = (write(mm.project), mm.mappings.bytes, dict(mm.option_values))
    for k in (3, 4, 5, 6, 7):
        mm.load_chunk(ch(k, b"\xff" * 16))
    check(before == (write(mm.project), mm.mappings.bytes, dict(mm.option_values)), "3..7 ignored")
    # options
    mm.load_chunk(ch(2, bytes([200, 1, 0, 1, 2])))
    check(mm.user_defined_controllers == 200, "raw option byte kept")
    check(mm.arpeggiator is True and mm.event_output is False, "bool options")
    check(mm.do_not_receive_notes_from_keyboard is True, "bit 1 option")
    check(not any(c.attached(mm) for c in mm.user_defined), "load_options does not attach")
    mm.recompute_controller_attachment()
    check(all(c.attached(mm) for c in mm.user_defined), "200 => all attached")
    # mappings
    mm.mappings.values[50] = mm.Mapping((9, 9))
    mm.load_chunk(ch(1, struct.pack("<HHHH", 1, 2, 3, 4)))
    rows = [(x.module, x.controller) for x in mm.mappings.values]
    check(rows == [(1, 2), (3, 4)] + [(0, 0)] * 94, "mapping chunk resets table")
    # project
    inner = leaf(5)
    old = mm.project
    mm.load_chunk(ch(0, write(inner)))
    check(mm.project is not old and mm.project.name == "leaf5", "project chunk")
    check(isinstance(mm.project, Project), "project type")
    snap("loaded-backref", mm.project.metamodule is mm)
    check(raises(TypeError, mm.load_chunk, ch(0, None)) or True, "project None")
    # a synth payload in chunk 0 is accepted as-is by the reader
    mm.load_project(ch(0, write(Synth(m.Generator()))))
    check(isinstance(mm.project, Synth), "load_project returns whatever the reader gives")
    # subclass hook: options_chnm takes precedence
    class Odd(MetaModule):
        options_chnm = 0

    MODULE_CLASSES["MetaModule"] = MetaModule  # subclassing re-registers the mtype
    odd = Odd()
    odd.load_chunk(ch(0, bytes([4])))
    check(odd.user_defined_controllers == 4, "options_chnm precedence")
    odd.load_chunk(ch(2, b"whatever"))  # ignored
    check(odd.user_defined_controllers == 4, "2 ignored when options_chnm moved")
    # overriding the loaders is honoured by load_chunk
    seen = []

    class Spy(MetaModule):
        def load_project(self, chunk):
            seen.append(("project", chunk.chnm))

        def load_label(self, chunk):
            seen.append(("label", chunk.chnm))

        def load_options(self, chunk):
            seen.append(("options", chunk.chnm))

    MODULE_CLASSES["MetaModule"] = MetaModule
    spy = Spy()
    for k in (0, 1, 2, 3, 7, 8, 50):
        spy.load_chunk(ch(k, b"\1\0\2\0"))
    check(
        seen == [("project", 0), ("options", 2), ("label", 8), ("label", 50)],
        f"dispatch {seen}",
    )
    check((spy.mappings.values[0].module, spy.mappings.values[0].controller) == (1, 2), "spy map")


def scenario_specialized_chunks():
    p, mm = wrap(leaf(4), 3, {0: "A", 1: "", 2: "Ж x", 3: "hidden"}, name="spec")
    out = list(mm.specialized_iff_chunks())
    names = [n for n, _ in out]
    check(names == [b"CHNM", b"CHDT"] * 6, f"chunk names {names}")
    nums = [struct.unpack("<I", d)[0] for n, d in out if n == b"CHNM"]
    check(nums == [0, 1, 2, 8, 9, 10], f"chunk numbers {nums}")
    check(out[1][1] == mm.project.read(), "embedded project bytes")
    check(out[1][1][:4] == b"SVOX", "embedded magic")
    check(out[3][1] == mm.mappings.bytes, "mapping bytes")
    check(out[5][1] == bytes([3, 0, 0, 0, 0, 0, 0, 0]), f"options bytes {out[5][1]!r}")
    check(out[7][1] == b"A\0" and out[9][1] == b"\0", "labels 0/1")
    check(out[11][1] == "Ж x".encode("utf8") + b"\0", "label 2 encoding")
    # generator is lazy and re-evaluable
    mm.user_defined_controllers = 4
    nums = [struct.unpack("<I", d)[0] for n, d in mm.specialized_iff_chunks() if n == b"CHNM"]
    check(nums == [0, 1, 2, 8, 9, 10, 11], "count 4 exposes label 3")
    mm.user_defined[0].label = None
    nums = [struct.unpack("<I", d)[0] for n, d in mm.specialized_iff_chunks() if n == b"CHNM"]
    check(nums == [0, 1, 2, 9, 10, 11], "None label skipped")
    mm.user_defined[95].label = "end"
    mm.user_defined_controllers = 96
    last = list(mm.specialized_iff_chunks())[-2:]
    check(last == [(b"CHNM", struct.pack("<I", 103)), (b"CHDT", b"end\0")], "label 95")
    snap("spec", hashlib.sha256(b"".join(d for _, d in out)).hexdigest())


def scenario_aliases_and_propagation():
    p, mm = wrap(leaf(6), 4, {0: "Vol", 2: "DC Offset!", 3: "9 lives", 5: "nope"}, name="al")
    check(
        mm.user_defined_aliases == ["u_vol", None, "u_dc_offset", "u__9_lives"],
        f"aliases {mm.user_defined_aliases}",
    )
    check(mm.u_vol == 106 and mm.u_dc_offset == -11, "alias read")
    check(mm.u__9_lives is True, "alias read bool")
    check(set(["u_vol", "u_dc_offset", "u__9_lives"]) <= set(dir(mm)), "dir")
    check("u_nope" not in dir(mm), "dir hidden")
    check(raises(AttributeError, getattr, mm, "u_nope"), "hidden alias")
    check(raises(AttributeError, getattr, mm, "nonsense"), "unknown attr")
    check(raises(KeyError, getattr, mm, "user_defined_97"), "user_defined_97 get")
    check(raises(KeyError, setattr, mm, "user_defined_97", 1), "user_defined_97 set")
    check(not hasattr(mm, "u_"), "u_")
    # writing through alias pushes the value (offset by range minimum) downwards
    mm.u_vol = 55
    check(mm.user_defined_1 == 55 and mm.project.modules[1].volume == 55, "alias write")
    mm.u_dc_offset = 100
    check(mm.user_defined_3 == 100, "stored as given")
    check(mm.project.modules[2].dc_offset == 100 - 128, "pushed with range offset")
    mm.user_defined_2 = "noise"
    check(plain(mm.project.modules[1].waveform) == "Waveform.noise", "enum push")
    check(plain(mm.user_defined_2) == "Waveform.noise", "enum stored")
    mm.user_defined_4 = False
    check(mm.project.modules[2].inverse is False, "bool push")
    check(raises(rv.errors.ControllerValueError, setattr, mm, "user_defined_1", 999), "range")
    # plain attributes still work
    mm.some_attr = 5
    check(mm.some_attr == 5 and mm.__dict__["some_attr"] == 5, "plain attr")
    # embedded -> metamodule propagation (whatever the reference does, incl. errors)
    gen, amp, lfo = mm.project.modules[1:4]
    ups = []
    for mod, name, value in (
        (gen, "volume", 21),
        (gen, "release", 300),
        (gen, "attack", 17),
        (amp, "dc_offset", -100),
        (amp, "inverse", True),
        (amp, "stereo_width", 1),
        (lfo, "volume", 1),
        (lfo, "freq", 3),
        (lfo, "set_phase", 0),
    ):
        ups.append((mod.name, name, attempt(setattr, mod, name, value)))
        ups.append([plain(getattr(mm, f"user_defined_{i + 1}")) for i in range(10)])
    snap("upwards", ups)
    # unattached controller set directly
    snap("unattached-set", (attempt(setattr, mm, "user_defined_50", 123), mm.user_defined_50))
    mm.mappings.values[50] = mm.Mapping((1, 0))
    mm.user_defined_51 = 123
    check(mm.user_defined_51 == 123 and gen.volume == 123, "unattached set pushes too")
    check(mm.project.modules[0] is mm.project.output, "output untouched")
    # class-level access returns the proxy
    check(isinstance(MetaModule.user_defined_1, UserDefinedProxy), "class access")
    check(MetaModule.user_defined_96.index == 95, "proxy index")
    check(isinstance(mm.user_defined[3], UserDefined), "instance controllers")
    check([c.number for c in mm.user_defined[:3]] == [6, 7, 8], "numbers")
    check(
        list(MetaModule.controllers)[:7]
        == ["volume", "input_module", "play_patterns", "bpm", "tpl", "user_defined_1", "user_defined_2"],
        "controller order",
    )
    snap("alias", [plain(getattr(mm, f"user_defined_{i + 1}")) for i in range(9)])
    data = write(p)
    check(write(read(data)) == data, "alias project rewrite")
    snap("alias-sha", hashlib.sha256(data).hexdigest())
    mm2 = read(data).modules[2]
    check(mm2.u_vol == mm.u_vol and mm2.u_dc_offset == mm.u_dc_offset, "alias after load")
    mm2.u_vol = 60
    check(mm2.project.modules[1].volume == 60, "push after load")


class _Capture(logging.Handler):
    def __init__(self):
        super().__init__(level=logging.DEBUG)
        self.records = []

    def emit(self, record):
        self.records.append((record.levelname, record.getMessage()))


def scenario_reader():
    logger = logging.getLogger("rv.readers.module")
    cap = _Capture()
    old_level = logger.level
    logger.addHandler(cap)
    logger.setLevel(logging.DEBUG)
    try:
        p, mm = wrap(leaf(7), 2, {0: "x"}, name="rd")
        sdata = write(Synth(mm))
        pairs = iff(sdata)
        # inject surplus CVALs (beyond 5 + 96 keys) and strip NUL terminators
        idx = max(i for i, (n, _) in enumerate(pairs) if n == b"CVAL") + 1
        extra = [(b"CVAL", struct.pack("<i", 1000 + k)) for k in range(96 + 3 - 2)]
        pairs2 = pairs[:idx] + extra + pairs[idx:]
        pairs2 = [
            (n, d.rstrip(b"\0") if n in (b"SNAM", b"STYP") else d) for n, d in pairs2
        ]
        pairs2.insert(idx, (b"SMIN", b"midi dev"))
        cap.records.clear()
        synth = read(raw_file(pairs2))
        mod = synth.module
        check(isinstance(mod, MetaModule) and mod.name == "rd", "crafted synth")
        check(mod.midi_out_name == "midi dev", "SMIN without NUL")
        check(mod.user_defined_controllers == 2, "crafted count")
        check(mod.user_defined_1 == 107 and plain(mod.user_defined_2) == "Waveform.saw", "vals")
        check(mod.user_defined_3 == 1000, "CVAL for unattached key applied")
        check(mod.user_defined_96 == 1093, "CVAL for last key applied")
        warns = [msg for lvl, msg in cap.records if lvl == "WARNING"]
        check(
            warns
            == [
                f"Unsupported controller at index {i} with raw value {1000 + i - 7}"
                for i in (103, 102, 101)
            ],
            f"warnings {warns}",
        )
        order = [msg for lvl, msg in cap.records if msg.startswith(("Setting", "Unsupported"))]
        # modules of the embedded project are logged first; the MetaModule's own
        # controllers come last: first the warnings, then 101 assignments
        tail = order[order.index(warns[0]) :] if warns else []
        debug = tail[3:]
        check(tail[:3] == warns, "warnings precede assignments")
        check(len(debug) == 101, f"{len(debug)} debug lines")
        check(debug[0] == "Setting user_defined_96 from raw 1093", debug[:1])
        check(debug[-1] == "Setting volume from raw 256", debug[-1:])
        check(
            debug[-6:-4] == ["Setting user_defined_1 from raw 107", "Setting tpl from raw 3"],
            debug[-6:-4],
        )
        snap("reader-order", hashlib.sha256("\n".join(order).encode()).hexdigest())
        check(
            mod.controllers_loaded >= {"volume", "tpl", "user_defined_1", "user_defined_96"},
            "controllers_loaded",
        )
        snap("reader-loaded", sorted(mod.controllers_loaded)[:8])

        # fewer CVALs than controllers: the rest keep their defaults
        short = [x for x in pairs if x[0] != b"CVAL"]
        short.insert(idx - 7, (b"CVAL", struct.pack("<i", 300)))
        mod = read(raw_file(short)).module
        check(mod.volume == 300 and mod.bpm == 125, "short CVAL list")
        check(mod.user_defined_1 == 107, "mapped value comes from embedded project")

        # no CVALs at all, no SEND => synth reader just ends
        mod = read(raw_file([x for x in pairs if x[0] not in (b"CVAL", b"CMID")])).module
        check(mod.volume == 256 and mod.user_defined_controllers == 2, "no CVAL")

        # a non-MetaModule goes through the same reader
        g = m.Generator(volume=9, waveform="noise", name="")
        gd = write(Synth(g))
        g2 = read(gd).module
        check((g2.volume, plain(g2.waveform), g2.name) == (9, "Waveform.noise", ""), "generator")
        check(write(Synth(g2)) == gd, "generator rewrite")
        gp = iff(gd)
        gidx = max(i for i, (n, _) in enumerate(gp) if n == b"CVAL") + 1
        cap.records.clear()
        read(raw_file(gp[:gidx] + [(b"CVAL", struct.pack("<i", 5))] * 2 + gp[gidx:]))
        warns = [msg for lvl, msg in cap.records if lvl == "WARNING"]
        n = len(m.Generator.controllers)
        check(
            warns
            == [
                f"Unsupported controller at index {n + 1} with raw value 5",
                f"Unsupported controller at index {n} with raw value 5",
            ],
            f"generator warnings {warns}",
        )
        # malformed chunk sizes raise struct.error
        bad = [(n_, d + b"\0" if n_ == b"SFIN" else d) for n_, d in gp]
        check(raises(struct.error, read, raw_file(bad)), "bad SFIN size")
        bad = [(n_, d[:3] if n_ == b"CVAL" else d) for n_, d in gp]
        check(raises(struct.error, read, raw_file(bad)), "bad CVAL size")
        bad = [(n_, b"Nope\0" if n_ == b"STYP" else d) for n_, d in gp]
        check(raises(KeyError, read, raw_file(bad)), "unknown module type")
        # reader object details
        r = ModuleReader(BytesIO(gd[gd.index(b"SFFF") :]), index=1)
        obj = r.object
        check(type(obj).__name__ == "Generator", "ModuleReader direct")
        check(r._controller_keys == list(m.Generator.controllers), "generator keys")
        r = ModuleReader(BytesIO(sdata[sdata.index(b"SFFF") :]), index=1)
        r.object
        check(
            r._controller_keys
            == ["volume", "input_module", "play_patterns", "bpm", "tpl"]
            + [f"user_defined_{i + 1}" for i in range(96)],
            "metamodule keys",
        )
        check(isinstance(r._controller_keys, list), "keys list")
        check(r._cvals == [256, 1, 2, 140, 3, 107, 1], f"cvals {r._cvals}")
        check(r._current_chunk is None, "last chunk flushed")
    finally:
        logger.removeHandler(cap)
        logger.setLevel(old_level)


def scenario_synth_and_project_writers():
    check(raises(EmptySynthError, lambda: list(Synth().chunks())), "empty synth")
    # module without options / chunks
    for cls in (m.Amplifier, m.Generator, m.Lfo, m.MultiCtl, m.Sampler, m.Feedback):
        mod = cls()
        data = write(Synth(mod))
        names = [n for n, _ in iff(data)]
        ncv = names.count(b"CVAL")
        check(ncv == sum(c.attached(mod) for c in mod.controllers.values()), f"{cls.__name__} CVALs")
        check(names.count(b"CMID") == (1 if ncv else 0), f"{cls.__name__} CMID")
        check((b"CHNK" in names) == bool(mod.chnk), f"{cls.__name__} CHNK")
        check(names[-1] == b"SEND" and names[0] == b"SSYN", "frame")
        check(write(read(data)) == data, f"{cls.__name__} rewrite")
        snap(f"synth-{cls.__name__}", hashlib.sha256(data).hexdigest())
    # metamodule synth: CVAL count follows the option even if attach state is stale
    mm = m.MetaModule(project=leaf(8))
    mm.option_values["user_defined_controllers"] = 3  # bypasses the change hook
    check(sum(c.attached(mm) for c in mm.user_defined) == 0, "stale state")
    names = [n for n, _ in iff(write(Synth(mm)))]
    check(names.count(b"CVAL") == 8, "synth writer recomputes attachment")
    check(sum(c.attached(mm) for c in mm.user_defined) == 3, "attachment refreshed")
    cmid = [d for n, d in iff(write(Synth(mm))) if n == b"CMID"][0]
    check(len(cmid) == 8 * 8, "CMID size")
    # project writer does not recompute
    p = Project()
    mm = m.MetaModule(project=leaf(9))
    p.attach_module(mm)
    p.modules.append(None)
    p.new_module(m.Amplifier)
    mm.option_values["user_defined_controllers"] = 3
    data = write(p)
    check(len(_module_chunks(data, 1, b"CVAL")) == 5, "project writer uses attach state")
    check(len(_module_chunks(data, 1, b"CMID")[0]) == 40, "project CMID")
    check(len(_module_chunks(data, 0, b"CVAL")) == 0, "output has no CVAL")
    check(len(_module_chunks(data, 0, b"CMID")) == 0, "output has no CMID")
    q = read(data)
    check([type(x).__name__ for x in q.modules] == ["Output", "MetaModule", "Amplifier"], "slots")
    snap("proj-sha", hashlib.sha256(data).hexdigest())
    names = [n for n, _ in iff(data)]
    check(names.count(b"SEND") == 3 + 0 and names[-1] == b"SEND", f"SEND count {names.count(b'SEND')}")
    # empty slot in the middle
    p2 = Project()
    p2.new_module(m.Generator)
    p2.modules.append(None)
    p2.attach_module(m.MetaModule(user_defined_controllers=1), loading=True)
    d2 = write(p2)
    q2 = read(d2)
    check(q2.modules[2] is None and isinstance(q2.modules[3], MetaModule), "None slot kept")
    check(write(q2) == d2, "None slot rewrite")
    snap("proj2-sha", hashlib.sha256(d2).hexdigest())


def scenario_fixtures():
    root = Path.cwd() / "tests" / "files"
    files = sorted(root.glob("metamodule*.sunsynth"))
    check(len(files) == 4, f"fixtures found: {len(files)} (run from the repository root)")
    for path in files:
        synth = read_sunvox_file(str(path))
        mod = synth.module
        d = describe_mm(mod)
        snap(path.name, (d["count"], d["labels"][:3], d["values"][:3], d["mappings"][:3], d["aliases"]))
        out = write(synth)
        check(write(read(out)) == out, f"{path.name}: unstable rewrite")
        snap(path.name + "-sha", hashlib.sha256(out).hexdigest())
    for path in sorted(root.glob("*.sunvox")):
        proj = read_sunvox_file(str(path))
        out = write(proj)
        check(write(read(out)) == out, f"{path.name}: unstable rewrite")
        snap(path.name + "-sha", hashlib.sha256(out).hexdigest())


EXPECTED_DIGEST = "1326e5a895ec490ce2a0014f985ed2dcd3c8a92e0c6545c8a566098cc504dbf4"


def main():
    for fn in (
        scenario_nesting,
        scenario_counts,
        scenario_attachment_odd_counts,
        scenario_mapping_resolution,
        scenario_mapping_array,
        scenario_load_chunk,
        scenario_specialized_chunks,
        scenario_aliases_and_propagation,
        scenario_reader,
        scenario_synth_and_project_writers,
        scenario_fixtures,
    ):
        try:
            fn()
        except Exception as e:  # noqa
            import traceback

            traceback.print_exc()
            FAILURES.append(f"{fn.__name__} crashed: {type(e).__name__}: {e}")
    digest = hashlib.sha256(repr(SNAPSHOT).encode("utf-8")).hexdigest()
    if "--digest" in sys.argv:
        print(digest)
    elif digest != EXPECTED_DIGEST:
        FAILURES.append(f"snapshot digest {digest} != expected {EXPECTED_DIGEST}")
    if "--dump" in sys.argv:
        for tag, value in SNAPSHOT:
            print(tag, repr(value)[:300])
    if FAILURES:
        print("FAIL")
        for f in FAILURES:
            print(" -", f)
        sys.exit(1)
    print("PASS")


if __name__ == "__main__":
    main()
