"""Behaviour check for property C08 (connection graph and slot order persist).

Focus of this script: ``Project.connect`` and the SLNK/SLnK part of
``Project.chunks`` (plus the round trip through the readers).

Run as:  cd <root> && PYTHONPATH=<root>/src/python /venv/bin/python check.py
Prints PASS and exits 0 when behaviour is as expected.
"""
import hashlib
import logging
import random
import struct
import sys
from io import BytesIO

from rv.api import Project, m, read_sunvox_file
from rv.errors import ModuleOwnershipError
from rv.lib.iff import chunks as iff_chunks
from rv.lib.iff import write_chunk

logging.disable(logging.CRITICAL)

# Digest of the full behaviour trace, recorded on the unchanged tree.
EXPECTED_DIGEST = "7fbed6506822a9a22dcfd40f91254642d082ebe27e39e8a6534ee8224faa5d9f"

TRACE = []


def rec(*items):
    TRACE.append(repr(items))


def tables(project):
    return [
        None
        if mod is None
        else (
            list(mod.in_links),
            list(mod.in_link_slots),
            list(mod.out_links),
            list(mod.out_link_slots),
        )
        for mod in project.modules
    ]


def edges(project):
    return sorted(
        (src, mod.index)
        for mod in project.modules
        if mod is not None
        for src in mod.in_links
        if src != -1
    )


def strip(seq):
    seq = list(seq)
    while seq and seq[-1] == -1:
        seq.pop()
    return seq


def check_consistent(project):
    """The mutual-consistency rule of the four link tables."""
    for mod in project.modules:
        if mod is None:
            continue
        assert len(mod.in_links) == len(mod.in_link_slots), tables(project)
        assert len(mod.out_links) == len(mod.out_link_slots), tables(project)
        for i, (src, slot) in enumerate(zip(mod.in_links, mod.in_link_slots)):
            if src == -1:
                assert slot == -1
                continue
            other = project.modules[src]
            assert other.out_links[slot] == mod.index
            assert other.out_link_slots[slot] == i
        for i, (dst, slot) in enumerate(zip(mod.out_links, mod.out_link_slots)):
            if dst == -1:
                assert slot == -1
                continue
            other = project.modules[dst]
            assert other.in_links[slot] == mod.index
            assert other.in_link_slots[slot] == i


def link_chunks(project):
    """Per module: the SLNK / SLnK chunks emitted (in order)."""
    result, current = [], []
    for name, data in project.chunks():
        if name in (b"SLNK", b"SLnK"):
            current.append((name, bytes(data)))
        elif name == b"SEND":
            result.append(current)
            current = []
    return result


def roundtrip(project):
    f = BytesIO()
    project.write_to(f)
    f.seek(0)
    return read_sunvox_file(f)


def check_roundtrip(project):
    loaded = roundtrip(project)
    assert edges(loaded) == edges(project)
    check_consistent(loaded)
    for before, after in zip(project.modules, loaded.modules):
        if before is None:
            assert after is None
            continue
        assert strip(before.in_links) == after.in_links
        assert strip(before.in_link_slots) == after.in_link_slots
        assert strip(before.out_links) == strip(after.out_links)
        assert strip(before.out_link_slots) == strip(after.out_link_slots)
    return loaded


def expected_link_chunks(project):
    out = []
    for mod in project.modules:
        if mod is None:
            out.append([])
            continue
        n = len(mod.in_links)
        if n == 0:
            out.append([(b"SLNK", b"")])
            continue
        cur = [(b"SLNK", struct.pack("<%di" % n, *mod.in_links))]
        if not all(s in (0, -1) for s in mod.in_link_slots):
            cur.append((b"SLnK", struct.pack("<%di" % n, *mod.in_link_slots)))
        out.append(cur)
    return out


# --------------------------------------------------------------------------
# 1. hand-written connect() scenarios with literal expectations
# --------------------------------------------------------------------------
def scenario_literals():
    p = Project()
    a, b, c, d = (p.new_module(m.Amplifier) for _ in range(4))
    p.connect(a, b)
    p.connect(a, c)
    p.connect(a, d)
    p.connect([b, c, d], p.output)
    assert a.out_links == [2, 3, 4] and a.out_link_slots == [0, 0, 0]
    assert p.output.in_links == [2, 3, 4] and p.output.in_link_slots == [0, 0, 0]
    assert link_chunks(p)[0] == [(b"SLNK", struct.pack("<3i", 2, 3, 4))]
    # connecting twice is a no-op
    before = tables(p)
    p.connect(a, b)
    p.connect([a], [b, c])
    assert tables(p) == before
    # fan-in with non-zero slots => SLnK written for module d only after this
    p.connect(b, d)
    p.connect(c, d)
    assert d.in_links == [1, 2, 3] and d.in_link_slots == [2, 1, 1]
    assert link_chunks(p)[4] == [
        (b"SLNK", struct.pack("<3i", 1, 2, 3)),
        (b"SLnK", struct.pack("<3i", 2, 1, 1)),
    ]
    # free a slot in the middle, via either operand being a DisconnectingModule
    p.connect(~a, c)
    assert a.out_links == [2, -1, 4] and a.out_link_slots == [0, -1, 0]
    assert c.in_links == [-1] and c.in_link_slots == [-1]
    p.connect(b, ~d)
    assert d.in_links == [1, -1, 3] and d.in_link_slots == [2, -1, 1]
    # disconnecting something not connected is a no-op
    before = tables(p)
    p.connect(~a, c)
    p.connect(~d, ~a)
    assert tables(p) == before
    # a new link appends (freed slots are not reused)
    p.connect(a, c)
    assert a.out_links == [2, -1, 4, 3] and c.in_links == [-1, 1]
    assert c.in_link_slots == [-1, 3] and a.out_link_slots == [0, -1, 0, 1]
    # cycle and self loop
    p.connect(d, a)
    p.connect(a, a)
    assert a.in_links == [4, 1] and a.in_link_slots == [1, 4]
    check_consistent(p)
    loaded = check_roundtrip(p)
    rec("literals", tables(p), tables(loaded), link_chunks(p))

    # errors: module of another project / unattached module
    q = Project()
    foreign = q.new_module(m.Amplifier)
    loose = m.Amplifier()
    for frm, to in ((a, foreign), (foreign, a), (loose, a), (~loose, a), (a, ~foreign)):
        before = tables(p)
        try:
            p.connect(frm, to)
        except ModuleOwnershipError as e:
            rec("ownership", str(e))
        else:
            raise AssertionError("expected ModuleOwnershipError")
        assert tables(p) == before
    # partial progress before an error is kept
    try:
        p.connect(b, [c, foreign, a])
    except ModuleOwnershipError:
        pass
    assert c.in_links == [-1, 1, 2] and 2 not in a.in_links
    # generators are accepted; an exhausted inner generator is not restarted
    p2 = Project()
    x, y, z = (p2.new_module(m.Amplifier) for _ in range(3))
    p2.connect((mod for mod in (x, y)), (mod for mod in (z, p2.output)))
    assert z.in_links == [1] and p2.output.in_links == [1]
    assert y.out_links == []
    p2.connect(iter([x, y]), [z])
    assert z.in_links == [1, 2]
    # operators
    p3 = Project()
    g = p3.new_module(m.Generator)
    r = p3.new_module(m.Reverb)
    g >> r >> p3.output
    g >> ~r
    g >> p3.output
    assert p3.output.in_links == [2, 1] and r.in_links == [-1]
    assert link_chunks(p3) == expected_link_chunks(p3)
    rec("p2p3", tables(p2), tables(p3), link_chunks(p2), link_chunks(p3))
    check_roundtrip(p2)
    check_roundtrip(p3)


# --------------------------------------------------------------------------
# 2. random operation histories
# --------------------------------------------------------------------------
def scenario_random():
    rng = random.Random(20240808)
    for trial in range(120):
        p = Project()
        n = rng.randint(1, 7)
        mods = [p.output] + [p.new_module(m.Amplifier) for _ in range(n)]
        if trial % 5 == 0 and n > 2:
            # leave an empty module slot in the middle of the project
            victim = mods.pop(rng.randint(1, n - 1))
            p.modules[victim.index] = None
        for step in range(rng.randint(1, 40)):
            k = rng.random()
            frm = rng.choice(mods)
            to = rng.choice(mods)
            if k < 0.55:
                p.connect(frm, to)
            elif k < 0.7:
                p.connect(~frm, to)
            elif k < 0.8:
                p.connect(frm, ~to)
            elif k < 0.9:
                p.connect(rng.sample(mods, rng.randint(1, len(mods))), to)
            else:
                p.connect(frm, [~t if rng.random() < 0.5 else t for t in mods])
            check_consistent(p)
        assert link_chunks(p) == expected_link_chunks(p)
        loaded = check_roundtrip(p)
        again = check_roundtrip(loaded)
        assert [t and t[:2] for t in tables(again)] == [
            t and t[:2] for t in tables(loaded)
        ]
        rec("random", trial, tables(p), tables(loaded), link_chunks(p))
        rec("bytes", hashlib.sha256(p.read()).hexdigest())


# --------------------------------------------------------------------------
# 3. chunks() on link tables set by hand (including inconsistent ones)
# --------------------------------------------------------------------------
def scenario_manual_tables():
    cases = [
        ([], []),
        ([1], [0]),
        ([1], [-1]),
        ([-1], [-1]),
        ([-1, -1], [-1, -1]),
        ([1, 2], [0, 0]),
        ([1, 2], [0, 1]),
        ([1, -1, 2], [0, -1, 0]),
        ([1, -1, 2], [5, -1, 0]),
        ([1, 2], [-2, 0]),
        ([1, 2, -1], [0, 0, -1]),
        ([1, 2], [0]),  # mismatched lengths -> struct.error
        ([1], [0, 0]),
        ([], [3]),  # empty links: slots ignored
        ([2 ** 31], [0]),  # out of range for "<i"
    ]
    for links, slots in cases:
        p = Project()
        a = p.new_module(m.Amplifier)
        p.new_module(m.Amplifier)
        a.in_links[:] = links
        a.in_link_slots[:] = slots
        try:
            got = link_chunks(p)
        except struct.error:
            rec("manual", links, slots, "struct.error")
            # nothing of the SLNK group is emitted before the failure
            seen = []
            try:
                for name, _ in p.chunks():
                    seen.append(name)
            except struct.error:
                pass
            assert seen[-1] == b"SMIP", seen[-3:]
            continue
        rec("manual", links, slots, got)
        if len(links) == len(slots):
            assert got == expected_link_chunks(p)


def main():
    scenario_literals()
    scenario_random()
    scenario_manual_tables()
    digest = hashlib.sha256("\n".join(TRACE).encode()).hexdigest()
    if "--print-digest" in sys.argv:
        print(digest)
        return 0
    if digest != EXPECTED_DIGEST:
        print("FAIL: behaviour trace digest", digest, "!=", EXPECTED_DIGEST)
        return 1
    print("PASS")
    return 0


if __name__ == "__main__":
    sys.exit(main())
