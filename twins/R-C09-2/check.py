"""Behaviour check for C09 refactoring 2 (Module.__init__ controller / option seeding).

Constructs every module type with and without keyword values and records: the
defaults, the insertion order of controller_values (controllers with a dependent
range are seeded last), controllers_loaded, option values, the common attributes
(x, y, layer, scale/mod_scale, finetune, ...), which error a bad keyword raises when
several keywords are bad (seeding order is observable there), the absence of change
callbacks during construction, and the chunks each freshly built module serialises to.
Then the generic per-controller sweep (in-range, out-of-range strict / lenient, enums,
booleans, constructor keywords) is run.  A digest of the whole observation log is
compared with the digest recorded on the unchanged tree.
"""
import hashlib
import logging
import sys
from enum import Enum

import rv.api  # noqa: F401  (registers every module class)
from rv import errors
from rv.controller import (
    CompactRange,
    Controller,
    DependentRange,
    NoOffsetRange,
    Range,
    WarnOnlyRange,
)
from rv.errors import (
    ControllerValueError,
    RangeValidationError,
    override_raise_controller_value_errors,
)
from rv.modules import MODULE_CLASSES

EXPECTED_DIGEST = "c7ed959f8ea519ca315dfa997cb1d8ee0ce03864d19a59ba860a9b7cdcda01d6"

OBS = []


def obs(*parts):
    OBS.append("|".join(str(p) for p in parts))


class Capture(logging.Handler):
    def __init__(self):
        super().__init__(level=logging.DEBUG)
        self.records = []

    def emit(self, record):
        self.records.append(record)

    def drain(self):
        out = [
            (
                r.name,
                r.levelname,
                r.getMessage(),
                type(r.exc_info[1]).__name__ if r.exc_info else None,
                r.exc_info[1].args if r.exc_info else None,
            )
            for r in self.records
        ]
        self.records = []
        return out


capture = Capture()
ctl_log = logging.getLogger("rv.controller")
ctl_log.addHandler(capture)
ctl_log.setLevel(logging.DEBUG)
ctl_log.propagate = False


def show(v):
    return f"{type(v).__name__}:{v!r}"


def attempt(fn):
    """Run fn; describe the outcome (value or exception incl. cause and args)."""
    try:
        result = fn()
    except Exception as e:  # noqa: BLE001
        cause = e.__cause__
        return "EXC {}{!r} cause={}{!r}".format(
            type(e).__name__,
            e.args,
            type(cause).__name__ if cause is not None else None,
            cause.args if cause is not None else None,
        )
    return "OK " + show(result)


def fail(msg):
    print("FAIL:", msg)
    sys.exit(1)


def sweep_module(mtype, cls):
    m = cls()
    obs("module", mtype, cls.__name__, len(cls.controllers))
    for name, ctl in cls.controllers.items():
        t = ctl.instance_value_type(m)
        default = getattr(m, name)
        obs("default", mtype, name, show(default), show(ctl.default), repr(t))
        if default != ctl.default:
            fail(f"{mtype}.{name}: default {default!r} != declared {ctl.default!r}")
        if mtype == "MetaModule" and name.startswith("user_defined_"):
            # Assigning these forwards the value into the embedded project through
            # the (empty) mapping table, which fails after the value was stored;
            # only record what happens.
            for v in (0, 1, 44100, 44101, -1):
                res = attempt(lambda: setattr(m, name, v))
                obs("meta-ud", name, v, res[:40], show(getattr(m, name)), capture.drain())
            for v in (0, 44100, 44101, -1):
                res = attempt(lambda: getattr(cls(**{name: v}), name))
                obs("meta-ud-ctor", name, v, res, capture.drain())
            with override_raise_controller_value_errors(False):
                res = attempt(lambda: getattr(cls(**{name: 50000}), name))
                obs("meta-ud-lenient", name, res, capture.drain())
        elif isinstance(t, Range):
            lo, hi = t.min, t.max
            mid = (lo + hi) // 2
            for v in (lo, mid, hi):
                setattr(m, name, v)
                got = getattr(m, name)
                if got != v or type(got) is not type(v):
                    fail(f"{mtype}.{name}: in-range {v} read back {got!r}")
            setattr(m, name, mid)
            for v in (lo - 1, hi + 1, lo - 1000, hi + 100000):
                res = attempt(lambda: setattr(m, name, v))
                logs = capture.drain()
                after = getattr(m, name)
                obs("strict", mtype, name, v, res, show(after), logs)
                if isinstance(t, WarnOnlyRange):
                    if after != v:
                        fail(f"{mtype}.{name}: warn-only range must accept {v}")
                    if len(logs) != 1 or logs[0][1] != "WARNING":
                        fail(f"{mtype}.{name}: warn-only range must log once")
                    setattr(m, name, mid)
                else:
                    if not res.startswith("EXC ControllerValueError"):
                        fail(f"{mtype}.{name}: {v} not rejected: {res}")
                    if "cause=RangeValidationError" not in res:
                        fail(f"{mtype}.{name}: wrong cause: {res}")
                    if after != mid:
                        fail(f"{mtype}.{name}: previous value lost after reject")
                    if logs:
                        fail(f"{mtype}.{name}: strict rejection must not log")
            with override_raise_controller_value_errors(False):
                for v in (lo - 1, hi + 1):
                    res = attempt(lambda: setattr(m, name, v))
                    logs = capture.drain()
                    after = getattr(m, name)
                    obs("lenient", mtype, name, v, res, show(after), logs)
                    if res != "OK NoneType:None" or after != v:
                        fail(f"{mtype}.{name}: lenient mode must store {v}: {res}")
                    if len(logs) != 1 or logs[0][1] != "WARNING":
                        fail(f"{mtype}.{name}: lenient mode must warn once: {logs}")
            if errors.RAISE_CONTROLLER_VALUE_ERRORS is not True:
                fail("strict flag not restored")
            setattr(m, name, ctl.default)
            # constructor keywords obey the same rules
            for v in (lo, hi, lo - 1, hi + 1):
                res = attempt(lambda: getattr(cls(**{name: v}), name))
                obs("ctor", mtype, name, v, res, capture.drain())
        elif isinstance(t, type) and issubclass(t, Enum):
            for member in t:
                for form in (member, member.value, member.name):
                    setattr(m, name, form)
                    got = getattr(m, name)
                    if got is not member:
                        fail(f"{mtype}.{name}: {form!r} read back {got!r}")
                res = attempt(lambda: getattr(cls(**{name: member.name}), name))
                obs("ctor-enum", mtype, name, member.name, res)
            values = [e.value for e in t]
            for bad in (min(values) - 1, max(values) + 1, "no_such_member", ""):
                before = getattr(m, name)
                res = attempt(lambda: setattr(m, name, bad))
                after = getattr(m, name)
                obs("enum-bad", mtype, name, repr(bad), res, show(after))
                if not (res.startswith("EXC ValueError") or res.startswith("EXC KeyError")):
                    fail(f"{mtype}.{name}: bad enum {bad!r} accepted: {res}")
                if after is not before:
                    fail(f"{mtype}.{name}: previous value lost after bad enum")
                res = attempt(lambda: cls(**{name: bad}))
                obs("ctor-enum-bad", mtype, name, repr(bad), res[:60])
            setattr(m, name, ctl.default)
        elif t is bool:
            for v in (True, False, 1, 0, 2, "x", ""):
                setattr(m, name, v)
                got = getattr(m, name)
                obs("bool", mtype, name, repr(v), show(got))
                if got is not bool(v):
                    fail(f"{mtype}.{name}: bool {v!r} read back {got!r}")
            setattr(m, name, ctl.default)
        else:
            obs("other", mtype, name, repr(t))
    obs("final", mtype, sorted(m.controller_values.items(), key=lambda kv: kv[0]))
    obs("loaded", mtype, sorted(m.controllers_loaded))


def check_range_classes():
    for rcls in (Range, CompactRange, NoOffsetRange, WarnOnlyRange):
        r = rcls(-5, 7)
        for v in (-6, -5, 0, 7, 8, 7.5, -5.5, float("nan"), True):
            res = attempt(lambda: r(v))
            res2 = attempt(lambda: r.validate(v))
            obs("range", rcls.__name__, v, res, res2, capture.drain())
        obs("range-raw", rcls.__name__, r.to_raw_value(-2), r.from_raw_value(3), repr(r))
        obs("range-eq", rcls.__name__, r == rcls(-5, 7), r == Range(-5, 7), r == rcls(-5, 8))
    try:
        Range(0, 1)(2)
    except RangeValidationError as e:
        if e.args != (2, 0, 1):
            fail("RangeValidationError args changed")
    else:
        fail("Range(0, 1)(2) must raise")
    if Range(0, 1)(1) != 1:
        fail("Range call must return the value")
    r = Range(*(-3, 3))
    if Controller((-3, 3), 0).value_type != r:
        fail("tuple value_type must become a Range")


def check_dependent_range():
    from rv.modules.lfo import Lfo

    m = Lfo()
    obs("dep", show(m.freq), repr(Lfo.freq.instance_value_type(m)))
    for unit in Lfo.FrequencyUnit:
        m.frequency_unit = unit
        t = Lfo.freq.instance_value_type(m)
        obs("dep-type", unit.name, repr(t), type(t).__name__)
        for v in (0, 1, t.max, t.max + 1):
            res = attempt(lambda: setattr(m, "freq", v))
            obs("dep-set", unit.name, v, res, show(m.freq), capture.drain())
    for unit in Lfo.FrequencyUnit:
        res = attempt(lambda: Lfo(frequency_unit=unit, freq=5000).freq)
        obs("dep-ctor", unit.name, res, capture.drain())
    fresh = Lfo.__new__(Lfo)
    fresh.controller_values = {}
    fresh.controllers_loaded = set()
    obs("dep-unloaded", repr(Lfo.freq.instance_value_type(fresh)))


def check_callbacks():
    from rv.modules.amplifier import Amplifier

    calls = []

    class Probe(Amplifier):
        def on_volume_changed(self, value, down, up):
            calls.append(("specific", value, down, up, self.volume))

        def on_controller_changed(self, controller, value, down, up):
            calls.append(("generic", controller.name, value, down, up, self.volume))

    p = Probe()
    if calls:
        fail("constructor must not fire change callbacks")
    p.volume = 7
    p.balance = -3
    Probe.volume.propagate(p, 9)
    Probe.volume.propagate(p, 11, down=True)
    Probe.volume.set_initial(p, 13)
    res = attempt(lambda: setattr(p, "volume", 99999))
    obs("callbacks", calls, res, p.volume)
    expected = [
        ("specific", 7, True, True, 7),
        ("generic", "volume", 7, True, True, 7),
        ("generic", "balance", -3, True, True, 7),
        ("specific", 9, False, False, 9),
        ("generic", "volume", 9, False, False, 9),
        ("specific", 11, True, False, 11),
        ("generic", "volume", 11, True, False, 11),
    ]
    if calls != expected:
        fail(f"callback sequence changed: {calls}")
    if p.volume != 13:
        fail("rejected assignment must keep the previous value")
    p.on_volume_changed = "not callable"
    p.volume = 5
    if calls[-1] != ("generic", "volume", 5, True, True, 5):
        fail("non-callable specific callback must be skipped")
    # class-level access returns the descriptor; class-level __set__ guard
    if Amplifier.volume is not Amplifier.controllers["volume"]:
        fail("class attribute access must return the Controller")
    Amplifier.volume.__set__(None, 5)  # must be a silent no-op


def check_message_format():
    from rv.modules.amplifier import Amplifier

    a = Amplifier(index=0x1F)
    try:
        a.volume = 1025
    except ControllerValueError as e:
        if e.args != ("1f(Amplifier).volume=1025 is not within [0, 1024]",):
            fail(f"message changed: {e.args}")
        if not isinstance(e, ValueError):
            fail("ControllerValueError must stay a ValueError")
        if not isinstance(e.__cause__, RangeValidationError):
            fail("cause must be the RangeValidationError")
        if e.__cause__.args != (1025, 0, 1024):
            fail("cause args changed")
    else:
        fail("out-of-range must raise")
    b = Amplifier()
    try:
        b.balance = -129
    except ControllerValueError as e:
        if e.args != ("0(Amplifier).balance=-129 is not within [-128, 128]",):
            fail(f"message changed: {e.args}")
    else:
        fail("out-of-range must raise")
    with override_raise_controller_value_errors(False):
        b.balance = -129
        logs = capture.drain()
        if b.balance != -129:
            fail("lenient mode stores the raw value")
        if logs != [
            (
                "rv.controller",
                "WARNING",
                "0(Amplifier).balance=-129 is not within [-128, 128]",
                "RangeValidationError",
                (-129, -128, 128),
            )
        ]:
            fail(f"lenient log changed: {logs}")


COMMON_KW = dict(
    index=7,
    x=100,
    y=-200,
    layer=3,
    mod_scale=300,
    color=(1, 2, 3),
    midi_in_always=True,
    midi_in_channel=5,
    midi_out_name="dev",
    midi_out_channel=4,
    midi_out_bank=2,
    midi_out_program=9,
    name="Custom",
    visualization=0x12345,
    relative_note=-12,
)
COMMON_ATTRS = (
    "index parent name x y layer mod_scale scale color midi_in_always "
    "midi_in_channel midi_out_name midi_out_channel midi_out_bank "
    "midi_out_program mod_finetune mod_relative_note in_links in_link_slots "
    "out_links out_link_slots"
).split()


def describe(m, tag):
    cls = type(m)
    obs(tag, "values", list(m.controller_values.items()))
    obs(tag, "loaded", sorted(m.controllers_loaded))
    obs(tag, "options", list(m.option_values.items()))
    obs(tag, "option-attrs", [(k, getattr(m, k)) for k in cls.options])
    obs(tag, "common", [(a, attempt(lambda: getattr(m, a))) for a in COMMON_ATTRS])
    obs(tag, "vis", int(m.visualization), m._visualization)
    obs(tag, "midi-maps", type(m.controller_midi_maps).__name__, dict(m.controller_midi_maps))
    for in_project in (False, True):
        res = attempt(lambda: [(k, bytes(v)) for k, v in m.iff_chunks(in_project=in_project)])
        obs(tag, "chunks", in_project, hashlib.sha256(res.encode()).hexdigest())


def check_construction(mtype, cls):
    tag = "new:" + mtype
    m = cls()
    describe(m, tag)
    names = list(cls.controllers)
    dependent = [n for n in names if isinstance(cls.controllers[n].value_type, DependentRange)]
    independent = [n for n in names if n not in dependent]
    if list(m.controller_values) != independent + dependent:
        fail(f"{mtype}: controller seeding order changed")
    if m.controllers_loaded != set(names):
        fail(f"{mtype}: controllers_loaded incomplete")
    for n in names:
        if getattr(m, n) != cls.controllers[n].default:
            fail(f"{mtype}.{n}: wrong default")
    if (m.x, m.y, m.layer, m.mod_scale, m.scale if "scale" not in names else 256) != (512, 512, 0, 256, 256):
        fail(f"{mtype}: common defaults changed")

    # common keyword values, plus finetune / scale which may collide with controllers
    kw = dict(COMMON_KW)
    m2 = cls(**kw)
    describe(m2, "kw:" + mtype)
    for extra_kw in ({"finetune": 17}, {"scale": 77}, {"scale": 77, "mod_scale": 88}):
        res = attempt(lambda: cls(**extra_kw))
        if res.startswith("OK"):
            m3 = cls(**extra_kw)
            obs("kw-collide", mtype, extra_kw, m3.mod_finetune, m3.mod_scale,
                attempt(lambda: m3.scale), list(m3.controller_values.items()))
        else:
            obs("kw-collide", mtype, extra_kw, res)

    # every controller given by keyword at once (max of range / last enum member)
    all_kw = {}
    for n in names:
        if mtype == "MetaModule" and n.startswith("user_defined_"):
            all_kw[n] = 44100
            continue
        t = cls.controllers[n].value_type
        if isinstance(t, DependentRange):
            all_kw[n] = 3
        elif isinstance(t, Range):
            all_kw[n] = t.max
        elif isinstance(t, type) and issubclass(t, Enum):
            all_kw[n] = list(t)[-1].name
        elif t is bool:
            all_kw[n] = not cls.controllers[n].default
    for ordering in (all_kw, dict(reversed(list(all_kw.items())))):
        m4 = cls(**ordering)
        describe(m4, "allkw:" + mtype)
        if list(m4.controller_values) != independent + dependent:
            fail(f"{mtype}: keyword order must not affect seeding order")
    # every option by keyword
    opt_kw = {}
    for n, opt in cls.options.items():
        if opt.size == 1:
            opt_kw[n] = not opt.default
        else:
            opt_kw[n] = 10**6
    res = attempt(lambda: cls(**opt_kw))
    if res.startswith("OK"):
        describe(cls(**opt_kw), "optkw:" + mtype)
    else:
        obs("optkw", mtype, res)

    # two bad keywords: which one is reported depends on the seeding order
    ranged = [n for n in names if isinstance(cls.controllers[n].value_type, Range)
              and not isinstance(cls.controllers[n].value_type, WarnOnlyRange)
              and not (mtype == "MetaModule" and n.startswith("user_defined_"))]
    if len(ranged) >= 2:
        first, last = ranged[0], ranged[-1]
        bad = {last: cls.controllers[last].value_type.max + 1,
               first: cls.controllers[first].value_type.min - 1}
        res = attempt(lambda: cls(**bad))
        obs("two-bad", mtype, bad, res)
        if f".{first}=" not in res:
            fail(f"{mtype}: first-defined bad controller must be reported: {res}")
        with override_raise_controller_value_errors(False):
            m5 = cls(**bad)
            logs = capture.drain()
            obs("two-bad-lenient", mtype, list(m5.controller_values.items()), logs)
            if [r[2].split("=")[0].split(".")[-1] for r in logs] != [first, last]:
                fail(f"{mtype}: lenient warnings out of order: {logs}")
    if dependent:
        # a bad independent value is reported before a dependent one is looked at
        dep = dependent[0]
        master = cls.controllers[dep].value_type.ctl_name
        for master_value in cls.controllers[master].value_type:
            mm = cls(**{dep: 10**6, master: master_value})
            obs("dep-seed", mtype, master_value.name, getattr(mm, dep), capture.drain())


def check_no_callbacks_in_ctor():
    from rv.modules.amplifier import Amplifier
    from rv.modules.lfo import Lfo

    calls = []

    class ProbeA(Amplifier):
        def on_controller_changed(self, controller, value, down, up):
            calls.append(controller.name)

        def on_volume_changed(self, value, down, up):
            calls.append("volume!")

    class ProbeL(Lfo):
        def on_controller_changed(self, controller, value, down, up):
            calls.append(controller.name)

    ProbeA(volume=3)
    ProbeL(freq=3)
    if calls:
        fail(f"constructor fired controller callbacks: {calls}")
    obs("probe-classes", list(ProbeA.controllers) == list(Amplifier.controllers),
        [c.number for c in ProbeL.controllers.values()])


def main():
    if len(MODULE_CLASSES) != 43:
        fail(f"expected 43 module types, found {len(MODULE_CLASSES)}")
    check_range_classes()
    check_message_format()
    check_callbacks()
    check_dependent_range()
    check_no_callbacks_in_ctor()
    for mtype in sorted(MODULE_CLASSES):
        check_construction(mtype, MODULE_CLASSES[mtype])
        stray = capture.drain()
        if stray:
            obs("stray-logs", mtype, stray)
    for mtype in sorted(MODULE_CLASSES):
        sweep_module(mtype, MODULE_CLASSES[mtype])
    leftover = capture.drain()
    if leftover:
        fail(f"unexpected log records: {leftover[:3]}")
    digest = hashlib.sha256("\n".join(OBS).encode("utf-8")).hexdigest()
    if "--print-digest" in sys.argv:
        print(digest, len(OBS))
        return
    if digest != EXPECTED_DIGEST:
        fail(f"observation digest {digest} != recorded {EXPECTED_DIGEST}")
    print(f"PASS ({len(OBS)} observations)")


if __name__ == "__main__":
    main()
