"""Behaviour check for MultiCtl.macro, MultiCtl.Mapping and the mapping chunk
encoding (property C20).

Covers: every window/gain class the helper distinguishes (enum, bool, min==1
range, CompactRange, plain range, DependentRange), controllers given by name
or as Controller objects, gain selection when classes agree / disagree, link
creation, placement keywords, the `initial` value, the two MappingError
refusals (and their precedence over other failures), what the freshly built
MultiCtl then delivers, and that the mappings survive a write/read round trip.
"""
import sys
from io import BytesIO

import rv.api as rv
from rv.controller import Controller
from rv.errors import MappingError, RadiantVoicesError
from rv.modules.multictl import MultiCtl
from rv.readers.reader import read_sunvox_file

FAILS = []


def expect(cond, msg):
    if not cond:
        FAILS.append(msg)


def ref_convert(gain, qsteps, smin, smax, dmin, dmax, vmax, value, curve):
    """Frozen copy of the scaling arithmetic (curve is always given here)."""
    v = min((value * gain) / 256, 32768)
    k = int(v / 128)
    lo = curve[k]
    hi = curve[k + 1] if k < 256 else lo
    w = min((v - 128 * k) / 128, 1.0)
    v = int((w * hi) + ((1.0 - w) * lo))
    if qsteps < 32768:
        st = 32768 / max(qsteps - 1, 1)
        v = smin + int((smax - smin) * ((int(v / st) * st) / 32768))
    else:
        v = smin + ((smax - smin) * v) // 32768
    if vmax is not None:
        v /= 32768 / vmax
    v = v + dmin if dmax - dmin > 0 else dmin - v
    return int(v)


LINE = [128 * i for i in range(257)]


def fields(mapping):
    return (
        mapping.min,
        mapping.max,
        mapping.controller,
        mapping.flags,
        mapping.future_use2,
        mapping.future_use3,
        mapping.future_use4,
        mapping.future_use5,
    )


def ctl_number(mod, name):
    return list(mod.controllers).index(name) + 1


UNSET = (0, 0x8000, 0, 0, 0, 0, 0, 0)

# ---- one target of each class -------------------------------------------------
CASES = [
    # module class, controller, expected (min, max), expected gain
    (rv.m.Amplifier, "volume", (0, 32768), 256),
    (rv.m.Amplifier, "balance", (0, 32768), 256),
    (rv.m.Filter, "freq", (0, 32768), 256),
    (rv.m.MultiSynth, "transpose", (0, 256), 256),
    (rv.m.Amplifier, "inverse", (0, 1), 512),
    (rv.m.Amplifier, "absolute", (0, 1), 512),
    (rv.m.Filter, "type", (0, 3), 256 + int(256 / 3)),
    (rv.m.Generator, "waveform", None, None),
    (rv.m.Generator, "polyphony", (1, 16), 256 + 16),
    (rv.m.Distortion, "bit_depth", (1, 16), 256 + 16),
    (rv.m.Compressor, "release", (1, 1000), 256),
    (rv.m.Glide, "sample_rate", (1, 32768), 256),
    (rv.m.Delay, "delay_l", (0, 32768), 256),
    (rv.m.Delay, "delay_multiplier", (1, 15), 256 + 17),
]
for cls, cname, window, gain in CASES:
    for as_object in (False, True):
        p = rv.Project()
        filler = p.new_module(rv.m.Amplifier)  # so the target is not module 1
        mod = p.new_module(cls)
        ctl = mod.controllers[cname] if as_object else cname
        if window is None:
            t = mod.controllers[cname].value_type
            window, gain = (0, len(t) - 1), 256 + int(256 / (len(t) - 1))
        mc = MultiCtl.macro(p, (mod, ctl))
        tag = f"{cls.__name__}.{cname} obj={as_object}"
        expect(type(mc) is MultiCtl and mc.parent is p and p.modules[mc.index] is mc, f"{tag}: attached")
        expect(mc.gain == gain, f"{tag}: gain {mc.gain} != {gain}")
        expect(
            fields(mc.mappings.values[0]) == window + (ctl_number(mod, cname), 0, 0, 0, 0, 0),
            f"{tag}: mapping {fields(mc.mappings.values[0])}",
        )
        expect(all(fields(m) == UNSET for m in mc.mappings.values[1:]), f"{tag}: other mappings default")
        expect(len(mc.mappings.values) == 16, f"{tag}: 16 mappings")
        expect(mc.out_links == [mod.index] and mod.in_links == [mc.index], f"{tag}: links")
        expect(filler.in_links == [] and mc.in_links == [], f"{tag}: no stray links")
        expect(mc.value == 0 and mc.quantization == 32768, f"{tag}: defaults")
        expect(mc.name == "MultiCtl" and (mc.layer, mc.x, mc.y) == (0, 0, 0), f"{tag}: placement defaults")

# ---- several targets, gain selection, ordering ---------------------------------
p = rv.Project()
amp = p.new_module(rv.m.Amplifier)
flt = p.new_module(rv.m.Filter)
ms = p.new_module(rv.m.MultiSynth)
gen = p.new_module(rv.m.Generator)
dist = p.new_module(rv.m.Distortion)
amp2 = p.new_module(rv.m.Amplifier)

mc = MultiCtl.macro(p, (flt, "freq"), (amp, "volume"), (ms, "transpose"), name="fan", layer=3, x=40, y=-8)
expect(mc.gain == 256, "all-256 gain")
expect((mc.name, mc.layer, mc.x, mc.y) == ("fan", 3, 40, -8), "placement keywords")
expect(mc.out_links == [flt.index, amp.index, ms.index], f"link order {mc.out_links}")
expect(
    [fields(m) for m in mc.mappings.values[:4]]
    == [
        (0, 32768, ctl_number(flt, "freq"), 0, 0, 0, 0, 0),
        (0, 32768, ctl_number(amp, "volume"), 0, 0, 0, 0, 0),
        (0, 256, ctl_number(ms, "transpose"), 0, 0, 0, 0, 0),
        UNSET,
    ],
    "mapping order",
)
expect(mc.value == 0, "no initial -> value stays 0")
expect((flt.freq, amp.volume, ms.transpose) == (14000, 256, 0), "no initial -> targets untouched")

mc2 = MultiCtl.macro(p, (gen, "polyphony"), (dist, "bit_depth"))
expect(mc2.gain == 272, f"agreeing non-default gains -> that gain ({mc2.gain})")
mc3 = MultiCtl.macro(p, (gen, "polyphony"), (amp, "inverse"))
expect(mc3.gain == 256, f"disagreeing gains -> 256 ({mc3.gain})")
mc4 = MultiCtl.macro(p, (amp, "inverse"), (amp2, "absolute"))
expect(mc4.gain == 512, f"two bools -> 512 ({mc4.gain})")
mc5 = MultiCtl.macro(p, (amp, "volume"), (amp2, "inverse"))
expect(mc5.gain == 256, f"plain + bool -> 256 ({mc5.gain})")
mc0 = MultiCtl.macro(p)
expect(mc0.gain == 256 and mc0.out_links == [] and all(fields(m) == UNSET for m in mc0.mappings.values), "no targets")
expect(amp.in_links == [mc.index, mc3.index, mc4.index, mc5.index], f"amp in_links {amp.in_links}")

# ---- initial value is applied through the new links ----------------------------
p = rv.Project()
amp = p.new_module(rv.m.Amplifier)
flt = p.new_module(rv.m.Filter)
ms = p.new_module(rv.m.MultiSynth)
gen = p.new_module(rv.m.Generator)
mc = MultiCtl.macro(p, (amp, "balance"), (flt, "freq"), (ms, "transpose"), initial=16384)
expect(mc.value == 16384, "initial stored")
expect((amp.balance, flt.freq, ms.transpose) == (0, 6999, 0), f"initial delivered {(amp.balance, flt.freq, ms.transpose)}")
mc.value = 32768
expect((amp.balance, flt.freq, ms.transpose) == (128, 13999, 128), "top delivered")
mc.value = 0
expect((amp.balance, flt.freq, ms.transpose) == (-128, 0, -128), "bottom delivered")
mcz = MultiCtl.macro(p, (gen, "polyphony"), initial=0)
expect(mcz.gain == 272 and gen.polyphony == 1 and mcz.value == 0, f"initial=0 is applied ({gen.polyphony})")
prev = None
for v in range(0, 32769, 64):
    mcz.value = v
    expect(1 <= gen.polyphony <= 16, f"polyphony range at {v}: {gen.polyphony}")
    want = 1 + ref_convert(272, 32768, 1, 16, 0, 15, 15, v, LINE)
    expect(gen.polyphony == want, f"polyphony at {v}: {gen.polyphony} != {want}")
    expect(prev is None or prev <= gen.polyphony, f"polyphony monotone at {v}")
    prev = gen.polyphony
mcz.value = 32768
expect(gen.polyphony == 1 + ref_convert(272, 32768, 1, 16, 0, 15, 15, 32768, LINE), f"polyphony top {gen.polyphony}")

# ---- refusals ------------------------------------------------------------------
p = rv.Project()
amps = [p.new_module(rv.m.Amplifier) for _ in range(18)]
n_before = len(p.modules)
try:
    MultiCtl.macro(p, *[(a, "volume") for a in amps[:17]])
    expect(False, "17 targets accepted")
except MappingError as e:
    expect(isinstance(e, (RadiantVoicesError, ValueError)), "MappingError bases")
    expect(str(e) == "MultiCtl supports max of 16 destinations", f"message {e}")
expect(len(p.modules) == n_before, "refused macro created a module")
try:
    # too-many check comes before controller lookup
    MultiCtl.macro(p, *[(a, "no_such_controller") for a in amps[:17]])
    expect(False, "17 bad targets accepted")
except MappingError:
    pass
try:
    MultiCtl.macro(p, (amps[0], "volume"), (amps[1], "volume"), (amps[0], "balance"))
    expect(False, "duplicate module accepted")
except MappingError as e:
    expect(str(e) == "Only one MultiCtl mapping per destination module allowed", f"message {e}")
expect(len(p.modules) == n_before, "refused macro created a module (dup)")
expect(all(a.in_links == [] for a in amps), "refused macro created links")
try:
    # a bad controller name is reported before the duplicate-module refusal
    MultiCtl.macro(p, (amps[0], "volume"), (amps[0], "nope"))
    expect(False, "bad controller accepted")
except KeyError:
    pass
except MappingError:
    expect(False, "duplicate check ran before controller lookup")
try:
    # pairs are processed one at a time, left to right
    detached = rv.m.Amplifier()
    MultiCtl.macro(p, (detached, "volume"), (amps[0], "nope"))
    expect(False, "detached module accepted")
except KeyError:
    expect(False, "second pair examined before first pair failed")
except MappingError:
    expect(False, "unexpected MappingError")
except Exception:
    pass
expect(len(p.modules) == n_before, "failed macro created a module")
mc16 = MultiCtl.macro(p, *[(a, "volume") for a in amps[:16]], initial=32768)
expect(len(mc16.out_links) == 16 and [a.volume for a in amps] == [1024] * 16 + [256, 256], "16 targets served")
expect([m.controller for m in mc16.mappings.values] == [1] * 16, "16 mappings filled")

# ---- Mapping / MappingArray ------------------------------------------------------
m = MultiCtl.Mapping((1, 2, 3, 4, 5, 6, 7, 8))
expect(fields(m) == (1, 2, 3, 4, 5, 6, 7, 8), "Mapping from tuple")
m = MultiCtl.Mapping([9, 8, 7, 6, 5, 4, 3, 2, 1, 0])
expect(fields(m) == (9, 8, 7, 6, 5, 4, 3, 2), "Mapping ignores extras")
for short in [(), (0, 32768, 1), (0, 1, 2, 3, 4, 5, 6)]:
    try:
        MultiCtl.Mapping(short)
        expect(False, f"short mapping {short} accepted")
    except ValueError:
        pass
arr = MultiCtl.MappingArray()
expect(arr.python_type is MultiCtl.Mapping and (arr.chnm, arr.length, arr.type, arr.element_size) == (0, 16, "IIIIIIII", 32), "array class attrs")
expect(arr.encoded_values == list(UNSET) * 16, "default encoded values")
arr.values[2] = MultiCtl.Mapping((10, 20, 30, 1, 0, 0, 0, 7))
enc = arr.encoded_values
expect(type(enc) is list and len(enc) == 128 and enc[16:24] == [10, 20, 30, 1, 0, 0, 0, 7], "encoded values")
mc = MultiCtl(mappings=[(5, 6, 7, 0, 0, 0, 0, 0), (1, 2, 3, 4, 5, 6, 7, 8)], curve=[7] * 257)
expect([fields(x) for x in mc.mappings.values[:3]] == [(5, 6, 7, 0, 0, 0, 0, 0), (1, 2, 3, 4, 5, 6, 7, 8), UNSET], "ctor mappings")
expect(list(mc.curve.values) == [7] * 257, "ctor curve")

# ---- write / read round trip ------------------------------------------------------
p = rv.Project()
amp = p.new_module(rv.m.Amplifier)
gen = p.new_module(rv.m.Generator)
ms = p.new_module(rv.m.MultiSynth)
mc = MultiCtl.macro(p, (gen, "polyphony"), (amp, "volume"), (ms, "transpose"), name="rt", x=12, y=34, initial=20000)
mc.mappings.values[1].min, mc.mappings.values[1].max = 30000, 100
buf = BytesIO()
p.write_to(buf)
first = buf.getvalue()
buf.seek(0)
q = read_sunvox_file(buf)
mc_q = q.modules[mc.index]
expect(type(mc_q) is MultiCtl and mc_q.name == "rt", "round trip type/name")
expect([fields(a) for a in mc_q.mappings.values] == [fields(a) for a in mc.mappings.values], "round trip mappings")
expect(list(mc_q.curve.values) == list(mc.curve.values), "round trip curve")
expect((mc_q.gain, mc_q.value, mc_q.quantization) == (mc.gain, 20000, 32768), "round trip controllers")
expect(mc_q.out_links == mc.out_links, "round trip links")
buf2 = BytesIO()
q.write_to(buf2)
expect(buf2.getvalue() == first, "second write is byte-identical")
mc_q.value = 32768
expect(mc_q.gain == 256, "round trip gain")
want_rt = (
    1 + ref_convert(256, 32768, 1, 16, 0, 15, 15, 32768, LINE),
    ref_convert(256, 32768, 100, 30000, 1024, 0, 1024, 32768, LINE),
    ref_convert(256, 32768, 0, 256, 0, 256, None, 32768, LINE) - 128,
)
expect(want_rt[1:] == (86, 128), f"reference sanity {want_rt}")
expect((q.modules[gen.index].polyphony, q.modules[amp.index].volume, q.modules[ms.index].transpose) == want_rt, f"loaded project fan-out {(q.modules[gen.index].polyphony, q.modules[amp.index].volume, q.modules[ms.index].transpose)}")

if FAILS:
    print("FAIL")
    for f in FAILS[:25]:
        print("  ", f)
    sys.exit(1)
print("PASS")
