"""Behaviour check for the common (non type-specific) part of saving and loading.

Run from the repository root:
    PYTHONPATH=<root>/src/python python check.py

Exercises Project.chunks, Synth.chunks, Module.options_chunks / load_options /
load_cmid, and MetaModule.recompute_controller_attachment: every fixture file is
re-saved and compared byte-for-byte with recorded digests, and project header
fields, links, options, controller values and MIDI maps are edited, saved and
re-loaded.
"""
import hashlib
import logging
import struct
import sys
from enum import Enum
from io import BytesIO
from pathlib import Path

from rv.api import Pattern, Project, Synth, m, read_sunvox_file
from rv.cmidmap import MidiMessageType, Slope
from rv.errors import EmptySynthError
from rv.lib.iff import chunks as iff_chunks
from rv.modules.module import Chunk as RawChunk
from rv.modules.module import Module

logging.disable(logging.CRITICAL)

ROOT = Path.cwd()
FILES = ROOT / "tests" / "files"
FAILURES = []
RESULTS = {}


def check(cond, label):
    if not cond:
        FAILURES.append(label)


def sha(data: bytes) -> str:
    return hashlib.sha256(data).hexdigest()[:16]


def raises(exc_type, fn, label):
    try:
        fn()
    except exc_type as e:
        if type(e) is not exc_type:
            FAILURES.append(f"{label}: raised {type(e).__name__}, wanted exactly {exc_type.__name__}")
        return
    except Exception as e:  # noqa
        FAILURES.append(f"{label}: raised {type(e).__name__} instead of {exc_type.__name__}")
        return
    FAILURES.append(f"{label}: did not raise")


def load(data: bytes):
    return read_sunvox_file(BytesIO(data))


def names_of(data: bytes):
    return [n for n, _ in iff_chunks(BytesIO(data))]


def chunk_map(data: bytes):
    return list(iff_chunks(BytesIO(data)))


# ------------------------------------------------ every fixture, byte for byte
fixtures = sorted(p for p in FILES.rglob("*.sun*") if p.suffix in (".sunsynth", ".sunvox"))
check(len(fixtures) >= 50, f"fixture count {len(fixtures)}")
for path in fixtures:
    obj = read_sunvox_file(path)
    out = obj.read()
    key = str(path.relative_to(FILES))
    RESULTS["resave:" + key] = sha(out)
    again = load(out).read()
    check(again == out, f"{key}: second generation differs")

# --------------------------------------------- options: flip each one and save
digest = hashlib.sha256()
for path in fixtures:
    if path.suffix != ".sunsynth":
        continue
    synth = read_sunvox_file(path)
    mod = synth.module
    for name, option in mod.options.items():
        fresh = read_sunvox_file(path)
        fm = fresh.module
        expected = dict(fm.option_values)
        old = getattr(fm, name)
        if option.size == 1:
            new = not old
        else:
            lo = option.min if option.min is not None else 0
            hi = option.max if option.max is not None else (1 << option.size) - 1
            new = lo if old != lo else hi
        setattr(fm, name, new)
        expected_after = dict(fm.option_values)  # includes exclusive_of side effects
        check(getattr(fm, name) == new, f"{path.name}.{name} set")
        out = fresh.read()
        digest.update(out)
        back = load(out).module
        check(getattr(back, name) == new, f"{path.name}.{name} saved")
        check(dict(back.option_values) == expected_after, f"{path.name}.{name}: other options")
        changed = {k for k in expected if expected[k] != expected_after[k]}
        check(option.name in changed or old == new, f"{path.name}.{name}: stored value changed")
        # types: single-bit options come back as bool, wider ones as int
        for oname, o in back.options.items():
            v = back.option_values[oname]
            check(type(v) is (bool if o.size == 1 else int), f"{path.name}.{oname} type {type(v)}")
RESULTS["options-matrix"] = digest.hexdigest()[:16]

# direct use of options_chunks / load_options
amp = m.Amplifier()
check(list(amp.specialized_iff_chunks()) == [(None, None)], "no options: placeholder chunk")
check(list(amp.options_chunks()) == [(b"CHNM", b"\0\0\0\0"), (b"CHDT", b"")], "no options: empty CHDT")
smp = m.Sampler()
base = list(smp.options_chunks())
check(base[0] == (b"CHNM", struct.pack("<I", 0x101)), "sampler options chnm")
RESULTS["sampler-default-options"] = base[1][1].hex()
mm = m.MetaModule()
RESULTS["metamodule-default-options"] = list(mm.options_chunks())[1][1].hex()
for size in (0, 1, 3, len(base[1][1]), 63, 64, 65, 100):
    c = RawChunk()
    c.chnm, c.chdt = 0x101, bytes((i * 37 + 1) % 256 for i in range(size))
    s2 = m.Sampler()
    s2.load_options(c)
    for o in s2.options.values():
        b = c.chdt[o.byte] if o.byte < size else 0
        want = (b >> o.bit) & ((1 << o.size) - 1)
        want = bool(want) if o.size == 1 else want
        check(s2.option_values[o.name] == want and type(s2.option_values[o.name]) is type(want), f"load_options size {size} {o.name}")
    # and what was loaded is what gets written
    c2 = RawChunk()
    c2.chnm, c2.chdt = 0x101, list(s2.options_chunks())[1][1]
    s3 = m.Sampler()
    s3.load_options(c2)
    check(s3.option_values == s2.option_values, f"options write/load size {size}")
c = RawChunk()
c.chnm, c.chdt = 0x101, None
raises(TypeError, lambda: m.Sampler().load_options(c), "load_options with no data")
s2 = m.Sampler()
s2.option_values["record_in_mono"] = None
raises(TypeError, lambda: list(s2.options_chunks()), "None option value")
s2 = m.Sampler()
del s2.option_values["record_in_mono"]
raises(TypeError, lambda: list(s2.options_chunks()), "missing option value")
s2 = m.Sampler()
s2.option_values["record_in_mono"] = 0xFE  # masked to the option's width
s2.option_values["start_recording_on_project_play"] = -1
check(list(s2.options_chunks())[1][1][:2] == b"\x01\x00", "values masked to width")
mm = m.MetaModule()
mm.option_values["user_defined_controllers"] = 0x1FF
out = list(mm.options_chunks())[1][1]
mm2 = m.MetaModule()
c = RawChunk()
c.chnm, c.chdt = 2, out
mm2.load_options(c)
RESULTS["metamodule-masked-udc"] = repr(mm2.option_values["user_defined_controllers"])
gen = m.Sampler().options_chunks()
s2 = m.Sampler()
s2.option_values["record_in_mono"] = None
gen = s2.options_chunks()  # creating the generator does nothing yet
raises(TypeError, lambda: next(gen), "error on first next, before CHNM")

# ------------------------------------------- controllers and MIDI maps (CMID)
digest = hashlib.sha256()
for path in fixtures:
    if path.suffix != ".sunsynth":
        continue
    synth = read_sunvox_file(path)
    mod = synth.module
    attached = [n for n, c in mod.controllers.items() if c.attached(mod)]
    out = synth.read()
    cl = chunk_map(out)
    cvals = [d for n, d in cl if n == b"CVAL"]
    cmids = [d for n, d in cl if n == b"CMID"]
    check(len(cvals) == len(attached), f"{path.name}: CVAL count")
    check(len(cmids) == (1 if attached else 0), f"{path.name}: CMID count")
    if attached:
        check(len(cmids[0]) == 8 * len(attached), f"{path.name}: CMID size")
        order = names_of(out)
        last_cval = max(i for i, n in enumerate(order) if n == b"CVAL")
        check(order[last_cval + 1] == b"CMID", f"{path.name}: CMID right after CVALs")
        check([struct.unpack("<i", d)[0] for d in cvals] == [mod.get_raw(n) for n in attached], f"{path.name}: CVAL values")
    # give every third controller a MIDI mapping, save, reload
    for i, n in enumerate(attached):
        if i % 3 == 0:
            mp = mod.controller_midi_maps[n]
            mp.message_type = list(MidiMessageType)[1 + i % 8]
            mp.channel = i % 16
            mp.slope = list(Slope)[i % 6]
            mp.message_parameter = 1000 + i
    out = synth.read()
    digest.update(out)
    back = load(out).module
    for i, n in enumerate(attached):
        a, b = mod.controller_midi_maps[n], back.controller_midi_maps[n]
        check((a.message_type, a.channel, a.slope, a.message_parameter) == (b.message_type, b.channel, b.slope, b.message_parameter), f"{path.name}.{n}: midi map")
        check(back.controller_values[n] == mod.controller_values[n], f"{path.name}.{n}: value")
RESULTS["cmid-matrix"] = digest.hexdigest()[:16]


def cmid_record(i):
    return struct.pack("<BBBBHBB", 1 + i % 8, i % 16, i % 6, 0, 500 + i, 0, 0xC8)


gen_names = list(m.Generator.controllers)
for length in (0, 1, 7, 8, 9, 15, 16, 23, 8 * len(gen_names) - 1, 8 * len(gen_names), 8 * len(gen_names) + 5, 8 * len(gen_names) + 64):
    g = m.Generator()
    data = b"".join(cmid_record(i) for i in range(40))[:length]
    g.load_cmid(data)
    full = min(length // 8, len(gen_names))
    check(set(g.controller_midi_maps) == set(gen_names[:full]), f"load_cmid {length}: which maps exist")
    for i, n in enumerate(gen_names[:full]):
        check(g.controller_midi_maps[n].cmid_data == cmid_record(i), f"load_cmid {length}: {n}")
g = m.Generator()
bad = cmid_record(0) + struct.pack("<BBBBHBB", 99, 0, 0, 0, 0, 0, 0) + cmid_record(2)
raises(ValueError, lambda: g.load_cmid(bad), "bad message type")
check(list(g.controller_midi_maps) == gen_names[:2], "maps touched before the error")
check(g.controller_midi_maps[gen_names[0]].message_parameter == 500, "first record applied")
g = m.Generator()
g.load_cmid(bytearray(cmid_record(3) * 2))
check(g.controller_midi_maps[gen_names[1]].channel == 3, "bytearray accepted")
raises(TypeError, lambda: m.Generator().load_cmid(None), "load_cmid(None)")

# ------------------------------------------------------- MetaModule attachment
mm_path = FILES / "metamodule.sunsynth"
synth = read_sunvox_file(mm_path)
mod = synth.module
start = mod.user_defined_controllers
RESULTS["metamodule-udc"] = repr(start)
for count in (0, 1, 2, 5, 27, 95, 96, start):
    mod.user_defined_controllers = count
    flags = [c.attached(mod) for c in mod.user_defined]
    check(flags == [True] * count + [False] * (96 - count), f"udc {count}: attachment")
    out = synth.read()
    cvals = [d for n, d in chunk_map(out) if n == b"CVAL"]
    check(len(cvals) == 5 + count, f"udc {count}: CVAL count {len(cvals)}")
    back = load(out).module
    check(back.user_defined_controllers == count, f"udc {count}: saved")
    check([c.attached(back) for c in back.user_defined] == flags, f"udc {count}: reloaded attachment")
    RESULTS[f"metamodule-udc-{count}"] = sha(out)
# Synth.chunks recomputes attachment from the option, whatever was forced by hand
mod.user_defined_controllers = 4
for c in mod.user_defined:
    c.detach(mod)
mod.user_defined[50].attach(mod)
out = synth.read()
check([c.attached(mod) for c in mod.user_defined] == [True] * 4 + [False] * 92, "synth save recomputes")
check(len([1 for n, _ in chunk_map(out) if n == b"CVAL"]) == 9, "synth save CVALs after recompute")
# ... a Project does not
proj = Project()
mod2 = read_sunvox_file(mm_path).module
proj.attach_module(mod2)
mod2.user_defined_controllers = 4
for c in mod2.user_defined:
    c.detach(mod2)
mod2.user_defined[1].attach(mod2)
out = proj.read()
check([c.attached(mod2) for c in mod2.user_defined] == [False, True] + [False] * 94, "project save leaves attachment")
sec = names_of(out)
check(sec.count(b"CVAL") == 6, f"project save CVALs {sec.count(b'CVAL')}")
# odd counts written straight into the option table
mod3 = m.MetaModule()
for raw, want in ((-5, 0), (0, 0), (96, 96), (200, 96), (True, 1)):
    mod3.option_values["user_defined_controllers"] = raw
    mod3.recompute_controller_attachment()
    check(sum(c.attached(mod3) for c in mod3.user_defined) == want, f"raw udc {raw!r}")
    check([c.attached(mod3) for c in mod3.user_defined] == [True] * want + [False] * (96 - want), f"raw udc {raw!r} prefix")
for raw in (None, 2.0, "3"):
    mod3.option_values["user_defined_controllers"] = raw
    raises(TypeError, mod3.recompute_controller_attachment, f"raw udc {raw!r}")
for other in ("metamodule-option-78", "metamodule-option-79", "metamodule-option-7a"):
    obj = read_sunvox_file(FILES / f"{other}.sunsynth")
    RESULTS[f"{other}:attached"] = repr(sum(c.attached(obj.module) for c in obj.module.user_defined))

# --------------------------------------------------------- Synth edge cases
raises(EmptySynthError, lambda: Synth().read(), "empty synth")
raises(RuntimeError, lambda: Synth(Module()).read(), "base module")
gen = Synth().chunks()
raises(EmptySynthError, lambda: next(gen), "empty synth: error on first next")
out = Synth(m.Amplifier()).read()
check(names_of(out)[-3:] == [b"CVAL", b"CMID", b"SEND"], "amplifier: no CHNK")
RESULTS["fresh-amplifier"] = sha(out)
out = Synth(m.Output()).read()
check(b"CVAL" not in names_of(out) and b"CMID" not in names_of(out) and b"STYP" not in names_of(out), "output module: no controllers")
RESULTS["fresh-output"] = sha(out)
for cls_name in ("Generator", "Sampler", "MetaModule", "MultiCtl", "Feedback", "Gpio", "Lfo", "Echo"):
    RESULTS[f"fresh-{cls_name}"] = sha(Synth(getattr(m, cls_name)()).read())
g = m.Generator()
g.controller_values["volume"] = None  # an unset controller value is written as 0
first_cval = [d for n, d in chunk_map(Synth(g).read()) if n == b"CVAL"][0]
check(first_cval == b"\0\0\0\0", "None controller value")
g.controller_values["volume"] = "loud"
gen = Synth(g).chunks()
seen = []
try:
    for item in gen:
        seen.append(item[0])
    check(False, "string controller value should fail")
except struct.error:
    pass
check(seen[-1] == b"SMIP" and b"CVAL" not in seen, "failure happens at the first CVAL")

# ------------------------------------------------------ project header fields
HEADER = {
    "flags": 0x1234, "initial_bpm": 90, "initial_tpl": 3, "time_grid": 8, "time_grid2": 2,
    "global_volume": 200, "name": "Edited é", "modules_scale": 300, "modules_zoom": 128,
    "modules_x_offset": -77, "modules_y_offset": 12345, "modules_layer_mask": 0x80000001,
    "modules_current_layer": 3, "timeline_position": -4, "restart_position": 16,
    "selected_module": 2, "selected_generator": 1, "current_pattern": 1, "current_track": 2,
    "current_line": 7, "sunvox_version": (2, 1, 0, 3), "based_on_version": (1, 9, 6, 1),
}


def header_state(p):
    return {k: getattr(p, k) for k in HEADER} | {
        "receive_sync_midi": int(p.receive_sync_midi), "receive_sync_other": int(p.receive_sync_other)}


HEADER_ORDER = [b"SVOX", b"VERS", b"BVER", b"FLGS", b"SFGS", b"BPM ", b"SPED", b"TGRD", b"TGD2",
                b"GVOL", b"NAME", b"MSCL", b"MZOO", b"MXOF", b"MYOF", b"LMSK", b"CURL"]
for path in [p for p in fixtures if p.suffix == ".sunvox"]:
    base = read_sunvox_file(path)
    base_state = header_state(load(base.read()))
    check(base_state == header_state(base), f"{path.name}: header roundtrip")
    for field, value in HEADER.items():
        proj = read_sunvox_file(path)
        setattr(proj, field, value)
        out = proj.read()
        back = load(out)
        want = dict(base_state)
        if field == "sunvox_version":
            # the written VERS comes back as loaded_sunvox_version
            check(back.loaded_sunvox_version == value, f"{path.name}: VERS written")
            check(dict(chunk_map(out))[b"VERS"] == bytes(reversed(value)), f"{path.name}: VERS bytes")
        else:
            want[field] = value
        check(header_state(back) == want, f"{path.name}: {field} edit")
    for midi in range(8):
        for other in (0, 1, 5, 7):
            proj = read_sunvox_file(path)
            proj.receive_sync_midi, proj.receive_sync_other = midi, other
            sfgs = dict(chunk_map(proj.read()))[b"SFGS"]
            check(sfgs == struct.pack("<I", midi | other << 3), "SFGS")
    proj = read_sunvox_file(path)
    for time_pos, restart in ((0, 0), (5, 0), (0, 9), (-1, -1)):
        proj.timeline_position, proj.restart_position = time_pos, restart
        order = names_of(proj.read())
        want_order = HEADER_ORDER + ([b"TIME"] if time_pos else []) + ([b"REPS"] if restart else []) + [b"SELS", b"LGEN", b"PATN", b"PATT", b"PATL"]
        check(order[:len(want_order)] == want_order, f"{path.name}: header order {time_pos},{restart}")
        back = load(proj.read())
        check((back.timeline_position, back.restart_position) == (time_pos, restart), "TIME/REPS values")
    # out-of-range value: everything before the bad field has already been produced
    proj = read_sunvox_file(path)
    proj.modules_zoom = -1
    seen = []
    try:
        for item in proj.chunks():
            seen.append(item[0])
        check(False, "negative zoom should fail")
    except struct.error:
        pass
    check(seen == HEADER_ORDER[:HEADER_ORDER.index(b"MZOO")], f"{path.name}: lazy header {seen[-1:]}")
    proj.modules_zoom = 256
    proj.timeline_position = 2 ** 31
    raises(struct.error, proj.read, "TIME overflow")
    proj.timeline_position = 0.0  # zero-valued float: skipped like int zero
    check(b"TIME" not in names_of(proj.read()), "0.0 timeline skipped")
    proj.timeline_position = 1.5
    raises(struct.error, proj.read, "float TIME")

# --------------------------------------------------------------- module links
proj = Project()
gens = [proj.new_module(m.Generator, name=f"g{i}") for i in range(3)]
amp = proj.new_module(m.Amplifier)
fb = proj.new_module(m.Echo)
proj.connect(gens, amp)
amp >> proj.output
gens[0] >> fb >> amp
gens[2] >> proj.output
proj.connect(~gens[1], amp)  # leaves a -1 hole
proj.modules.append(None)  # an empty module slot
lone = proj.new_module(m.Lfo)  # takes the empty slot
proj.modules.append(None)
proj.attach_pattern(Pattern(tracks=2, lines=4))
proj.patterns.append(None)
out = proj.read()
RESULTS["links-project"] = sha(out)
order = names_of(out)
check(order.count(b"SEND") == len(proj.modules), "one SEND per slot, even empty ones")
check(order.count(b"PEND") == 2, "one PEND per pattern slot")
check(order[-2:] == [b"SEND", b"SEND"], "trailing empty slot")
back = load(out)
for a, b in zip(proj.modules, back.modules):
    if a is None:
        check(b is None, "empty slot stays empty")
        continue
    check(type(a) is type(b) and a.name == b.name, "module identity")
    want_links = list(a.in_links)
    while want_links[-1:] == [-1]:
        want_links.pop()
    check(b.in_links == want_links, f"{a.name}: in_links {b.in_links} vs {want_links}")


def module_sections(data):
    secs, cur, on = [], [], False
    for n, d in iff_chunks(BytesIO(data)):
        if n == b"SFFF":
            on = True
        if on:
            cur.append((n, d))
        if n == b"SEND" and on:
            secs.append(cur)
            cur, on = [], False
    return secs


secs = module_sections(out)
slnk = [dict(s).get(b"SLNK") for s in secs]
check(slnk[0] == struct.pack("<2i", amp.index, gens[2].index), "output links")
check(slnk[1] == b"" and slnk[lone.index if lone.index < len(slnk) else -1] is not None, "unlinked module has empty SLNK")
has_slots = [b"SLnK" in dict(s) for s in secs]
RESULTS["links-slnk-flags"] = repr(has_slots)
for s in secs:
    names = [n for n, _ in s]
    if b"SLnK" in names:
        check(names[names.index(b"SLNK") + 1] == b"SLnK", "SLnK follows SLNK")
        check(len(dict(s)[b"SLnK"]) == len(dict(s)[b"SLNK"]), "SLnK size")
    check(names.index(b"SLNK") == names.index(b"SMIP") + 1, "SLNK right after common fields")
# slots all 0 / -1 => no SLnK at all
p2 = Project()
g = p2.new_module(m.Generator)
g >> p2.output
check(p2.output.in_link_slots == [0], "single link slot 0")
check(b"SLnK" not in names_of(p2.read()), "no SLnK for zero slots")
p2.output.in_link_slots = [-1]
check(b"SLnK" not in names_of(p2.read()), "no SLnK for -1 slots")
p2.output.in_link_slots = [1]
check(b"SLnK" in names_of(p2.read()), "SLnK for non-zero slot")
p2.output.in_link_slots = [1, 2]  # more slots than links
seen = []
try:
    for item in p2.chunks():
        seen.append(item[0])
    check(False, "slot/link mismatch should fail")
except struct.error:
    pass
check(seen[-1] == b"SMIP" and b"SLNK" not in seen, "mismatch detected before SLNK is produced")
p2.output.in_link_slots = []
seen = []
try:
    for item in p2.chunks():
        seen.append(item[0])
    check(False, "missing slots should fail")
except struct.error:
    pass
check(b"SLNK" not in seen, "missing slots detected before SLNK")
p2.output.in_links = []
check(dict(module_sections(p2.read())[0])[b"SLNK"] == b"", "no links at all")
p2.output.in_links = (1,)  # tuples work as well as lists
p2.output.in_link_slots = (3,)
check(dict(module_sections(p2.read())[0])[b"SLnK"] == struct.pack("<i", 3), "tuple links")

# edits to modules inside projects are saved
for path in [p for p in fixtures if p.suffix == ".sunvox"]:
    proj = read_sunvox_file(path)
    touched = []
    for mod in proj.modules:
        if mod is None or mod.index == 0:
            continue
        mod.name = f"mod {mod.index}"
        mod.x, mod.y, mod.layer = mod.index * 10 - 500, -mod.index, mod.index % 4
        mod.color = (mod.index % 256, 1, 2)
        mod.midi_in_channel = mod.index % 16
        mod.midi_in_always = bool(mod.index % 2)
        touched.append(mod.index)
    out = proj.read()
    RESULTS["project-edit:" + str(path.relative_to(FILES))] = sha(out)
    back = load(out)
    for idx in touched:
        a, b = proj.modules[idx], back.modules[idx]
        check((b.name, b.x, b.y, b.layer, tuple(b.color), b.midi_in_channel, b.midi_in_always)
              == (a.name, a.x, a.y, a.layer, tuple(a.color), a.midi_in_channel, a.midi_in_always), f"{path.name}[{idx}] common fields")
        check(b.controller_values == a.controller_values, f"{path.name}[{idx}] controllers untouched")
        check(b.option_values == a.option_values, f"{path.name}[{idx}] options untouched")

EXPECTED = {
    'resave:amplifier.sunsynth': '419f5717e558efbc',
    'resave:analog-generator.sunsynth': '76ce674ef1db6717',
    'resave:compressor.sunsynth': '7e4fa89c60186b9a',
    'resave:dc-blocker.sunsynth': '1312bb3c1626a845',
    'resave:delay.sunsynth': '32ee6c78f799b00c',
    'resave:distortion.sunsynth': 'e9b59951b8753b41',
    'resave:drum-synth.sunsynth': '6d8ad0364d91a386',
    'resave:echo.sunsynth': 'a51866593f018ff9',
    'resave:empty.sunvox': '0b58f6338b84cd2a',
    'resave:eq.sunsynth': 'c6e8877e93f69f7f',
    'resave:feedback.sunsynth': '09a1d368f8d97439',
    'resave:fft.sunsynth': 'a532a1e449a579c5',
    'resave:filter-pro.sunsynth': '87b217d025f588bb',
    'resave:filter.sunsynth': 'ccf4f2af334e7d85',
    'resave:flanger.sunsynth': '658f4783cc9c248e',
    'resave:fmx.sunsynth': 'd2b0427af5abec18',
    'resave:generator.sunsynth': '16aefebfbfb606f8',
    'resave:glide.sunsynth': '765d995ffed7b949',
    'resave:gpio.sunsynth': '15c3990e39ba8c2d',
    'resave:input.sunsynth': '025ed41f84a149cb',
    'resave:issue109/filter_lfo.sunvox': '7c07bab808ce3d27',
    'resave:issue41/sample.sunvox': '31504b7ddfd90622',
    'resave:issue54/test1.sunvox': '915266c46c96537b',
    'resave:kicker.sunsynth': '33abb29c4834873a',
    'resave:lfo.sunsynth': 'efa89196cf44067f',
    'resave:loop.sunsynth': '57eca85729cb1af4',
    'resave:metamodule-option-78.sunsynth': '76bf484725a761c1',
    'resave:metamodule-option-79.sunsynth': '8d8a050747174fd9',
    'resave:metamodule-option-7a.sunsynth': '36db7cdd1df60d03',
    'resave:metamodule.sunsynth': '55f5fd0bfba89745',
    'resave:modulator.sunsynth': '22d3e9b37c36f881',
    'resave:module-multiselect.sunvox': '8fa3a4e0ed3b0d49',
    'resave:multictl.sunsynth': '66b009f3228bb000',
    'resave:multisynth-random-off.sunsynth': 'b4ccf1b6f4e1ed62',
    'resave:multisynth-random1.sunsynth': 'a19a3f40a8bd840e',
    'resave:multisynth-random2.sunsynth': '98bf489a0febc83d',
    'resave:multisynth-random3.sunsynth': 'b7fbddfa4ed104bf',
    'resave:multisynth.sunsynth': '87df69077399b611',
    'resave:pitch-shifter.sunsynth': '4c58b5705344a08e',
    'resave:pitch2ctl.sunsynth': '73252da465dfcc2f',
    'resave:reverb.sunsynth': '90db4c635458e8fe',
    'resave:sampler.sunsynth': '3b0f2915c2ec0456',
    'resave:single-fm.sunvox': 'ca3eb0ed7d25ba31',
    'resave:smooth.sunsynth': '673c38cfc74b338e',
    'resave:sound2ctl.sunsynth': 'fd4a139c6dc96ebf',
    'resave:spectravoice.sunsynth': '112111c76bcab011',
    'resave:supertracks.sunvox': '1a4f41f039f94d44',
    'resave:velocity2ctl.sunsynth': '5fe6662a1ac4bc70',
    'resave:vibrato.sunsynth': '274b70fa0e6cf0ab',
    'resave:vocal-filter.sunsynth': 'f62bcc37659869aa',
    'resave:vorbis-player.sunsynth': 'f18896c9f30ee44a',
    'resave:waveshaper.sunsynth': 'a4d25d2c53431359',
    'options-matrix': '300a61476d2e0483',
    'sampler-default-options': '0000000000000000',
    'metamodule-default-options': '0000000000000000',
    'metamodule-masked-udc': '255',
    'cmid-matrix': '55af38fefcdadcc0',
    'metamodule-udc': '2',
    'metamodule-udc-0': '08385d6ed9eb8c72',
    'metamodule-udc-1': '322a714b483c4502',
    'metamodule-udc-2': '55f5fd0bfba89745',
    'metamodule-udc-5': '2843fc695e4693b9',
    'metamodule-udc-27': '49494c9822471b3f',
    'metamodule-udc-95': '8f59cdfbedb1053a',
    'metamodule-udc-96': '0f87601bf684c4cd',
    'metamodule-option-78:attached': '0',
    'metamodule-option-79:attached': '0',
    'metamodule-option-7a:attached': '0',
    'fresh-amplifier': 'a82b674409094690',
    'fresh-output': '0af3d02e7eea9587',
    'fresh-Generator': '29b07081976df45b',
    'fresh-Sampler': 'c665ea9372f6fad3',
    'fresh-MetaModule': '5db044749e2b1bb0',
    'fresh-MultiCtl': 'f5eaa24af7b07229',
    'fresh-Feedback': 'f4064e3c4244069b',
    'fresh-Gpio': 'd72f4b49539630dc',
    'fresh-Lfo': 'fe4dccdc77085309',
    'fresh-Echo': '93015698fbbbad01',
    'links-project': 'bab83b8dd93a7c57',
    'links-slnk-flags': '[True, False, False, False, False, True, False]',
    'project-edit:empty.sunvox': '0b58f6338b84cd2a',
    'project-edit:issue109/filter_lfo.sunvox': 'f19b47d42caf5782',
    'project-edit:issue41/sample.sunvox': 'd4b3b6f95a042813',
    'project-edit:issue54/test1.sunvox': '3675a2e025d8f068',
    'project-edit:module-multiselect.sunvox': 'e9f160e7ccf1640b',
    'project-edit:single-fm.sunvox': 'cf15f84f28ec3254',
    'project-edit:supertracks.sunvox': '1a4f41f039f94d44',
}

if "--record" in sys.argv:
    for k, v in RESULTS.items():
        print(f"    {k!r}: {v!r},")
    sys.exit(0)

for k, v in RESULTS.items():
    if EXPECTED.get(k) != v:
        FAILURES.append(f"digest {k}: {v} != {EXPECTED.get(k)}")
check(set(EXPECTED) == set(RESULTS), "digest key sets differ")

if FAILURES:
    print("FAIL")
    for f in FAILURES[:40]:
        print("  -", f)
    print(len(FAILURES), "failures")
    sys.exit(1)
print("PASS")
