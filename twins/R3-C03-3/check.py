"""Behaviour check for Project.chunks, Pattern/PatternClone.iff_chunks,
Pattern.raw_data, Note.raw_data and ControllerMidiMap.cmid_data.

Run from the repository root:
    PYTHONPATH=<root>/src/python python check.py [--print]

Projects are built programmatically, written, and decoded with an independent
chunk/struct decoder that is compared with the public state of the project;
sha256 digests of every output are compared with golden values recorded on the
unrefactored tree; accessor edge cases and exception behaviour are checked.
"""

import hashlib
import struct
import sys
from io import BytesIO

from rv.api import NOTE, NOTECMD, Note, Pattern, PatternClone, Project, m
from rv.api import read_sunvox_file
from rv.cmidmap import ControllerMidiMap, MidiMessageType, Slope

failures = []


def check(cond, msg):
    if not cond:
        failures.append(msg)


def iter_chunks(data):
    pos = 0
    while pos < len(data):
        cid = data[pos : pos + 4]
        (n,) = struct.unpack("<I", data[pos + 4 : pos + 8])
        yield cid, data[pos + 8 : pos + 8 + n]
        pos += 8 + n
    assert pos == len(data), "trailing garbage"


def u32(b):
    return struct.unpack("<I", b)[0]


def i32(b):
    return struct.unpack("<i", b)[0]


HEADER = [
    (b"SVOX", None),
    (b"VERS", "ver:sunvox_version"),
    (b"BVER", "ver:based_on_version"),
    (b"FLGS", "u:flags"),
    (b"SFGS", "sync"),
    (b"BPM ", "u:initial_bpm"),
    (b"SPED", "u:initial_tpl"),
    (b"TGRD", "u:time_grid"),
    (b"TGD2", "u:time_grid2"),
    (b"GVOL", "u:global_volume"),
    (b"NAME", "name"),
    (b"MSCL", "u:modules_scale"),
    (b"MZOO", "u:modules_zoom"),
    (b"MXOF", "i:modules_x_offset"),
    (b"MYOF", "i:modules_y_offset"),
    (b"LMSK", "u:modules_layer_mask"),
    (b"CURL", "u:modules_current_layer"),
    (b"TIME", "opt:timeline_position"),
    (b"REPS", "opt:restart_position"),
    (b"SELS", "u:selected_module"),
    (b"LGEN", "i:selected_generator"),
    (b"PATN", "u:current_pattern"),
    (b"PATT", "u:current_track"),
    (b"PATL", "u:current_line"),
]


def verify_project(project, data, label):
    chunks = list(iter_chunks(data))
    pos = 0
    for cid, spec in HEADER:
        kind, _, attr = (spec or "").partition(":")
        if kind == "opt" and getattr(project, attr) == 0:
            check(chunks[pos][0] != cid, f"{label}: {cid} written although zero")
            continue
        got_id, payload = chunks[pos]
        pos += 1
        check(got_id == cid, f"{label}: header pos {pos}: {got_id} != {cid}")
        if spec is None:
            check(payload == b"", f"{label}: magic payload")
        elif kind == "ver":
            check(
                payload == bytes(reversed(getattr(project, attr))), f"{label}: {cid}"
            )
        elif kind == "u":
            check(len(payload) == 4 and u32(payload) == getattr(project, attr), f"{label}: {cid}")
        elif kind in ("i", "opt"):
            check(len(payload) == 4 and i32(payload) == getattr(project, attr), f"{label}: {cid}")
        elif kind == "sync":
            check(
                u32(payload)
                == int(project.receive_sync_midi) + 8 * int(project.receive_sync_other),
                f"{label}: SFGS",
            )
        elif kind == "name":
            check(payload == project.name.encode("utf8") + b"\0", f"{label}: NAME")

    # pattern slots
    for n, pattern in enumerate(project.patterns):
        slot = []
        while chunks[pos][0] != b"PEND":
            slot.append(chunks[pos])
            pos += 1
        check(chunks[pos][1] == b"", f"{label}: PEND payload")
        pos += 1
        ids = [c for c, _ in slot]
        d = dict(slot)
        plabel = f"{label}: pattern[{n}]"
        if pattern is None:
            check(ids == [], f"{plabel}: empty slot has {ids}")
        elif isinstance(pattern, PatternClone):
            check(ids == [b"PPAR", b"PFFF", b"PXXX", b"PYYY"], f"{plabel}: ids {ids}")
            check(u32(d[b"PPAR"]) == pattern.source, f"{plabel}: PPAR")
        else:
            exp = [b"PDTA"]
            if pattern.name is not None:
                exp.append(b"PNME")
            exp += [
                b"PCHN",
                b"PLIN",
                b"PYSZ",
                b"PFLG",
                b"PICO",
                b"PFGC",
                b"PBGC",
                b"PFFF",
                b"PXXX",
                b"PYYY",
            ]
            check(ids == exp, f"{plabel}: ids {ids}")
            pdta = d[b"PDTA"]
            check(
                len(pdta) == pattern.lines * pattern.tracks * 8, f"{plabel}: PDTA size"
            )
            k = 0
            for line in pattern.data:
                for note in line:
                    ev = struct.unpack("<BBHHH", pdta[k : k + 8])
                    exp_ev = (
                        int(note.note),
                        note.vel,
                        note.module,
                        note.ctl,
                        note.val,
                    )
                    check(ev == exp_ev, f"{plabel}: event at {k}: {ev} != {exp_ev}")
                    k += 8
            if pattern.name is not None:
                check(d[b"PNME"] == pattern.name.encode("utf8") + b"\0", f"{plabel}: PNME")
            check(u32(d[b"PCHN"]) == pattern.tracks, f"{plabel}: PCHN")
            check(u32(d[b"PLIN"]) == pattern.lines, f"{plabel}: PLIN")
            check(u32(d[b"PYSZ"]) == pattern.y_size, f"{plabel}: PYSZ")
            check(u32(d[b"PFLG"]) == pattern.flags_PFLG, f"{plabel}: PFLG")
            check(d[b"PICO"] == pattern.icon, f"{plabel}: PICO")
            check(d[b"PFGC"] == bytes(pattern.fg_color), f"{plabel}: PFGC")
            check(d[b"PBGC"] == bytes(pattern.bg_color), f"{plabel}: PBGC")
        if pattern is not None:
            check(u32(d[b"PFFF"]) == pattern.flags_PFFF, f"{plabel}: PFFF")
            check(i32(d[b"PXXX"]) == pattern.x, f"{plabel}: PXXX")
            check(i32(d[b"PYYY"]) == pattern.y, f"{plabel}: PYYY")

    # module slots
    for n, module in enumerate(project.modules):
        slot = []
        while chunks[pos][0] != b"SEND":
            slot.append(chunks[pos])
            pos += 1
        check(chunks[pos][1] == b"", f"{label}: SEND payload")
        pos += 1
        mlabel = f"{label}: module[{n}]"
        if module is None:
            check(slot == [], f"{mlabel}: empty slot has chunks")
            continue
        ids = [c for c, _ in slot]
        check(ids[0] == b"SFFF", f"{mlabel}: starts with {ids[0]}")
        check(ids.count(b"SLNK") == 1, f"{mlabel}: SLNK count")
        k = ids.index(b"SLNK")
        check(ids[k - 1] == b"SMIP", f"{mlabel}: SLNK position")
        n_links = len(module.in_links)
        check(
            slot[k][1] == struct.pack(f"<{n_links}i", *module.in_links),
            f"{mlabel}: SLNK payload",
        )
        k += 1
        want_slots = any(s not in (-1, 0) for s in module.in_link_slots) and n_links
        if want_slots:
            check(ids[k] == b"SLnK", f"{mlabel}: SLnK missing")
            check(
                slot[k][1] == struct.pack(f"<{n_links}i", *module.in_link_slots),
                f"{mlabel}: SLnK payload",
            )
            k += 1
        else:
            check(b"SLnK" not in ids, f"{mlabel}: unexpected SLnK")
        attached = [c for c, ctl in module.controllers.items() if ctl.attached(module)]
        check(
            ids[k : k + len(attached)] == [b"CVAL"] * len(attached),
            f"{mlabel}: CVAL run",
        )
        vals = [i32(p) for _, p in slot[k : k + len(attached)]]
        check(vals == [module.get_raw(c) for c in attached], f"{mlabel}: CVAL values")
        k += len(attached)
        check(ids.count(b"CVAL") == len(attached), f"{mlabel}: CVAL count")
        if attached:
            check(ids[k] == b"CMID", f"{mlabel}: CMID missing")
            check(len(slot[k][1]) == 8 * len(attached), f"{mlabel}: CMID size")
            exp = b"".join(
                struct.pack(
                    "<BBBBHBB",
                    mm.message_type.value,
                    mm.channel,
                    mm.slope.value,
                    0,
                    mm.message_parameter,
                    0,
                    0xFF if mm.message_type is MidiMessageType.unset else 0xC8,
                )
                for mm in (module.controller_midi_maps[c] for c in attached)
            )
            check(slot[k][1] == exp, f"{mlabel}: CMID payload")
            k += 1
        else:
            check(b"CMID" not in ids, f"{mlabel}: CMID without controllers")
        if module.chnk:
            check(ids[k] == b"CHNK" and u32(slot[k][1]) == module.chnk, f"{mlabel}: CHNK")
            chnms = [u32(p) for c, p in slot[k:] if c == b"CHNM"]
            check(all(x < module.chnk for x in chnms), f"{mlabel}: CHNM range")
        else:
            check(k == len(slot), f"{mlabel}: trailing chunks {ids[k:]}")
    check(pos == len(chunks), f"{label}: {len(chunks) - pos} chunks after last SEND")


def fill_pattern(pattern, seed):
    notes = [NOTECMD.EMPTY, NOTE.C4, NOTE.a9, NOTECMD.NOTE_OFF, NOTECMD.PREV_TRACK]
    for li, line in enumerate(pattern.data):
        for ti, note in enumerate(line):
            k = seed + li * 7 + ti * 3
            note.note = notes[k % len(notes)]
            note.vel = k % 130
            note.module = (k * 257) % 0x10000
            note.ctl = (k * 4099) % 0x10000
            note.val = (k * 65521) % 0x10000


def build_projects():
    out = {}

    out["empty"] = Project()

    p = Project()
    p.name = "Ünïcode ✓ name"
    p.flags = 0xFFFFFFFF
    p.initial_bpm = 1
    p.initial_tpl = 31
    p.global_volume = 256
    p.time_grid, p.time_grid2 = 3, 7
    p.modules_scale, p.modules_zoom = 1, 0xFFFF
    p.modules_x_offset, p.modules_y_offset = -(2**31), 2**31 - 1
    p.modules_layer_mask = 0xA5A5A5A5
    p.modules_current_layer = 7
    p.timeline_position = -5
    p.restart_position = 2**31 - 1
    p.selected_module = 3
    p.selected_generator = 2
    p.current_pattern, p.current_track, p.current_line = 1, 2, 3
    p.receive_sync_midi = 7
    p.receive_sync_other = Project.SyncCommand.tempo | Project.SyncCommand.position
    p.sunvox_version = (1, 9, 6, 1)
    p.based_on_version = (1, 2, 3, 4)
    out["header-extremes"] = p

    p = Project()
    p.timeline_position = 9
    out["time-only"] = p
    p = Project()
    p.restart_position = -1
    out["reps-only"] = p

    # patterns
    p = Project()
    pat = Pattern(tracks=1, lines=1)
    p.attach_pattern(pat)
    pat = Pattern(
        name="Mélodie",
        tracks=5,
        lines=9,
        y_size=16,
        flags_PFLG=3,
        icon=bytes(range(32)),
        fg_color=(1, 2, 3),
        bg_color=[250, 251, 252],
        flags_PFFF=0x18,
        x=-64,
        y=40,
    )
    fill_pattern(pat, 11)
    p.attach_pattern(pat)
    p.attach_pattern(None)
    p.attach_pattern(PatternClone(source=1, x=128, y=-8))
    p.attach_pattern(PatternClone(source=0, flags_PFFF=0x1B, x=0, y=0))
    pat = Pattern(name="", tracks=32, lines=3)
    fill_pattern(pat, 5)
    p.attach_pattern(pat)
    out["patterns"] = p

    # modules and links
    p = Project()
    gen = p.new_module(m.Generator, name="gen")
    amp = p.new_module(m.Amplifier)
    flt = p.new_module(m.Filter)
    rev = p.new_module(m.Reverb)
    fm = p.new_module(m.Fm)
    p.connect(gen, amp)
    p.connect(gen, flt)  # gen's 2nd out link => slot 1 on flt's in link
    p.connect([amp, flt], rev)
    p.connect(fm, rev)
    p.connect(rev, p.output)
    p.connect(gen, p.output)
    p.connect(~amp, rev)  # leaves a -1 entry
    p.attach_module(None)  # an empty module slot in the middle
    multi = p.attach_module(m.MultiSynth(), loading=True)
    p.attach_module(None)  # and one at the end
    p.connect(multi, gen)
    amp.controller_midi_maps["volume"].message_type = MidiMessageType.control_change
    amp.controller_midi_maps["volume"].message_parameter = 0x1234
    amp.controller_midi_maps["volume"].channel = 5
    amp.controller_midi_maps["volume"].slope = Slope.toggle
    amp.volume = 1024
    flt.freq = 0
    out["links"] = p

    # metamodule nesting + sampler + pattern referencing modules
    inner = Project()
    inner.name = "inner"
    ig = inner.new_module(m.AnalogGenerator)
    inner.connect(ig, inner.output)
    ip = Pattern(tracks=2, lines=4)
    fill_pattern(ip, 2)
    inner.attach_pattern(ip)
    p = Project()
    meta = p.new_module(m.MetaModule, project=inner, user_defined_controllers=2)
    meta.mappings.values[0].module, meta.mappings.values[0].controller = 1, 0
    meta.mappings.values[1].module, meta.mappings.values[1].controller = 1, 3
    meta.user_defined[0].label = "Vol"
    smp = p.new_module(m.Sampler)
    s = m.Sampler.Sample()
    s.data = bytes(range(64))
    smp.samples[2] = s
    p.connect([meta, smp], p.output)
    pat = Pattern(tracks=2, lines=2)
    pat.data[0][0] = Note(note=NOTE.C5, vel=129, module=int(meta), pattern=pat)
    pat.data[1][1] = Note(note=NOTECMD.NOTE_OFF, ctl=0xFFFF, val=0xFFFF, pattern=pat)
    p.attach_pattern(pat)
    out["nested"] = p

    return out


GOLDEN = {
    # recorded on the unrefactored tree (regenerate with --print)
    "empty": "406949941dae172bfd71f9013c6cb8c005715845af60d03e478800b54ccf4691",
    "empty/reread": "406949941dae172bfd71f9013c6cb8c005715845af60d03e478800b54ccf4691",
    "header-extremes": "0f784fcacb1128a859ab4a2d02b40825b5661a4e2de14a0aa555fa1cf80bd925",
    "header-extremes/reread": "0516b3a8a0e705ccbc6e1da608c35163c2dd9917f8dff5af492a52447e0f384b",
    "time-only": "f11f2cd193d497c1fca8c332c00a6ced331ca8365a4293a5c34d8bc5b1e3d3b1",
    "time-only/reread": "f11f2cd193d497c1fca8c332c00a6ced331ca8365a4293a5c34d8bc5b1e3d3b1",
    "reps-only": "47e13f65cb5bb652ab01aafcd220cb208ed321d52cc7d4d21f278e2c06fdc585",
    "reps-only/reread": "47e13f65cb5bb652ab01aafcd220cb208ed321d52cc7d4d21f278e2c06fdc585",
    "patterns": "9e8723c89ae3627003392dfe297066ae9ee0078e5bcb08e84fcb1633e2dea6c2",
    "patterns/reread": "9e8723c89ae3627003392dfe297066ae9ee0078e5bcb08e84fcb1633e2dea6c2",
    "links": "28ff95eda552923ae9cb3f76f550e1ac056e3d7d027098e9c22296eba90615b7",
    "links/reread": "4bdf6984a6b77676ab6af0c2e231d4531ddb9561e50733fd701167ef16eb7c3a",
    "nested": "117283cec6817aa2f019effc6bf4cc334113f0d273597ba45b436c2b012c44bd",
    "nested/reread": "117283cec6817aa2f019effc6bf4cc334113f0d273597ba45b436c2b012c44bd",
    "file:tests/files/single-fm.sunvox": "ca3eb0ed7d25ba31f4e96888699bf1006de9b262c460da5671fca92f5cfa12c3",
    "file:tests/files/supertracks.sunvox": "1a4f41f039f94d444739fff95eaf10d53a94d0d0dd44e85d154f02043dc61de2",
    "file:tests/files/module-multiselect.sunvox": "8fa3a4e0ed3b0d49c42947823b271d6c73563a18e471d5ef68a4f8326c196d35",
    "file:tests/files/empty.sunvox": "0b58f6338b84cd2a3802ae4d4498957e41279625a5de1be6d0a06cbcba69d362",
}


def expect_raises(label, exc_type, fn):
    try:
        fn()
    except Exception as e:  # noqa
        if type(e) is not exc_type:
            failures.append(f"{label}: raised {type(e).__name__}: {e}")
    else:
        failures.append(f"{label}: did not raise")


def ids_until_error(gen, exc_type, label):
    ids = []
    try:
        for cid, _ in gen:
            ids.append(cid)
    except Exception as e:  # noqa
        if type(e) is not exc_type:
            failures.append(f"{label}: raised {type(e).__name__}: {e}")
        return ids
    failures.append(f"{label}: did not raise")
    return ids


def accessor_cases():
    # Note.raw_data
    n = Note(note=NOTE.C4, vel=129, module=0xFFFF, ctl=0x1234, val=0xABCD)
    check(n.raw_data == bytes([int(NOTE.C4), 129]) + b"\xff\xff\x34\x12\xcd\xab", "note pack")
    n2 = Note()
    n2.raw_data = n.raw_data
    check(
        (n2.note, n2.vel, n2.module, n2.ctl, n2.val)
        == (int(NOTE.C4), 129, 0xFFFF, 0x1234, 0xABCD),
        "note unpack",
    )
    check(type(n2.note) is int and type(n2.vel) is int, "note unpack keeps plain ints")
    n2.raw_data = bytearray(b"\x80\x00\x01\x00\x02\x00\x03\x00")
    check((n2.note, n2.module, n2.ctl, n2.val) == (128, 1, 2, 3), "note from bytearray")
    before = n2.raw_data
    expect_raises("note short", struct.error, lambda: setattr(n2, "raw_data", b"\1" * 7))
    expect_raises("note long", struct.error, lambda: setattr(n2, "raw_data", b"\1" * 9))
    check(n2.raw_data == before, "failed note assignment left it untouched")
    n3 = Note()
    n3.vel = 256
    expect_raises("note vel 256", struct.error, lambda: n3.raw_data)
    n3 = Note()
    n3.ctl = -1
    expect_raises("note ctl -1", struct.error, lambda: n3.raw_data)
    c = n.clone()
    check(c is not n and c.raw_data == n.raw_data and c.pattern is None, "note clone")
    check(type(c.note) is type(n.note), "clone keeps note type")
    check(Note().raw_data == b"\0" * 8, "empty note")

    # Pattern.raw_data
    pat = Pattern(tracks=3, lines=4)
    fill_pattern(pat, 1)
    raw = pat.raw_data
    check(len(raw) == 96, "pattern raw size")
    check(raw == b"".join(nn.raw_data for ln in pat.data for nn in ln), "pattern raw order")
    other = Pattern(tracks=3, lines=4)
    other.raw_data = raw
    check(other.raw_data == raw, "pattern raw roundtrip")
    other = Pattern(tracks=3, lines=4)
    other.raw_data = raw + b"extra bytes are ignored"
    check(other.raw_data == raw, "pattern raw with trailing bytes")
    other = Pattern(tracks=4, lines=3)  # same size, different shape
    other.raw_data = raw
    check(other.raw_data == raw, "pattern raw reshape")
    check(other.data[1][0].raw_data == raw[32:40], "pattern raw reshape index")
    # short data: notes up to the cut are assigned, then struct.error
    other = Pattern(tracks=3, lines=4)
    expect_raises("pattern short", struct.error, lambda: setattr(other, "raw_data", raw[:43]))
    got = other.raw_data
    check(got[:40] == raw[:40] and got[40:] == b"\0" * 56, "pattern partial assignment")
    other = Pattern(tracks=2, lines=2)
    other.raw_data = memoryview(bytes(range(32)))
    check(other.raw_data == bytes(range(32)), "pattern raw from memoryview")
    # lines grown after the data was allocated
    other = Pattern(tracks=2, lines=2)
    other.data
    other.lines = 3
    expect_raises("pattern lines>data", IndexError, lambda: setattr(other, "raw_data", bytes(48)))
    other = Pattern(tracks=2, lines=2)
    other.data
    other.tracks = 1
    other.raw_data = bytes(range(16))
    check(
        other.data[0][0].raw_data == bytes(range(8))
        and other.data[1][0].raw_data == bytes(range(8, 16))
        and other.data[0][1].raw_data == b"\0" * 8,
        "pattern tracks shrunk",
    )

    # Pattern.iff_chunks laziness / errors
    pat = Pattern(tracks=2, lines=2)
    pat.y_size = -1
    check(
        ids_until_error(pat.iff_chunks(), struct.error, "PYSZ -1")
        == [b"PDTA", b"PCHN", b"PLIN"],
        "prefix before bad PYSZ",
    )
    pat = Pattern(tracks=2, lines=2, fg_color=(1, 2))
    check(
        ids_until_error(pat.iff_chunks(), struct.error, "PFGC arity")[-1] == b"PICO",
        "prefix before bad PFGC",
    )
    pat = Pattern(tracks=2, lines=2, x=2**31)
    check(
        ids_until_error(pat.iff_chunks(), struct.error, "PXXX range")[-1] == b"PFFF",
        "prefix before bad PXXX",
    )
    pat = Pattern(tracks=2, lines=2, name=5)
    check(
        ids_until_error(pat.iff_chunks(), AttributeError, "PNME int") == [b"PDTA"],
        "prefix before bad PNME",
    )
    clone = PatternClone(source=-1)
    check(ids_until_error(clone.iff_chunks(), struct.error, "PPAR -1") == [], "PPAR -1")
    clone = PatternClone(source=2, y="7")
    check(
        ids_until_error(clone.iff_chunks(), struct.error, "PYYY str")
        == [b"PPAR", b"PFFF", b"PXXX"],
        "clone prefix",
    )
    check(
        list(PatternClone(source=3, x=-1, y=2).iff_chunks())
        == [
            (b"PPAR", b"\3\0\0\0"),
            (b"PFFF", b"\1\0\0\0"),
            (b"PXXX", b"\xff\xff\xff\xff"),
            (b"PYYY", b"\2\0\0\0"),
        ],
        "clone chunks",
    )

    # ControllerMidiMap.cmid_data
    mm = ControllerMidiMap()
    check(mm.cmid_data == b"\0\0\0\0\0\0\0\xff", "cmid default")
    for mt in MidiMessageType:
        for sl in Slope:
            mm = ControllerMidiMap()
            mm.message_type, mm.slope = mt, sl
            mm.channel, mm.message_parameter = 15, 0xBEEF
            exp = bytes([mt.value, 15, sl.value, 0, 0xEF, 0xBE, 0])
            exp += b"\xff" if mt is MidiMessageType.unset else b"\xc8"
            check(mm.cmid_data == exp, f"cmid {mt} {sl}")
            mm2 = ControllerMidiMap()
            mm2.cmid_data = exp
            check(
                (mm2.message_type, mm2.slope, mm2.channel, mm2.message_parameter)
                == (mt, sl, 15, 0xBEEF),
                f"cmid set {mt} {sl}",
            )
    mm = ControllerMidiMap()
    mm.cmid_data = b"\x03\x02\x01\x99\x34\x12\x77\x00"  # reserved bytes ignored
    check(mm.cmid_data == b"\x03\x02\x01\x00\x34\x12\x00\xc8", "cmid reserved bytes")
    # invalid message type: channel/parameter already taken, type/slope untouched
    mm = ControllerMidiMap()
    mm.slope = Slope.cut
    expect_raises("cmid bad type", ValueError, lambda: setattr(mm, "cmid_data", b"\x09\x07\x05\0\x11\x22\0\0"))
    check(
        (mm.channel, mm.message_parameter, mm.message_type, mm.slope)
        == (7, 0x2211, MidiMessageType.unset, Slope.cut),
        "cmid partial after bad type",
    )
    mm = ControllerMidiMap()
    expect_raises("cmid bad slope", ValueError, lambda: setattr(mm, "cmid_data", b"\x02\x07\x06\0\x11\x22\0\0"))
    check(
        (mm.channel, mm.message_type, mm.slope)
        == (7, MidiMessageType.key_pressure, Slope.linear),
        "cmid partial after bad slope",
    )
    mm = ControllerMidiMap()
    mm.channel = 3
    expect_raises("cmid short", struct.error, lambda: setattr(mm, "cmid_data", b"\1" * 7))
    check(mm.channel == 3, "cmid short leaves state")
    mm = ControllerMidiMap()
    mm.channel = 256
    expect_raises("cmid channel 256", struct.error, lambda: mm.cmid_data)
    mm = ControllerMidiMap()
    mm.message_type = 3
    expect_raises("cmid int type", AttributeError, lambda: mm.cmid_data)
    mm = ControllerMidiMap()
    mm.slope = None
    expect_raises("cmid None slope", AttributeError, lambda: mm.cmid_data)


def project_error_cases():
    def prefix(p, exc, label):
        return ids_until_error(p.chunks(), exc, label)

    p = Project()
    p.initial_tpl = -1
    check(prefix(p, struct.error, "SPED")[-1] == b"BPM ", "prefix before bad SPED")
    p = Project()
    p.modules_y_offset = 2**31
    check(prefix(p, struct.error, "MYOF")[-1] == b"MXOF", "prefix before bad MYOF")
    p = Project()
    p.timeline_position = 2**31
    check(prefix(p, struct.error, "TIME")[-1] == b"CURL", "prefix before bad TIME")
    p = Project()
    p.restart_position = "x"
    check(prefix(p, struct.error, "REPS")[-1] == b"CURL", "prefix before bad REPS")
    p = Project()
    p.timeline_position = 1
    p.restart_position = 2**40
    check(prefix(p, struct.error, "REPS2")[-1] == b"TIME", "TIME written before bad REPS")
    p = Project()
    p.selected_generator = 2**31
    check(prefix(p, struct.error, "LGEN")[-1] == b"SELS", "prefix before bad LGEN")
    p = Project()
    p.sunvox_version = (1, 2, 3)
    check(prefix(p, struct.error, "VERS") == [b"SVOX"], "prefix before bad VERS")
    p = Project()
    p.receive_sync_other = None
    check(prefix(p, TypeError, "SFGS")[-1] == b"FLGS", "prefix before bad SFGS")
    p = Project()
    p.name = None
    check(prefix(p, AttributeError, "NAME")[-1] == b"GVOL", "prefix before bad NAME")
    # 0.0 / False count as zero for the optional chunks
    p = Project()
    p.timeline_position = 0.0
    p.restart_position = False
    check(p.read() == Project().read(), "float/bool zero positions skipped")

    # links
    p = Project()
    a = p.new_module(m.Amplifier)
    a.in_links = [0]
    a.in_link_slots = [0, 0]  # inconsistent lengths
    ids = prefix(p, struct.error, "slot arity")
    check(ids[-1] == b"SMIP" and ids.count(b"SEND") == 1, f"slots packed before SLNK {ids[-2:]}")
    p = Project()
    a = p.new_module(m.Amplifier)
    a.in_links = []
    a.in_link_slots = [5]  # ignored when there are no links
    data = p.read()
    q = Project()
    q.new_module(m.Amplifier)
    check(data == q.read(), "slots ignored without links")
    p = Project()
    a = p.new_module(m.Amplifier)
    a.in_links = (0, -1)  # tuples work too
    a.in_link_slots = (-1, 0)
    ids = [c for c, _ in p.chunks()]
    check(b"SLNK" in ids and b"SLnK" not in ids, "-1/0 slots do not trigger SLnK")
    a.in_link_slots = (0, 1)
    ids = [c for c, _ in p.chunks()]
    check(ids[ids.index(b"SLNK", ids.index(b"SEND")) + 1] == b"SLnK", "SLnK follows SLNK")
    a.in_links = [2**31]
    a.in_link_slots = [0]
    check(prefix(p, struct.error, "SLNK range")[-1] == b"SMIP", "bad link value")

    # controllers
    p = Project()
    a = p.new_module(m.Amplifier)
    a.controller_values["balance"] = 2**40
    ids = prefix(p, struct.error, "CVAL range")
    check(ids[-2:] == [b"CVAL", b"CVAL"] or ids[-1] == b"CVAL", f"CVALs before bad one {ids[-3:]}")
    n_before = list(type(a).controllers).index("balance")
    check(ids.count(b"CVAL") == n_before, f"CVAL count before failure {ids.count(b'CVAL')}")
    p = Project()
    a = p.new_module(m.Amplifier)
    a.controller_midi_maps.clear()
    p.read()
    check(
        list(a.controller_midi_maps) == list(type(a).controllers),
        "midi map entries created on write, in controller order",
    )
    p = Project()
    a = p.new_module(m.Amplifier)
    a.controller_midi_maps["volume"].channel = 999
    ids = prefix(p, struct.error, "CMID range")
    check(ids[-1] == b"CVAL", "all CVALs before failing CMID")


def main():
    outputs = {}
    for label, project in build_projects().items():
        data = project.read()
        verify_project(project, data, label)
        outputs[label] = data
        check(project.read() == data, f"{label}: unstable output")
        buf = BytesIO()
        project.write_to(buf)
        check(buf.getvalue() == data, f"{label}: write_to != read")
        again = read_sunvox_file(BytesIO(data))
        # (not always identical to data: the reader normalizes a few things)
        outputs[label + "/reread"] = again.read()

    for name in (
        "tests/files/single-fm.sunvox",
        "tests/files/supertracks.sunvox",
        "tests/files/module-multiselect.sunvox",
        "tests/files/empty.sunvox",
    ):
        with open(name, "rb") as f:
            project = read_sunvox_file(f)
        data = project.read()
        verify_project(project, data, name)
        outputs["file:" + name] = data

    accessor_cases()
    project_error_cases()

    digests = {k: hashlib.sha256(v).hexdigest() for k, v in outputs.items()}
    if "--print" in sys.argv:
        for k, v in digests.items():
            print(f'    "{k}": "{v}",')
        if failures:
            print("FAILURES", failures, file=sys.stderr)
        return 0
    check(set(digests) == set(GOLDEN), "golden key set differs")
    for k, v in digests.items():
        check(GOLDEN.get(k) == v, f"{k}: digest {v} != golden {GOLDEN.get(k)}")

    if failures:
        print("FAIL")
        for f in failures:
            print("  -", f)
        return 1
    print(f"PASS ({len(outputs)} serialized objects checked)")
    return 0


if __name__ == "__main__":
    sys.exit(main())
