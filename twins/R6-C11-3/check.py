"""Behaviour check for the options code paths, end to end.

 * the code-generation template: rendered for the five real option-bearing
   module types (must reproduce the Option declarations of the committed base
   classes, in order) and for synthetic specs exercising every branch
   (min/max with and without `inverted`, a 0 minimum, one-sided bounds,
   number 0, exclusive_of, enum defaults);
 * ModuleMeta's collection of options (names, order, identity, inheritance);
 * Module.__init__ keyword handling for options;
 * Option.__get__/__set__ (clamp, coercion, inversion, exclusion, hooks);
 * Module.specialized_iff_chunks / options_chunks / load_options.
"""
import itertools
import pathlib
import random
import struct
import sys

from jinja2 import Environment, FileSystemLoader, PrefixLoader
from stringcase import camelcase, pascalcase

import genrv
import rv.api  # noqa: F401
import yaml
from genrv.tools.generate import enumname
from rv.modules import MODULE_CLASSES
from rv.modules.module import Chunk, Module
from rv.option import Option

failures = []


def expect(cond, msg):
    if not cond:
        failures.append(msg)


def ident(a, b):
    return type(a) is type(b) and a == b


classes = sorted({c for c in MODULE_CLASSES.values() if c.options}, key=lambda c: c.__name__)
expect(len(classes) == 5 and sum(len(c.options) for c in classes) == 49, "5 types / 49 options")

# ---------------------------------------------------------------- template --
gen_dir = pathlib.Path(genrv.__file__).parent / "codegen"
env = Environment(
    loader=PrefixLoader({n: FileSystemLoader(gen_dir / n) for n in ("python", "ts")})
)
env.filters.update(camelcase=camelcase, enumname=enumname, hex=hex, pascalcase=pascalcase, repr=repr)
template = env.get_template("python/base_module.py.jinja2")


def render_class(modtype_name, modtype):
    import black

    ctlmap = {}
    for ctls in modtype.get("controllers", []):
        ctlmap.update(ctls)
    text = template.render(modtype=modtype, modtype_name=modtype_name, ctlmap=ctlmap)
    text = black.format_str(text, mode=black.FileMode())
    ns = {}
    exec(compile(text, "<rendered %s>" % modtype_name, "exec"), ns)
    return ns["Base" + modtype_name], text


def declared_options(klass):
    return [(k, v) for k, v in vars(klass).items() if isinstance(v, Option)]


spec_path = pathlib.Path.cwd() / "specs" / "fileformat.yaml"
with spec_path.open() as f:
    fileformat = yaml.safe_load(f)

with_options = [n for n, mt in fileformat["module_types"].items() if mt.get("options")]
expect(len(with_options) == 5, "five module types declare options in the spec")
for modtype_name in with_options:
    modtype = fileformat["module_types"][modtype_name]
    rendered, text = render_class(modtype_name, modtype)
    module = __import__("rv.modules.base." + modtype_name.lower(), fromlist=["x"])
    committed = getattr(module, "Base" + modtype_name)
    got, want = declared_options(rendered), declared_options(committed)
    expect([k for k, _ in got] == [k for k, _ in want], modtype_name + ": option order")
    for (k, a), (_, b) in zip(got, want):
        expect(a == b and repr(a) == repr(b), "%s.%s: %r != %r" % (modtype_name, k, a, b))
    spec_names = [n for opt in modtype["options"] for n in opt]
    expect([k for k, _ in got] == spec_names, modtype_name + ": spec order kept")
    expect(text.count(" = Option(") == len(spec_names), "one Option() per spec entry")
# a type without options imports nothing from rv.option
_, text = render_class("Amplifier", fileformat["module_types"]["Amplifier"])
expect("Option" not in text, "no Option import without options")

synthetic = {
    "type": "Synthetic",
    "group": "Misc",
    "defaultFlags": 0x49,
    "enums": {"Mode": {"first": 0, "second": 1, "third": 2}},
    "options_chnm": 1,
    "options": [
        {"plain": {"byte": 0, "bit": 0, "size": 1, "default": False}},
        {"numbered": {"number": 0x7F, "byte": 0, "bit": 1, "size": 1, "default": True}},
        {"number_zero": {"number": 0, "byte": 0, "bit": 2, "size": 1, "default": False}},
        {"inv": {"byte": 0, "bit": 3, "size": 1, "default": True, "inverted": True}},
        {"inv_false": {"byte": 0, "bit": 4, "size": 1, "default": True, "inverted": False}},
        {"ranged0": {"byte": 1, "bit": 0, "size": 8, "min": 0, "max": 96, "default": 0}},
        {"ranged_neg": {"byte": 2, "bit": 0, "size": 8, "min": -4, "max": 0, "default": -1}},
        {"ranged_inv": {"byte": 3, "bit": 0, "size": 4, "min": 1, "max": 9, "default": 2, "inverted": True}},
        {"min_only": {"byte": 3, "bit": 4, "size": 2, "min": 1, "default": 1}},
        {"max_only_inv": {"byte": 3, "bit": 6, "size": 1, "max": 1, "default": False, "inverted": True}},
        {"ex_a": {"byte": 4, "bit": 0, "size": 1, "default": False, "exclusive_of": ["ex_b", "plain"]}},
        {"ex_b": {"byte": 4, "bit": 1, "size": 1, "default": False, "exclusive_of": ["ex_a"]}},
        {"ex_none": {"byte": 4, "bit": 2, "size": 1, "default": False, "exclusive_of": []}},
        {"mode": {"byte": 5, "bit": 0, "size": 2, "enum": "Mode", "default": "second"}},
        {"two": {"byte": 6, "bit": 0, "size": 1, "default": False},
         "in_one_entry": {"byte": 6, "bit": 1, "size": 1, "default": True}},
    ],
}
rendered, text = render_class("Synthetic", synthetic)
got = dict(declared_options(rendered))
expected = {}
for entry in synthetic["options"]:
    for name, spec in entry.items():
        kw = dict(name=name, byte=spec["byte"], bit=spec["bit"], size=spec["size"])
        if spec.get("number"):
            kw["number"] = spec["number"]
        if "min" in spec and "max" in spec:
            kw["min"], kw["max"] = spec["min"], spec["max"]
        elif spec.get("inverted"):
            kw["inverted"] = True
        if spec.get("exclusive_of"):
            kw["exclusive_of"] = list(spec["exclusive_of"])
        if spec.get("enum"):
            kw["default"] = getattr(getattr(rendered, spec["enum"]), spec["default"])
        else:
            kw["default"] = spec["default"]
        expected[name] = Option(**kw)
expect(list(got) == list(expected), "synthetic: names/order %r" % list(got))
for name in expected:
    expect(got.get(name) == expected[name], "synthetic.%s: %r" % (name, got.get(name)))
    expect(repr(got.get(name)) == repr(expected[name]), "synthetic.%s repr" % name)
expect(got["ranged0"].min == 0 and got["ranged0"].max == 96, "a zero minimum is emitted")
expect(got["ranged_inv"].inverted is False, "ranged option never carries inverted")
expect(got["min_only"].min is None and got["max_only_inv"].max is None, "one-sided bounds dropped")
expect(got["max_only_inv"].inverted is True, "inverted kept when not fully ranged")
expect(got["number_zero"].number is None, "number 0 is not emitted")
expect(type(got["mode"].default).__name__ == "Mode" and got["mode"].default == 1, "enum default")

# -------------------------------------------------------------------- meta --
for cls in classes:
    names = [k for k in dir(cls) if isinstance(getattr(cls, k), Option)]
    expect(list(cls.options) == names, cls.__name__ + ": options order follows dir()")
    expect(list(cls.options) == sorted(cls.options), "alphabetical")
    for k, o in cls.options.items():
        expect(getattr(cls, k) is o and o.name == k, "identity of %s" % k)
    base = [b for b in cls.__mro__ if b.__name__ == "Base" + cls.__name__][0]
    expect(set(cls.options) == {k for k, _ in declared_options(base)}, "inherited from base class")
    expect(cls.options is not Module.options, "own dict")
expect(Module.options == {} and MODULE_CLASSES["Amplifier"].options == {}, "no options elsewhere")
expect(type(classes[0].options) is dict, "plain dict")

# ---------------------------------------------------------------- __init__ --
MM = MODULE_CLASSES["MetaModule"]
MS = MODULE_CLASSES["MultiSynth"]
AG = MODULE_CLASSES["Analog generator"]
for cls in classes:
    m = cls()
    order = {}
    for k, o in cls.options.items():
        order.setdefault(k)
        for other in o.exclusive_of:
            order.setdefault(other)
    expect(list(m.option_values) == list(order), "option_values filled in options order")
    for k, o in cls.options.items():
        expect(getattr(m, k) == o.default, "%s.%s default" % (cls.__name__, k))
        want_stored = (not o.default) if (o.inverted and o.size == 1) else o.default
        expect(m.option_values[k] == want_stored, "%s.%s stored default" % (cls.__name__, k))
m = MM(user_defined_controllers=500, event_output=0, arpeggiator="yes", dummy5=None)
expect(ident(m.user_defined_controllers, 96), "kw clamped")
expect(m.event_output is False and m.option_values["event_output"] is True, "kw inverted")
expect(m.arpeggiator is True and m.dummy5 is False, "kw coerced")
m = MM(user_defined_controllers=-1)
expect(ident(m.user_defined_controllers, 0), "kw clamped low")
m = MM(receive_notes_from_keyboard=True, do_not_receive_notes_from_keyboard=True)
# options are applied in (alphabetical) options order, the later one wins
expect(m.do_not_receive_notes_from_keyboard is False and m.receive_notes_from_keyboard is True,
       "kw exclusion order")
m = MS(round_note_x=True, round_pitch_y=True)
expect(m.round_note_x is False and m.round_pitch_y is True, "kw exclusion order (MultiSynth)")
m = MS(active_curve=MS.ActiveCurve.velocity_velocity)
expect(m.active_curve is MS.ActiveCurve.velocity_velocity, "enum kw kept as given")
m = AG(smooth_frequency_change=False)
expect(m.smooth_frequency_change is False and m.option_values["smooth_frequency_change"] is True, "AG inverted")
m = MM(arpeggiator=None)  # an explicit None is used, not replaced by the default
expect(m.arpeggiator is False, "explicit None kw")


# -------------------------------------------------------------- descriptor --
class Host:
    ranged = Option("ranged", 0, 0, 8, 0, min=0, max=96)
    ranged_inv = Option("ranged_inv", 1, 0, 8, 3, min=-5, max=5, inverted=True)
    half = Option("half", 2, 0, 8, 0, max=7)
    flag = Option("flag", 3, 0, 1, False)
    inv = Option("inv", 3, 1, 1, True, inverted=True)
    wide = Option("wide", 3, 2, 3, 0)
    a = Option("a", 5, 0, 1, False, exclusive_of=["b", "c"])
    b = Option("b", 5, 1, 1, False, exclusive_of=["a"])
    c = Option("c", 5, 2, 3, 0)
    selfish = Option("selfish", 6, 0, 1, False, exclusive_of=["selfish"])

    def __init__(self):
        self.option_values = {}
        self.log = []

    def on_a_changed(self, v):
        self.log.append(("a", v, dict(self.option_values)))

    def on_b_changed(self, v):
        self.log.append(("b", v, dict(self.option_values)))

    on_c_changed = 17

    def on_selfish_changed(self, v):
        self.log.append(("selfish", v, dict(self.option_values)))


expect(Host.ranged is vars(Host)["ranged"], "class access")
h = Host()
for given, want in [(-1, 0), (0, 0), (50, 50), (96, 96), (97, 96), (0.0, 0), (96.0, 96), (9.5, 9.5),
                    (True, True), (False, 0), (float("nan"), 96), (float("inf"), 96)]:
    h.ranged = given
    expect(ident(h.option_values["ranged"], want) and ident(h.ranged, want), "clamp %r" % (given,))
for bad in ("s", None, [1]):
    try:
        h.ranged = bad
    except TypeError:
        pass
    else:
        expect(False, "clamp of %r must raise TypeError" % (bad,))
expect(ident(h.option_values["ranged"], 96), "failed assignment leaves value alone")
for given, stored, logical in [(9, 5, False), (-9, -5, False), (0, 0, True)]:
    h.ranged_inv = given
    expect(ident(h.option_values["ranged_inv"], stored) and ident(h.ranged_inv, logical), "ranged_inv")
for given in (-7, 300, "s", None):
    h.half = given
    expect(h.option_values["half"] is given and h.half is given, "one-sided bound: untouched")
for given in (0, 1, 2, -1, "", "x", None, [], 0.0, True, False):
    h.flag = given
    h.inv = given
    expect(h.option_values["flag"] is bool(given) and h.flag is bool(given), "flag %r" % (given,))
    expect(h.option_values["inv"] is (not given) and h.inv is bool(given), "inv %r" % (given,))
for given in (0, 7, 8, -1, True, "s", None):
    h.wide = given
    expect(h.option_values["wide"] is given and h.wide is given, "wide %r" % (given,))
try:
    Host().flag
except KeyError:
    pass
else:
    expect(False, "unset option read must raise KeyError")
h = Host()
h.c = 5
h.b = 3
expect([e[:2] for e in h.log] == [("b", True), ("a", False)], "hook order b,a")
expect(h.log[0][2] == {"c": 5, "b": True} and h.log[1][2] == {"c": 5, "b": True, "a": False}, "hook timing")
h.log.clear()
h.a = True
expect([e[:2] for e in h.log] == [("a", True), ("b", False)], "hook order a,b; c hook not callable")
expect(h.log[0][2] == {"c": 5, "b": True, "a": True}, "a hook runs before partners are cleared")
expect(h.option_values == {"c": False, "b": False, "a": True} and h.option_values["c"] is False, "cleared")
h.log.clear()
h.selfish = True  # excluded from itself: set, then cleared again
expect([e[:2] for e in h.log] == [("selfish", True), ("selfish", False)] and h.selfish is False, "selfish")


class Boom(Exception):
    pass


h = Host()
def boom(v):
    raise Boom()
h.on_a_changed = boom
try:
    h.a = True
except Boom:
    pass
else:
    expect(False, "hook exception propagates")
expect(h.option_values == {"a": True}, "exception in hook stops before partners: %r" % h.option_values)

# ------------------------------------------------------------------ record --
rng = random.Random(3333)
amp = MODULE_CLASSES["Amplifier"]()
expect(list(amp.specialized_iff_chunks()) == [(None, None)], "placeholder without options")
for cls in classes:
    opts = cls.options

    def expected_record(m):
        cells = [0] * (max(o.byte for o in opts.values()) + 1)
        for n, o in opts.items():
            cells[o.byte] += (int(m.option_values[n]) % 2**o.size) * 2**o.bit
        return bytes(cells)

    def record(m):
        chunks = list(m.options_chunks())
        expect(len(chunks) == 2 and chunks[0] == (b"CHNM", struct.pack("<I", cls.options_chnm)), "CHNM")
        expect(chunks[1][0] == b"CHDT" and type(chunks[1][1]) is bytes, "CHDT")
        return chunks[1][1]

    def reload(data):
        m = cls()
        c = Chunk()
        c.chnm, c.chdt = cls.options_chnm, data
        expect(m.load_options(c) is None, "load_options returns None")
        return m

    def expected_load(data):
        data = bytes(data) + bytes(64)
        out = {}
        for n, o in opts.items():
            v = (data[o.byte] // 2**o.bit) % 2**o.size
            out[n] = bool(v) if o.size == 1 else v
        return out

    def check(m, label):
        before = dict(m.option_values)
        data = record(m)
        expect(dict(m.option_values) == before, "saving does not change values")
        expect(data == expected_record(m), "%s %s record" % (cls.__name__, label))
        back = reload(data)
        want = expected_load(data)
        expect(back.option_values == want and
               all(type(back.option_values[n]) is type(want[n]) for n in want),
               "%s %s load" % (cls.__name__, label))
        expect(all(getattr(back, n) == getattr(m, n) for n in opts), "%s %s round trip" % (cls.__name__, label))

    spec = list(cls().specialized_iff_chunks())
    oc = list(cls().options_chunks())
    expect(any(spec[i : i + 2] == oc for i in range(len(spec))), "options inside specialized chunks")
    expect((None, None) not in spec, "no placeholder when options exist")
    for name, o in opts.items():
        for v in range(2**o.size):
            m = cls()
            setattr(m, name, v)
            check(m, "%s=%d" % (name, v))
    for a, b in itertools.permutations(opts, 2):
        m = cls()
        setattr(m, a, 2 ** opts[a].size - 1)
        setattr(m, b, 2 ** opts[b].size - 1)
        check(m, "%s+%s" % (a, b))
    for i in range(40):
        m = cls()
        order = list(opts)
        rng.shuffle(order)
        for n in order:
            setattr(m, n, rng.randrange(2 ** opts[n].size))
        check(m, "random")
        for n, o in opts.items():
            for other in o.exclusive_of:
                expect(not (getattr(m, n) and getattr(m, other)), "never both on")
    for i in range(20):
        m = cls()
        for n in opts:
            m.option_values[n] = rng.choice([True, False, -1, -2, 255, 256, 1023, rng.randrange(-500, 500)])
        expect(record(m) == expected_record(m), "raw values are masked")
    blob = bytes(rng.randrange(256) for _ in range(80))
    for n in (0, 1, 4, 7, 8, 63, 64, 65, 80):
        for payload in (blob[:n], bytearray(blob[:n]), list(blob[:n])):
            back = reload(payload)
            expect(back.option_values == expected_load(blob[:n]), "load of %d bytes" % n)
            expect(len(payload) == n, "input not modified")
    m = cls()
    m.option_values[list(opts)[-1]] = None
    g = m.options_chunks()  # nothing happens until iteration starts
    try:
        next(g)
    except TypeError:
        pass
    else:
        expect(False, "None stored value must raise TypeError")
    try:
        cls().load_options(Chunk())
    except TypeError:
        pass
    else:
        expect(False, "chdt None must raise TypeError")

if failures:
    print("FAIL (%d)" % len(failures))
    for f in failures[:25]:
        print("  ", f)
    sys.exit(1)
print("PASS")
