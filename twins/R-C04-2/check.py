"""Behaviour check for SunVoxReader: project set-up (process_chunks), nested module
sections (process_SFFF/process_SEND) and the end-of-file fix-ups (trailing empty
modules, synthesised link slots, generated out links, legacy module high byte,
BVER default).

Run from the repository root:
    PYTHONPATH=<root>/src/python python check.py
"""
import io
import logging
import os
import struct
import sys
import tempfile
from pathlib import Path

from rv.api import Project, Synth, read_sunvox_file
from rv.lib.iff import chunks as lib_chunks
from rv.readers.reader import Reader, ReaderFinished

logging.getLogger("rv").addHandler(logging.NullHandler())  # keep stderr quiet
ROOT = Path(os.getcwd())
FILES = ROOT / "tests" / "files"
FAILURES = []


def check(cond, msg):
    if not cond:
        FAILURES.append(msg)
        print("FAIL:", msg)


# --------------------------------------------------------------------------
# independent chunk-level codec (does not use the library)
# --------------------------------------------------------------------------
def parse(raw):
    out = []
    pos = 0
    while pos + 8 <= len(raw):
        name = raw[pos : pos + 4]
        (size,) = struct.unpack_from("<I", raw, pos + 4)
        out.append((name, raw[pos + 8 : pos + 8 + size]))
        pos += 8 + size
    return out


def encode(items):
    return b"".join(n + struct.pack("<I", len(d)) + d for n, d in items)


def u32(v):
    return struct.pack("<I", v)


def i32(v):
    return struct.pack("<i", v)


# --------------------------------------------------------------------------
# snapshot of everything public that loading sets
# --------------------------------------------------------------------------
PROJECT_ATTRS = [
    "loaded_sunvox_version", "based_on_version", "flags", "receive_sync_midi",
    "receive_sync_other", "initial_bpm", "initial_tpl", "time_grid", "time_grid2",
    "global_volume", "name", "modules_scale", "modules_zoom", "modules_x_offset",
    "modules_y_offset", "modules_layer_mask", "modules_current_layer",
    "timeline_position", "restart_position", "selected_module",
    "selected_generator", "current_pattern", "current_track", "current_line",
]
MODULE_ATTRS = [
    "index", "flags", "name", "mtype", "mod_finetune", "mod_relative_note", "x", "y",
    "layer", "mod_scale", "visualization", "color", "midi_in_always",
    "midi_in_channel", "midi_out_name", "midi_out_channel", "midi_out_bank",
    "midi_out_program",
]
PATTERN_ATTRS = [
    "name", "tracks", "lines", "y_size", "flags_PFLG", "icon", "fg_color", "bg_color",
    "flags_PFFF", "x", "y", "source",
]


def snap_module(mod):
    if mod is None:
        return None
    d = {"class": type(mod).__name__}
    for a in MODULE_ATTRS:
        d[a] = getattr(mod, a, "<absent>")
    if d["visualization"] != "<absent>":
        d["visualization"] = int(d["visualization"])
    d["color"] = tuple(d["color"]) if d["color"] != "<absent>" else d["color"]
    for a in ("in_links", "in_link_slots", "out_links", "out_link_slots"):
        d[a] = list(getattr(mod, a))
    d["controllers"] = {n: repr(getattr(mod, n)) for n in mod.controllers}
    d["controllers_loaded"] = sorted(mod.controllers_loaded)
    d["cmid"] = {
        n: bytes(m.cmid_data) for n, m in mod.controller_midi_maps.items()
    }
    d["specialized"] = [
        (n, x if x is None else bytes(x)) for n, x in mod.specialized_iff_chunks()
    ]
    return d


def snap_pattern(pat):
    if pat is None:
        return None
    d = {"class": type(pat).__name__}
    for a in PATTERN_ATTRS:
        v = getattr(pat, a, "<absent>")
        d[a] = bytes(v) if isinstance(v, (bytes, bytearray)) else v
    if hasattr(pat, "raw_data"):
        d["raw_data"] = bytes(pat.raw_data)
    return d


def snapshot(obj):
    if isinstance(obj, Synth):
        return {
            "kind": "synth",
            "loaded_sunsynth_version": obj.loaded_sunsynth_version,
            "module": snap_module(obj.module),
            "written": obj.read(),
        }
    check(isinstance(obj, Project), "unexpected object type %r" % type(obj))
    d = {"kind": "project"}
    for a in PROJECT_ATTRS:
        d[a] = getattr(obj, a)
    d["modules"] = [snap_module(m) for m in obj.modules]
    d["output_is_module0"] = obj.output is obj.modules[0] if obj.modules else None
    d["patterns"] = [snap_pattern(p) for p in obj.patterns]
    d["written"] = obj.read()
    return d


def load(raw):
    return read_sunvox_file(io.BytesIO(raw))


def diff_keys(a, b):
    return sorted(k for k in set(a) | set(b) if a.get(k) != b.get(k))


# --------------------------------------------------------------------------
# log capture
# --------------------------------------------------------------------------
class Capture(logging.Handler):
    def __init__(self):
        super().__init__(level=logging.DEBUG)
        self.records = []

    def emit(self, record):
        self.records.append((record.name, record.levelname, record.getMessage()))


def capture_logs():
    cap = Capture()
    logger = logging.getLogger("rv")
    logger.addHandler(cap)
    logger.setLevel(logging.DEBUG)
    return cap


def release_logs(cap):
    logger = logging.getLogger("rv")
    logger.removeHandler(cap)
    logger.setLevel(logging.NOTSET)


def module_chunks(mtype, name, flags, x, y, links=None, cvals=(), extra=()):
    out = [
        (b"SFFF", u32(flags)),
        (b"SNAM", name.encode() + b"\0" * (32 - len(name))),
    ]
    if mtype is not None:
        out.append((b"STYP", mtype.encode() + b"\0"))
    out += [
        (b"SFIN", i32(-3)),
        (b"SREL", i32(2)),
        (b"SXXX", i32(x)),
        (b"SYYY", i32(y)),
        (b"SZZZ", u32(1)),
        (b"SSCL", u32(256)),
        (b"SCOL", bytes([10, 20, 30])),
        (b"SMII", u32((5 << 1) | 1)),
        (b"SMIC", i32(3)),
        (b"SMIB", i32(-1)),
        (b"SMIP", i32(7)),
    ]
    out += list(extra)
    if links is not None:
        out.append((b"SLNK", b"".join(i32(v) for v in links)))
    out += [(b"CVAL", i32(v)) for v in cvals]
    out.append((b"SEND", b""))
    return out



import random

from rv.readers.sunvox import SunVoxReader


HEADER = [
    (b"SVOX", b""),
    (b"VERS", bytes([1, 2, 1, 2])),
    (b"BVER", bytes([1, 2, 1, 2])),
    (b"BPM ", u32(125)),
    (b"SPED", u32(6)),
]
TYPES = ["Amplifier", "Generator", "Filter", "Reverb", "Delay", "Echo"]


def simple_module(i, links, slots=None, n_cvals=0):
    extra = []
    mtype = None if i == 0 else TYPES[i % len(TYPES)]
    out = module_chunks(mtype, "m%d" % i, 0x49, i * 10, -i, links=None, cvals=())
    out.pop()  # SEND
    out.append((b"SLNK", b"".join(i32(v) for v in links)))
    if slots is not None:
        out.append((b"SLnK", b"".join(i32(v) for v in slots)))
    out += [(b"CVAL", i32(1 + k)) for k in range(n_cvals)]
    out.append((b"SEND", b""))
    return out


def build(mods, header=HEADER, patterns=()):
    """mods: list of None | (links, slots-or-None)"""
    items = list(header) + list(patterns)
    for i, m in enumerate(mods):
        if m is None:
            items.append((b"SEND", b""))
        else:
            items += simple_module(i, m[0], m[1], n_cvals=i % 3)
    return encode(items)


# ---- reference model of the documented link resolution ----------------------
def rstrip_minus1(seq):
    seq = list(seq)
    while seq and seq[-1] == -1:
        del seq[-1]
    return seq


def model_links(mods):
    mods = list(mods)
    while mods and mods[-1] is None:
        del mods[-1]
    state = []
    for m in mods:
        if m is None:
            state.append(None)
            continue
        links, slots = m
        state.append(
            {
                "in": rstrip_minus1(links) if links else [],
                "ins": rstrip_minus1(slots) if slots else [],
                "out": [],
                "outs": [],
            }
        )
    n = len(state)
    for i in list(range(1, n)) + list(range(0, min(1, n))):
        st = state[i]
        if st is None or st["ins"]:
            continue
        for src in st["in"]:
            if src == -1:
                st["ins"].append(-1)
            elif src < n:
                o = state[src]
                st["ins"].append(len(o["outs"]))
                o["out"].append(i)
                o["outs"].append(len(st["ins"]) - 1)
    for i, st in enumerate(state):
        if st is None:
            continue
        for k, src in enumerate(st["in"]):
            slot = st["ins"][k]
            o = state[src]
            assert o is not None
            for key in ("out", "outs"):
                o[key].extend([-1] * (slot + 1 - len(o[key])))
            if slot != -1:
                o["out"][slot] = i
                o["outs"][slot] = k
    return state


def observed_links(proj):
    return [
        None
        if m is None
        else {
            "in": list(m.in_links),
            "ins": list(m.in_link_slots),
            "out": list(m.out_links),
            "outs": list(m.out_link_slots),
        }
        for m in proj.modules
    ]


def random_graph(rng):
    n = rng.randint(1, 9)
    present = [True] + [rng.random() < 0.75 for _ in range(n - 1)]
    alive = [i for i, p in enumerate(present) if p]
    mods = []
    for i in range(n):
        if not present[i]:
            mods.append(None)
            continue
        k = rng.choice([0, 0, 1, 2, 3, 4])
        links = []
        for _ in range(k):
            links.append(-1 if rng.random() < 0.2 else rng.choice(alive))
        slots = None
        if links and rng.random() < 0.35:
            slots = [(-1 if l == -1 else rng.randint(0, 3)) for l in links]
        mods.append((links, slots))
    mods += [None] * rng.choice([0, 0, 1, 3])
    return mods


def test_random_graphs():
    rng = random.Random(20240404)
    ran = 0
    for case in range(400):
        mods = random_graph(rng)
        # with explicit SLnK a link may legitimately have slot -1 only when link is -1;
        # the model and the reader must agree for everything we generate here
        try:
            expect = model_links(mods)
        except (IndexError, AssertionError):
            continue
        proj = load(build(mods))
        got = observed_links(proj)
        ran += 1
        if got != expect:
            check(False, "graph %d %r: got %r expected %r" % (case, mods, got, expect))
            break
        # positions are never rearranged; empty slots stay empty
        want_slots = [m is not None for m in mods]
        while want_slots and not want_slots[-1]:
            want_slots.pop()
        check([m is not None for m in proj.modules] == want_slots, "slot layout %d" % case)
        check(
            all(
                m.index == i and (i == 0 or m.name == "m%d" % i)
                for i, m in enumerate(proj.modules)
                if m
            ),
            "indexes/names %d" % case,
        )
        check(type(proj.modules[0]).__name__ == "Output" and proj.output is proj.modules[0], "output %d" % case)
        for i, m in enumerate(proj.modules):
            if m and i:
                check(type(m).__name__.lower() == TYPES[i % len(TYPES)].lower(), "type at %d" % i)
                first = list(m.controllers)[: i % 3]
                check([m.get_raw(c) for c in first] == list(range(1, 1 + i % 3)), "cvals at %d" % i)
    check(ran > 300, "too few random graphs ran: %d" % ran)


def test_fixture_links_match_model():
    for path in sorted(FILES.rglob("*.sunvox")):
        items = parse(path.read_bytes())
        mods, cur, in_mod = [], None, False
        for name, data in items:
            if name == b"SFFF":
                in_mod, cur = True, [[], None]
            elif name == b"SLNK" and in_mod:
                cur[0] = list(struct.unpack("<%di" % (len(data) // 4), data))
            elif name == b"SLnK" and in_mod:
                cur[1] = list(struct.unpack("<%di" % (len(data) // 4), data))
            elif name == b"SEND":
                mods.append(tuple(cur) if in_mod else None)
                in_mod, cur = False, None
        proj = load(encode(items))
        check(observed_links(proj) == model_links(mods), "%s: links match model" % path.name)
        check(len(proj.modules) == len(model_links(mods)), "%s: module count" % path.name)


def test_link_edge_cases():
    # dangling reference without SLnK: warning, then the generated pass fails the same way
    cap = capture_logs()
    try:
        try:
            load(build([([1], None), ([7], None)]))
            outcome = "ok"
        except Exception as e:
            outcome = type(e).__name__
    finally:
        release_logs(cap)
    warns = [m for (n, lvl, m) in cap.records if n == "rv.readers.sunvox" and lvl == "WARNING"]
    check(warns == ["Found SLNK on 1 referencing non-existent module 7"], "dangling warning %r" % warns)
    check(outcome == "IndexError", "dangling link outcome %r" % outcome)
    # link to an empty slot, slots synthesised -> AttributeError on None
    try:
        load(build([([1], None), None, ([], None)]))
        check(False, "link to empty slot (no SLnK) should fail")
    except AttributeError:
        pass
    # link to an empty slot, explicit SLnK -> bare RuntimeError
    try:
        load(build([([1], [0]), None, ([], None)]))
        check(False, "link to empty slot (SLnK) should fail")
    except RuntimeError as e:
        check(type(e) is RuntimeError and e.args == (), "bare RuntimeError")
    # explicit slots out of order leave -1 padding
    proj = load(build([([1], [2]), ([], None)]))
    check(proj.modules[1].out_links == [-1, -1, 0], "padding %r" % proj.modules[1].out_links)
    check(proj.modules[1].out_link_slots == [-1, -1, 0], "padding slots")
    # only -1 links: slots mirror them after trimming (everything trimmed -> nothing)
    proj = load(build([([-1, -1], None), ([-1, 0, -1], None)]))
    check(proj.modules[0].in_links == [] and proj.modules[0].in_link_slots == [], "all -1 trimmed")
    check(proj.modules[1].in_links == [-1, 0] and proj.modules[1].in_link_slots == [-1, 0], "inner -1 kept")
    check(proj.modules[0].out_links == [1] and proj.modules[0].out_link_slots == [1], "out from inner")
    # non-output modules are resolved before the output module
    proj = load(build([([2], None), ([2], None), ([], None)]))
    check(proj.modules[2].out_links == [1, 0], "order of synthesis %r" % proj.modules[2].out_links)
    # self link
    proj = load(build([([], None), ([1], None)]))
    check(proj.modules[1].out_links == [1] and proj.modules[1].in_link_slots == [0], "self link")
    # only empties / nothing at all
    proj = load(build([None, None]))
    check(proj.modules == [] and proj.patterns == [], "only empty slots")
    proj = load(build([]))
    check(proj.modules == [] and proj.based_on_version == (2, 1, 2, 1), "no modules")
    # module section without STYP at index > 0 is a base Module: cannot be attached
    items = list(HEADER) + simple_module(0, []) + module_chunks(None, "x", 0, 0, 0, links=[])
    try:
        load(encode(items))
        check(False, "base Module attach should raise")
    except RuntimeError as e:
        check(str(e) == "Cannot attach base Module instance.", "base module message")
    # ... but at index 0 it is the Output
    proj = load(encode(list(HEADER) + module_chunks(None, "Out", 0x43, 1, 2, links=[])))
    check(type(proj.modules[0]).__name__ == "Output" and proj.modules[0].x == 1, "output w/o STYP")
    # an empty slot first, then a typed module: index is the position in the file
    proj = load(encode(list(HEADER) + [(b"SEND", b"")] * 3 + simple_module(3, [])))
    check([m is None for m in proj.modules] == [True, True, True, False], "leading empties kept")
    check(proj.modules[3].index == 3, "index after empties")


def pattern_chunks(tracks, lines, data):
    return [
        (b"PDTA", data),
        (b"PCHN", u32(tracks)),
        (b"PLIN", u32(lines)),
        (b"PYSZ", u32(32)),
        (b"PFLG", u32(0)),
        (b"PFFF", u32(0)),
        (b"PXXX", i32(0)),
        (b"PYYY", i32(0)),
        (b"PEND", b""),
    ]


def test_legacy_fixups():
    cell = bytes([1, 2, 0x34, 0x12, 5, 6, 7, 8])
    pats = pattern_chunks(2, 2, cell * 4) + [(b"PEND", b""), (b"PPAR", u32(0)), (b"PFFF", u32(0)), (b"PXXX", i32(0)), (b"PYYY", i32(0)), (b"PEND", b"")]
    for vers, expect_mod in [
        ((1, 9, 4, 255), 0x34),
        ((1, 9, 5, 0), 0x1234),
        ((1, 9, 5, 1), 0x1234),
        ((2, 0, 0, 0), 0x1234),
        ((1, 7, 3, 2), 0x34),
        ((0, 0, 0, 0), 0x34),
    ]:
        for with_bver in (False, True):
            header = [(b"SVOX", b""), (b"VERS", bytes(reversed(vers)))]
            if with_bver:
                header.append((b"BVER", bytes([9, 8, 7, 6])))
            proj = load(build([([], None)], header=header, patterns=pats))
            check(proj.loaded_sunvox_version == vers, "VERS %r" % (vers,))
            check(
                proj.based_on_version == ((6, 7, 8, 9) if with_bver else (1, 7, 0, 0)),
                "BVER default for %r: %r" % (vers, proj.based_on_version),
            )
            mods = [n.module for line in proj.patterns[0].data for n in line]
            check(mods == [expect_mod] * 4, "high byte for %r: %r" % (vers, mods))
            check(proj.patterns[1] is None, "empty pattern slot kept")
            check(type(proj.patterns[2]).__name__ == "PatternClone", "clone kept")
    # no VERS chunk at all: the Project default version decides
    proj = load(build([([], None)], header=[(b"SVOX", b"")], patterns=pats))
    check(proj.loaded_sunvox_version == Project().loaded_sunvox_version, "default loaded version")
    want = 0x34 if Project().loaded_sunvox_version < (1, 9, 5, 0) else 0x1234
    check(proj.patterns[0].data[0][0].module == want, "fix-up follows default version")
    check(proj.based_on_version == (1, 7, 0, 0), "legacy default without VERS")
    # BVER after the modules still wins
    raw = build([([], None)], header=[(b"SVOX", b""), (b"VERS", bytes([0, 0, 0, 2]))]) + encode([(b"BVER", bytes([1, 1, 1, 1]))])
    check(load(raw).based_on_version == (1, 1, 1, 1), "late BVER")


def test_reader_object_protocol():
    raw = (FILES / "single-fm.sunvox").read_bytes()
    f = io.BytesIO(raw)
    f.read(8)  # the SVOX container chunk is consumed by the InitialReader normally
    r = SunVoxReader(f)
    proj = r.object
    check(isinstance(proj, Project) and r.object is proj, "SunVoxReader.object")
    check(snapshot(proj) == snapshot(load(raw)), "direct reader equals entry point")
    # each load gives an independent project with an independent modules list
    a, b = load(raw), load(raw)
    check(a.modules is not b.modules and a.modules[0] is not b.modules[0], "no sharing")
    # a fresh Project has an Output; a loaded one has only what the file had
    check(len(Project().modules) == 1, "fresh project has its output")
    check(len(load(build([])).modules) == 0, "cleared on load")


def test_fixtures_stable_under_trailing_empties():
    for path in sorted(FILES.rglob("*.sunvox")):
        raw = path.read_bytes()
        ref = snapshot(load(raw))
        got = snapshot(load(raw + encode([(b"SEND", b"")] * 4)))
        check(got == ref, "%s: trailing empty modules are trimmed" % path.name)
        got = snapshot(load(raw + encode([(b"PEND", b"")])))
        check(got["patterns"] == ref["patterns"] + [None], "%s: trailing empty pattern kept" % path.name)
        got.pop("patterns"), got.pop("written")
        r2 = dict(ref)
        r2.pop("patterns"), r2.pop("written")
        check(got == r2, "%s: nothing else changed" % path.name)


def main():
    test_random_graphs()
    test_fixture_links_match_model()
    test_link_edge_cases()
    test_legacy_fixups()
    test_reader_object_protocol()
    test_fixtures_stable_under_trailing_empties()
    if FAILURES:
        print("%d failure(s)" % len(FAILURES))
        sys.exit(1)
    print("PASS")


if __name__ == "__main__":
    main()
