"""Behaviour check for Note cell packing and ctl/val sub-field accessors."""
import struct
import sys

import rv.api  # noqa: F401  (import order: avoids the rv.note <-> rv.modules cycle)
from rv.note import NOTECMD, Note
from rv.pattern import Pattern

failures = []


def check(cond, msg):
    if not cond:
        failures.append(msg)


EDGE16 = [0, 1, 0x7F, 0x80, 0xFF, 0x100, 0x1234, 0x7FFF, 0x8000, 0xFF00, 0xFFFE, 0xFFFF]

# 1. encode/decode round trip: every NOTECMD, vel 0..129, edge 16-bit words
for cmd in NOTECMD:
    for vel in (0, 1, 64, 128, 129):
        for module in (0, 1, 0xFFFF):
            for ctl in (0, 0x0107, 0xFFFF):
                for val in (0, 0x8001, 0xFFFF):
                    n = Note(note=cmd, vel=vel, module=module, ctl=ctl, val=val)
                    raw = n.raw_data
                    expect = struct.pack("<BBHHH", int(cmd), vel, module, ctl, val)
                    check(raw == expect and len(raw) == 8, "encode %r" % n)
                    m = Note()
                    m.raw_data = raw
                    check(m == n, "decode %r != %r" % (m, n))
                    check(m.raw_data == raw, "re-encode %r" % n)
                    check(
                        (m.note, m.vel, m.module, m.ctl, m.val)
                        == (int(cmd), vel, module, ctl, val),
                        "fields %r" % m,
                    )
                    c = n.clone()
                    check(c == n and c is not n and c.pattern is None, "clone")
for vel in range(130):
    for w in EDGE16:
        n = Note(note=NOTECMD.C4, vel=vel, module=w, ctl=w ^ 0xFFFF, val=w)
        m = Note()
        m.raw_data = n.raw_data
        check(m == n, "vel/word roundtrip")

# arbitrary bytes load and save back identically; note stays a plain int
for i in range(256):
    raw = bytes([(i * 7 + k * 31) & 0xFF for k in range(8)])
    m = Note()
    m.raw_data = raw
    check(m.raw_data == raw, "raw identity %r" % raw)
    check(type(m.note) is int or isinstance(m.note, int), "note int")
    check(m.controller == raw[5] and m.effect == raw[4], "ctl halves from raw")
    check(m.val_xx == raw[7] and m.val_yy == raw[6], "val halves from raw")

# 2. sub-field setters: every old word (stride + edges) x many new values
olds = sorted(set(list(range(0, 0x10000, 251)) + EDGE16))
news = list(range(-3, 260)) + [0x1FF, 0x100, 0xABCD, -256, 2**40 + 5]
for old in olds:
    for new in news:
        n = Note(ctl=old, val=old ^ 0x5AA5)
        other_val = n.val
        n.controller = new
        check(n.controller == new & 0xFF, "controller set")
        check(n.effect == old & 0xFF, "effect untouched")
        check(n.ctl == (old & 0xFF) | ((new & 0xFF) << 8), "ctl word")
        check(n.val == other_val, "val untouched by controller")

        n = Note(ctl=old, val=old ^ 0x5AA5)
        n.effect = new
        check(n.effect == new & 0xFF, "effect set")
        check(n.controller == old >> 8, "controller untouched")
        check(n.ctl == (old & 0xFF00) | (new & 0xFF), "ctl word 2")
        check(n.val == other_val, "val untouched by effect")

        n = Note(val=old, ctl=old ^ 0x5AA5)
        other_ctl = n.ctl
        n.val_xx = new
        check(n.val_xx == new & 0xFF, "xx set")
        check(n.val_yy == old & 0xFF, "yy untouched")
        check(n.val == (old & 0xFF) | ((new & 0xFF) << 8), "val word")
        check(n.ctl == other_ctl, "ctl untouched by xx")

        n = Note(val=old, ctl=old ^ 0x5AA5)
        n.val_yy = new
        check(n.val_yy == new & 0xFF, "yy set")
        check(n.val_xx == old >> 8, "xx untouched")
        check(n.val == (old & 0xFF00) | (new & 0xFF), "val word 2")
        check(n.ctl == other_ctl, "ctl untouched by yy")

# chained sets, and other attributes untouched
n = Note(note=NOTECMD.NOTE_OFF, vel=129, module=7, ctl=0xFFFF, val=0xFFFF)
n.controller = 0x12
n.effect = 0x34
n.val_xx = 0x56
n.val_yy = 0x78
check((n.ctl, n.val) == (0x1234, 0x5678), "chained")
check((n.note, n.vel, n.module) == (NOTECMD.NOTE_OFF, 129, 7), "others untouched")
check(n.raw_data == bytes([128, 129, 7, 0, 0x34, 0x12, 0x78, 0x56]), "chained raw")

# 3. error types
for bad in (b"", b"\0" * 7, b"\0" * 9):
    try:
        Note().raw_data = bad
        check(False, "short/long raw accepted")
    except struct.error:
        pass
n = Note()
n.ctl = 0x10000
try:
    n.raw_data
    check(False, "out of range ctl packed")
except struct.error:
    pass
for name in ("controller", "effect", "val_xx", "val_yy"):
    n = Note(ctl=0x0102, val=0x0304)
    try:
        setattr(n, name, "x")
        check(False, "str accepted by " + name)
    except TypeError:
        pass
    check((n.ctl, n.val) == (0x0102, 0x0304), "unchanged after error")

# 4. notes inside a pattern
p = Pattern(tracks=3, lines=5)
image = bytes((i * 13 + 5) & 0xFF for i in range(3 * 5 * 8))
p.raw_data = image
check(p.raw_data == image, "pattern identity")
p.data[2][1].controller = 0xAB
exp = bytearray(image)
exp[(2 * 3 + 1) * 8 + 5] = 0xAB
check(p.raw_data == bytes(exp), "pattern after controller set")

if failures:
    print("FAIL", len(failures), failures[:10])
    sys.exit(1)
print("PASS")
