"""Behaviour check for Module.get_raw / Module.set_raw: ranged, enum, bool and
unit-dependent controllers of every module type, plus out-of-range handling
(error type, message, cause, warn-only mode).

Run as: cd <root> && PYTHONPATH=<root>/src/python /venv/bin/python check.py
"""
import logging
import sys
from enum import Enum

import rv.errors
from rv.controller import CompactRange, DependentRange, NoOffsetRange, Range, WarnOnlyRange
from rv.errors import (
    ControllerValueError,
    RangeValidationError,
    override_raise_controller_value_errors,
)
from rv.modules import MODULE_CLASSES

failures = []


def expect(cond, msg):
    if not cond:
        failures.append(msg)
        if len(failures) > 20:
            finish()


def finish():
    if failures:
        for f in failures:
            print("FAIL:", f)
        sys.exit(1)
    print("PASS")
    sys.exit(0)


def same(a, b):
    return type(a) is type(b) and a == b


class Capture(logging.Handler):
    def __init__(self):
        super().__init__()
        self.records = []

    def emit(self, record):
        self.records.append(record)


capture = Capture()
root = logging.getLogger("rv")
root.addHandler(capture)
root.setLevel(logging.DEBUG)
root.propagate = False


def ref_raw(t, v):
    if isinstance(t, NoOffsetRange):
        return v
    return v - t.min if t.min < 0 else v


def assign(mod, name, v):
    # MetaModule user-defined controllers need a project for propagation;
    # store those directly (get_raw only reads the stored value).
    if name.startswith("user_defined_"):
        mod.controller_values[name] = v
    else:
        setattr(mod, name, v)


def probe_values(lo, hi):
    vals = {lo, lo + 1, hi - 1, hi, (lo + hi) // 2, 0, 1, -1}
    vals.update(range(lo, hi + 1, max(1, (hi - lo) // 61)))
    if hi - lo <= 600:
        vals.update(range(lo, hi + 1))
    return sorted(v for v in vals if lo <= v <= hi)


def check_ranged(label, cls, name, mod_kw, t):
    mod = cls(**mod_kw)
    seen = {}
    for v in probe_values(t.min, t.max):
        assign(mod, name, v)
        raw = mod.get_raw(name)
        expect(same(raw, ref_raw(t, v)), f"{label} get_raw({v}) = {raw!r}")
        expect(raw not in seen, f"{label} collision {v} / {seen.get(raw)}")
        seen[raw] = v
        if not isinstance(t, NoOffsetRange):
            expect(raw >= 0, f"{label} negative raw {raw}")
        fresh = cls(**mod_kw)
        fresh.set_raw(name, raw)
        expect(same(fresh.controller_values[name], v), f"{label} set_raw({raw}) -> {fresh.controller_values[name]!r}")
        expect(same(getattr(fresh, name), v), f"{label} attribute after set_raw({raw})")
        expect(fresh.get_raw(name) == raw, f"{label} raw roundtrip {raw}")
    return len(seen)


n_pairs = 0
n_enum = n_bool = n_dep = 0
for mtype, cls in sorted(MODULE_CLASSES.items()):
    for name, ctl in cls.controllers.items():
        vt = ctl.value_type
        label = f"{mtype}.{name}"
        if isinstance(vt, DependentRange):
            n_dep += 1
            for unit in cls.controllers[vt.ctl_name].value_type:
                kw = {vt.ctl_name: unit}
                t = ctl.instance_value_type(cls(**kw))
                expect(t is vt.range_map[unit], f"{label} range for {unit}")
                n_pairs += check_ranged(f"{label}[{unit.name}]", cls, name, kw, t)
            continue
        mod = cls()
        t = ctl.instance_value_type(mod)
        if isinstance(t, Range):
            n_pairs += check_ranged(label, cls, name, {}, t)
        elif isinstance(t, type) and issubclass(t, Enum):
            n_enum += 1
            raws = set()
            for member in t:
                assign(mod, name, member)
                raw = mod.get_raw(name)
                expect(same(raw, int(member.value)), f"{label} enum get_raw {member} = {raw!r}")
                raws.add(raw)
                fresh = cls()
                fresh.set_raw(name, raw)
                expect(fresh.controller_values[name] is member, f"{label} enum set_raw {raw}")
            expect(len(raws) == len(set(m.value for m in t)), f"{label} enum collisions")
            # a raw value that is no member is a ValueError (unchanged error type)
            bad = max(int(m.value) for m in t) + 1000
            try:
                cls().set_raw(name, bad)
            except ValueError:
                pass
            else:
                expect(False, f"{label} enum set_raw({bad}) must raise ValueError")
        elif t is bool:
            n_bool += 1
            for b in (False, True):
                assign(mod, name, b)
                expect(same(mod.get_raw(name), int(b)), f"{label} bool get_raw {b}")
                fresh = cls()
                fresh.set_raw(name, int(b))
                expect(fresh.controller_values[name] is b, f"{label} bool set_raw {int(b)}")
            fresh = cls()
            fresh.set_raw(name, 7)
            expect(fresh.controller_values[name] is True, f"{label} bool set_raw 7")
        else:
            expect(False, f"{label} unexpected value type {t!r}")
expect(n_pairs > 20000, f"too few ranged pairs: {n_pairs}")
expect(n_enum > 100 and n_bool >= 40 and n_dep == 6, f"coverage {n_enum} {n_bool} {n_dep}")

# --- None (unset) controllers are stored as 0 before conversion ------------
amp = MODULE_CLASSES["Amplifier"]()
amp.controller_values["balance"] = None      # Range(-128, 128)
expect(same(amp.get_raw("balance"), 128), "None on negative-min range -> 0 - min")
amp.controller_values["volume"] = None       # Range(0, 1024)
expect(same(amp.get_raw("volume"), 0), "None on non-negative range -> 0")
amp.controller_values["inverse"] = None      # bool
expect(same(amp.get_raw("inverse"), 0), "None on bool -> 0")
vp = MODULE_CLASSES["Vorbis player"]()
vp.controller_values["finetune"] = None      # NoOffsetRange
expect(same(vp.get_raw("finetune"), 0), "None on no-offset range -> 0")
gen = MODULE_CLASSES["Generator"]()
gen.controller_values["waveform"] = None     # enum
expect(same(gen.get_raw("waveform"), 0), "None on enum -> 0")

# unknown names
for fn, args in ((amp.get_raw, ("nope",)), (amp.set_raw, ("nope", 1))):
    try:
        fn(*args)
    except KeyError:
        pass
    else:
        expect(False, "unknown controller name must raise KeyError")

# --- out-of-range raw values ------------------------------------------------
def check_out_of_range(mod, name, raw, decoded, lo, hi, prefix):
    before = mod.controller_values[name]
    want_msg = f"{prefix}.{name}={decoded} is not within [{lo}, {hi}]"
    # raising mode (library default)
    expect(rv.errors.RAISE_CONTROLLER_VALUE_ERRORS is True, "default is raising mode")
    try:
        mod.set_raw(name, raw)
    except ControllerValueError as e:
        expect(isinstance(e, ValueError), "ControllerValueError is a ValueError")
        expect(e.args == (want_msg,), f"message {e.args!r} != {want_msg!r}")
        expect(isinstance(e.__cause__, RangeValidationError), "cause is RangeValidationError")
        expect(e.__cause__.args == (decoded, lo, hi), f"cause args {e.__cause__.args!r}")
    else:
        expect(False, f"set_raw({name}, {raw}) must raise ControllerValueError")
    expect(mod.controller_values[name] == before, "value untouched after a raised error")
    # warning mode: logged, out-of-range decoded value is kept
    del capture.records[:]
    with override_raise_controller_value_errors(False):
        mod.set_raw(name, raw)
    expect(same(mod.controller_values[name], decoded), f"warn mode keeps {decoded}")
    recs = [r for r in capture.records if r.levelno == logging.WARNING]
    expect(len(recs) == 1, f"one warning expected, got {len(recs)}")
    if recs:
        expect(recs[0].name == "rv.modules.module", f"logger name {recs[0].name}")
        expect(recs[0].getMessage() == want_msg, f"log message {recs[0].getMessage()!r}")
        expect(recs[0].exc_info and isinstance(recs[0].exc_info[1], RangeValidationError),
               "warning carries the range error as exc_info")
    mod.set_raw(name, mod.controllers[name].instance_value_type(mod).to_raw_value(before))


amp = MODULE_CLASSES["Amplifier"]()
check_out_of_range(amp, "volume", 1025, 1025, 0, 1024, "0(Amplifier)")
check_out_of_range(amp, "balance", 257, 129, -128, 128, "0(Amplifier)")
check_out_of_range(amp, "balance", -1, -129, -128, 128, "0(Amplifier)")
amp = MODULE_CLASSES["Amplifier"](index=0x2B)
check_out_of_range(amp, "dc_offset", 999, 871, -128, 128, "2b(Amplifier)")
ms = MODULE_CLASSES["MultiSynth"](index=255)
check_out_of_range(ms, "transpose", 300, 172, -128, 128, "ff(MultiSynth)")
vp = MODULE_CLASSES["Vorbis player"](index=1)
check_out_of_range(vp, "finetune", 129, 129, -128, 128, "1(Vorbis player)")
check_out_of_range(vp, "finetune", -129, -129, -128, 128, "1(Vorbis player)")

# WarnOnlyRange (unit-dependent controllers): never raises, logs from rv.controller
lfo = MODULE_CLASSES["LFO"]()
t = lfo.controllers["freq"].instance_value_type(lfo)
expect(isinstance(t, WarnOnlyRange), "LFO.freq uses a WarnOnlyRange")
del capture.records[:]
lfo.set_raw("freq", t.max + 10)
expect(same(lfo.freq, t.max + 10), "warn-only range keeps out-of-range value")
expect(lfo.get_raw("freq") == t.max + 10, "warn-only raw roundtrip")
recs = [r for r in capture.records if r.levelno == logging.WARNING]
expect(len(recs) == 1 and recs[0].name == "rv.controller", "one warning from rv.controller")

# set_raw does not run change callbacks / does not mark anything loaded
class Spy(MODULE_CLASSES["Amplifier"]):
    calls = []

    def on_volume_changed(self, value, down, up):
        Spy.calls.append(value)


spy = Spy()
spy.set_raw("volume", 7)
expect(Spy.calls == [] and spy.volume == 7, "set_raw stores without callbacks")
spy.volume = 8
expect(Spy.calls == [8], "attribute assignment still runs callbacks")

finish()
