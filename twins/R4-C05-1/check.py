"""Behaviour check for C05 refactoring 1.

Touched code: Module.get_raw / Module.set_raw, Range.to_raw_value /
Range.from_raw_value, Controller.set_initial (message helper),
raise_or_warn_controller_value_validation and read_sunvox_file.

Run from the repository root:
    PYTHONPATH=<root>/src/python python check.py
"""
import hashlib
import io
import logging
import struct
import sys
import tempfile
from enum import Enum
from pathlib import Path

import rv.errors
from rv.controller import (
    CompactRange,
    Controller,
    NoOffsetRange,
    Range,
    WarnOnlyRange,
)
from rv.errors import (
    ControllerValueError,
    RangeValidationError,
    override_raise_controller_value_errors,
)
from rv.modules import MODULE_CLASSES
from rv.modules.amplifier import Amplifier
from rv.modules.analoggenerator import AnalogGenerator
from rv.modules.delay import Delay
from rv.project import Project
from rv.readers.reader import read_sunvox_file
from rv.synth import Synth

ROOT = Path(rv.errors.__file__).resolve().parents[3]
FILES = ROOT / "tests" / "files"

FAILURES = []


def check(cond, what):
    if not cond:
        FAILURES.append(what)
        print("FAIL:", what)


class Capture(logging.Handler):
    def __init__(self):
        super().__init__(level=logging.DEBUG)
        self.records = []

    def emit(self, record):
        self.records.append(record)

    def messages(self, level=logging.WARNING):
        return [r.getMessage() for r in self.records if r.levelno >= level]


CAPTURE = Capture()
rv_logger = logging.getLogger("rv")
rv_logger.addHandler(CAPTURE)
rv_logger.setLevel(logging.WARNING)
rv_logger.propagate = False


def save(obj):
    f = io.BytesIO()
    obj.write_to(f)
    return f.getvalue()


def load(data):
    return read_sunvox_file(io.BytesIO(data))


def snap(o, seen=None):
    """Structural snapshot of the observable state of an object graph."""
    seen = seen if seen is not None else set()
    if o is None or isinstance(o, (bool, int, float, str, bytes)):
        return o
    if isinstance(o, Enum):
        return ("enum", type(o).__name__, o.name)
    if isinstance(o, bytearray):
        return ("bytearray", bytes(o))
    if id(o) in seen:
        return ("cycle", type(o).__name__)
    seen = seen | {id(o)}
    if isinstance(o, (list, tuple)):
        return (type(o).__name__, [snap(x, seen) for x in o])
    if isinstance(o, (set, frozenset)):
        return ("set", sorted(repr(snap(x, seen)) for x in o))
    if isinstance(o, dict):
        items = [(repr(snap(k, seen)), snap(v, seen)) for k, v in o.items()]
        factory = getattr(o, "default_factory", None)
        if factory is not None:
            # Entries a defaultdict creates on first access are not state.
            blank = snap(factory())
            items = sorted(item for item in items if item[1] != blank)
        return ("dict", items)
    state = {}
    if hasattr(o, "__dict__"):
        state.update(vars(o))
    for klass in type(o).__mro__:
        for slot in getattr(klass, "__slots__", ()):
            if hasattr(o, slot):
                state[slot] = getattr(o, slot)
    if state:
        return (
            type(o).__name__,
            [(k, snap(v, seen)) for k, v in sorted(state.items())],
        )
    if hasattr(o, "tobytes"):
        return (type(o).__name__, o.tobytes())
    return (type(o).__name__, "opaque")


def iter_iff(data):
    pos = 0
    while pos + 8 <= len(data):
        name = data[pos : pos + 4]
        (size,) = struct.unpack("<I", data[pos + 4 : pos + 8])
        yield name, pos + 8, size
        pos += 8 + size


OUT_OF_RANGE = [300, -1, 40000, 0, -129, 255, 1, 70000, -32769, 2, 1000, -2, 129]


def mutate_cvals(data, variant):
    """Replace top-level CVALs by (mostly out-of-range) values.

    Variants 1 and 2 only touch controllers with a plain numeric range (so the
    file stays loadable); variant 3 overwrites every CVAL, enums included.
    """
    out = bytearray(data)
    numeric = []
    cnum = 0
    for n, (name, start, size) in enumerate(iter_iff(data)):
        if name == b"STYP":
            mtype = data[start : start + size].split(b"\0")[0].decode("utf8")
            ctls = list(MODULE_CLASSES[mtype].controllers.values())
            numeric = [isinstance(c.value_type, Range) for c in ctls]
            cnum = 0
        elif name == b"SEND":
            numeric = []
        elif name == b"CVAL" and size == 4:
            is_numeric = cnum < len(numeric) and numeric[cnum]
            cnum += 1
            if variant == 3 or is_numeric:
                value = OUT_OF_RANGE[(n * 7 + variant * 3) % len(OUT_OF_RANGE)]
                out[start : start + 4] = struct.pack("<i", value)
    return bytes(out)


def cycle(data, n=3):
    """Load/save n times; return the outcome as a list of digest parts."""
    parts = []
    try:
        obj = load(data)
    except Exception as e:  # noqa
        return [b"load-error:" + type(e).__name__.encode()], None
    try:
        before = snap(obj)
        y1 = save(obj)
        after = snap(obj)
        y1b = save(obj)
    except Exception as e:  # noqa
        return [b"save-error:" + type(e).__name__.encode()], None
    check(before == after, "saving changed the observable state")
    check(y1 == y1b, "saving twice gave different bytes")
    parts.append(y1)
    current = y1
    for i in range(n):
        nxt = save(load(current))
        check(nxt == y1, f"drift at cycle {i + 2}")
        current = nxt
    return parts, y1


def corpus_digest():
    h = hashlib.sha256()
    count = 0
    for path in sorted(FILES.rglob("*.sun*")):
        if not path.is_file():
            continue
        data = path.read_bytes()
        for variant in range(4):
            CAPTURE.records.clear()
            payload = data if variant == 0 else mutate_cvals(data, variant)
            parts, _ = cycle(payload)
            h.update(path.name.encode() + b"#%d" % variant)
            for part in parts:
                h.update(hashlib.sha256(part).digest())
            for msg in CAPTURE.messages():
                h.update(msg.encode("utf8", "replace"))
            count += 1
    return h.hexdigest(), count


EXPECTED_CORPUS_DIGEST = "6d3f55a57842340930d49de5a80d6b1938fe57ec8761ae5220a7f07569187433"


# ---------------------------------------------------------------- unit checks


def check_ranges():
    r = Range(-128, 128)
    check(r.to_raw_value(5) == 133, "Range(-128,128).to_raw_value(5)")
    check(r.from_raw_value(133) == 5, "Range(-128,128).from_raw_value(133)")
    check(r.from_raw_value(300) == 172, "Range(-128,128).from_raw_value(300)")
    check(r.to_raw_value(172) == 300, "Range(-128,128).to_raw_value(172)")
    check(r.from_raw_value(-5) == -133, "negative raw value")
    for lo, hi in [(-1, 1), (-32768, 32767), (-100, 0), (-7, 900)]:
        rr = Range(lo, hi)
        for raw in [-(2**31), -1, 0, 1, 300, 2**31 - 1]:
            check(rr.from_raw_value(raw) == raw + lo, f"from_raw {lo} {raw}")
            check(rr.to_raw_value(rr.from_raw_value(raw)) == raw, "raw roundtrip")
    for lo, hi in [(0, 10), (1, 256), (5, 5)]:
        rr = Range(lo, hi)
        for v in [-3, 0, 7, 1000]:
            check(rr.from_raw_value(v) == v, "non-negative min: from_raw identity")
            check(rr.to_raw_value(v) == v, "non-negative min: to_raw identity")
        # identity, not merely equality (no arithmetic is applied)
        check(rr.to_raw_value(True) is True, "to_raw keeps the object")
        check(rr.from_raw_value(True) is True, "from_raw keeps the object")
        marker = 12345678901234567890
        check(rr.to_raw_value(marker) is marker, "to_raw returns same object")
        check(rr.from_raw_value(marker) is marker, "from_raw returns same object")
    check(Range(-2, 2).to_raw_value(0.5) == 2.5, "float value offset")
    n = NoOffsetRange(-100, 100)
    check(n.to_raw_value(-7) == -7 and n.from_raw_value(-7) == -7, "NoOffsetRange")
    c = CompactRange(-128, 128)
    check(c.to_raw_value(-2) == 126 and c.from_raw_value(126) == -2, "CompactRange")
    w = WarnOnlyRange(-10, 10)
    check(w.to_raw_value(50) == 60 and w.from_raw_value(60) == 50, "WarnOnlyRange")
    # the conversion does not validate
    check(Range(-1, 1).to_raw_value(1000) == 1001, "to_raw does not validate")
    # changing min afterwards is honoured (no caching)
    m = Range(0, 10)
    check(m.to_raw_value(3) == 3, "min 0")
    m.min = -10
    check(m.to_raw_value(3) == 13 and m.from_raw_value(13) == 3, "min changed")
    # validation still raises RangeValidationError(value, min, max)
    try:
        Range(-1, 1)(5)
    except RangeValidationError as e:
        check(e.args == (5, -1, 1), "RangeValidationError args")
    else:
        check(False, "Range call should raise")


def check_set_raw_get_raw():
    amp = Amplifier()
    # in range
    amp.set_raw("balance", 100)
    check(amp.balance == -28 and amp.get_raw("balance") == 100, "in-range raw")
    amp.set_raw("volume", 1024)
    check(amp.volume == 1024 and amp.get_raw("volume") == 1024, "no offset ctl")
    amp.set_raw("inverse", 1)
    check(amp.inverse is True and amp.get_raw("inverse") == 1, "bool ctl")
    check(type(amp.get_raw("inverse")) is int, "bool raw is int")
    amp.set_raw("inverse", 0)
    check(amp.inverse is False and amp.get_raw("inverse") == 0, "bool ctl false")
    amp.set_raw("inverse", 7)
    check(amp.inverse is True, "bool from 7")

    # out of range, raising mode (default)
    check(rv.errors.RAISE_CONTROLLER_VALUE_ERRORS is True, "default raises")
    amp.set_raw("balance", 128)
    try:
        amp.set_raw("balance", 300)
    except ControllerValueError as e:
        check(
            e.args == ("0(Amplifier).balance=172 is not within [-128, 128]",),
            f"raise message {e.args!r}",
        )
        check(isinstance(e.__cause__, RangeValidationError), "cause chained")
        check(e.__cause__.args == (172, -128, 128), "cause args")
    else:
        check(False, "out of range set_raw should raise")
    check(amp.balance == 0, "value untouched after raise")

    # out of range, warn mode: value is kept and written back unchanged
    amp.index = 0x1F
    for raw, stored in [(300, 172), (-5, -133), (257, 129), (2**31 - 1, 2**31 - 129)]:
        CAPTURE.records.clear()
        with override_raise_controller_value_errors(False):
            amp.set_raw("balance", raw)
        check(amp.controller_values["balance"] == stored, f"kept {raw}->{stored}")
        check(amp.balance == stored, "attribute shows kept value")
        check(amp.get_raw("balance") == raw, f"get_raw gives back {raw}")
        check(
            CAPTURE.messages()
            == [f"1f(Amplifier).balance={stored} is not within [-128, 128]"],
            f"warning text {CAPTURE.messages()!r}",
        )
        rec = CAPTURE.records[0]
        check(rec.levelno == logging.WARNING, "warning level")
        check(rec.name == "rv.modules.module", "logger name")
        check(
            rec.exc_info and isinstance(rec.exc_info[1], RangeValidationError),
            "exc_info attached",
        )
    check(rv.errors.RAISE_CONTROLLER_VALUE_ERRORS is True, "flag restored")
    with override_raise_controller_value_errors(False):
        amp.set_raw("volume", 5000)
        check(amp.volume == 5000 and amp.get_raw("volume") == 5000, "no offset oor")
        amp.set_raw("volume", -3)
        check(amp.volume == -3 and amp.get_raw("volume") == -3, "negative oor")

    # enum controllers
    gen = AnalogGenerator()
    wf = type(gen.waveform)
    members = list(wf)
    gen.set_raw("waveform", members[2].value)
    check(gen.waveform is members[2], "enum set_raw gives member")
    check(gen.get_raw("waveform") == members[2].value, "enum get_raw gives int")
    check(type(gen.get_raw("waveform")) is int, "enum raw is int")
    for mode in (True, False):
        with override_raise_controller_value_errors(mode):
            try:
                gen.set_raw("waveform", 9999)
            except ValueError as e:
                check(not isinstance(e, ControllerValueError), "plain ValueError")
            else:
                check(False, "bad enum value should raise ValueError")
    check(gen.waveform is members[2], "enum untouched after error")

    # unknown controller
    for fn in (lambda: amp.get_raw("nope"), lambda: amp.set_raw("nope", 1)):
        try:
            fn()
        except KeyError as e:
            check(e.args == ("nope",), "KeyError arg")
        else:
            check(False, "unknown controller should raise KeyError")

    # None value is written as 0
    amp.controller_values["volume"] = None
    check(amp.get_raw("volume") == 0, "None -> 0")
    amp.controller_values["balance"] = None
    check(amp.get_raw("balance") == 128, "None -> offset 0")

    # Enum whose value is None also counts as 0
    class Odd(Enum):
        nothing = None

    amp.controller_values["volume"] = Odd.nothing
    check(amp.get_raw("volume") == 0, "Enum(None) -> 0")

    # WarnOnlyRange (through DependentRange) never raises
    d = Delay()
    CAPTURE.records.clear()
    d.set_raw("delay_l", 99999)
    check(d.delay_l == 99999 and d.get_raw("delay_l") == 99999, "warn-only kept")
    check(len(CAPTURE.messages()) == 1, "warn-only logs once")
    check(CAPTURE.records[0].name == "rv.controller", "warn-only logger")

    # Controller.set_initial shares the message format
    amp2 = Amplifier()
    try:
        amp2.balance = 500
    except ControllerValueError as e:
        check(
            e.args == ("0(Amplifier).balance=500 is not within [-128, 128]",),
            f"set_initial message {e.args!r}",
        )
    else:
        check(False, "attribute assignment should raise")
    CAPTURE.records.clear()
    with override_raise_controller_value_errors(False):
        amp2.index = 255
        amp2.dc_offset = -999
    check(amp2.dc_offset == -999, "warn mode keeps assigned value")
    check(
        CAPTURE.messages() == ["ff(Amplifier).dc_offset=-999 is not within [-128, 128]"],
        f"set_initial warning {CAPTURE.messages()!r}",
    )
    check(CAPTURE.records[0].name == "rv.controller", "set_initial logger name")
    try:
        Amplifier(volume=-1)
    except ControllerValueError as e:
        check(e.args == ("0(Amplifier).volume=-1 is not within [0, 1024]",), "ctor")
    else:
        check(False, "ctor should raise")


def check_drift_example():
    """The 300 -> 428 -> 556 example must stay at 300."""
    amp = Amplifier()
    data = save(Synth(amp))
    positions = [s for n, s, size in iter_iff(data) if n == b"CVAL"]
    names = list(amp.controllers)
    pos = positions[names.index("balance")]
    data = data[:pos] + struct.pack("<i", 300) + data[pos + 4 :]
    seen = []
    for _ in range(4):
        synth = load(data)
        seen.append((synth.module.balance, synth.module.get_raw("balance")))
        data = save(synth)
    check(seen == [(172, 300)] * 4, f"drift example {seen!r}")

    p = Project()
    a = p.new_module(Amplifier)
    p.output << a
    data = save(p)
    cvals = [s for n, s, size in iter_iff(data) if n == b"CVAL"]
    pos = cvals[names.index("dc_offset")]
    data = data[:pos] + struct.pack("<i", -40) + data[pos + 4 :]
    first = save(load(data))
    check(first == data, "project with out-of-range value re-saves identically")
    check(save(load(first)) == first, "second cycle identical")
    check(load(first).modules[1].dc_offset == -168, "kept value in project")


def check_read_sunvox_file():
    src = FILES / "amplifier.sunsynth"
    expected = save(read_sunvox_file(str(src)))
    check(save(read_sunvox_file(src)) == expected, "Path and str agree")
    with src.open("rb") as f:
        obj = read_sunvox_file(f)
        check(not f.closed, "caller's file object stays open")
        check(save(obj) == expected, "file object agrees")
    b = io.BytesIO(src.read_bytes())
    read_sunvox_file(b)
    check(not b.closed, "BytesIO stays open")
    check(rv.errors.RAISE_CONTROLLER_VALUE_ERRORS is True, "flag restored after read")

    # flag is False while reading, restored on errors too
    opened = []
    real_open = Path.open

    def spying_open(self, *a, **kw):
        fh = real_open(self, *a, **kw)
        if self.suffix.startswith(".sun") and a == ("rb",):
            check(
                rv.errors.RAISE_CONTROLLER_VALUE_ERRORS is False, "flag off on open"
            )
            opened.append(fh)
        return fh

    Path.open = spying_open
    try:
        read_sunvox_file(str(src))
        check(len(opened) == 1 and opened[0].closed, "own file closed")
        with tempfile.TemporaryDirectory() as d:
            bad = Path(d) / "bad.sunvox"
            bad.write_bytes(b"JUNKJUNKJUNK")
            check(read_sunvox_file(bad) is None, "junk file yields no object")
            check(len(opened) == 2 and opened[-1].closed, "own junk file closed")
            truncated = Path(d) / "cut.sunsynth"
            truncated.write_bytes(src.read_bytes()[:-20])
            try:
                read_sunvox_file(truncated)
            except Exception as e:  # noqa
                err = type(e).__name__
            else:
                err = None
            check(err == "RuntimeError", f"truncated file error {err}")
            check(len(opened) == 3 and opened[-1].closed, "closed after failure")
            try:
                read_sunvox_file(Path(d) / "missing.sunvox")
            except FileNotFoundError:
                pass
            else:
                check(False, "missing file raises FileNotFoundError")
    finally:
        Path.open = real_open
    check(rv.errors.RAISE_CONTROLLER_VALUE_ERRORS is True, "flag restored on error")

    with override_raise_controller_value_errors(False):
        read_sunvox_file(src)
        check(rv.errors.RAISE_CONTROLLER_VALUE_ERRORS is False, "outer override kept")
    check(rv.errors.RAISE_CONTROLLER_VALUE_ERRORS is True, "outer override undone")


def check_raise_or_warn():
    class FakeLog:
        def __init__(self):
            self.calls = []

        def warning(self, *a, **kw):
            self.calls.append((a, kw))

    cause = RangeValidationError(1, 2, 3)
    fake = FakeLog()
    try:
        rv.errors.raise_or_warn_controller_value_validation(cause, fake, "m", 1)
    except ControllerValueError as e:
        check(e.args == ("m", 1) and e.__cause__ is cause, "raise path")
    else:
        check(False, "should raise")
    check(fake.calls == [], "no log when raising")
    with override_raise_controller_value_errors(False):
        r = rv.errors.raise_or_warn_controller_value_validation(cause, fake, "m", 1)
    check(r is None, "warn path returns None")
    check(fake.calls == [(("m", 1), {"exc_info": cause})], "warn path call")


def main():
    check_ranges()
    check_set_raw_get_raw()
    check_drift_example()
    check_read_sunvox_file()
    check_raise_or_warn()
    digest, count = corpus_digest()
    check(count >= 200, f"corpus size {count}")
    check(
        digest == EXPECTED_CORPUS_DIGEST,
        f"corpus digest changed: {digest}",
    )
    if FAILURES:
        print(f"FAIL ({len(FAILURES)} problems)")
        sys.exit(1)
    print("PASS")


if __name__ == "__main__":
    main()
