import enum
import glob
import hashlib
import io
import logging
import os
import struct
import sys

from rv.api import read_sunvox_file

ROOT = os.getcwd()
FIXTURES = sorted(
    glob.glob(os.path.join(ROOT, "tests", "files", "**", "*.sunvox"), recursive=True)
    + glob.glob(os.path.join(ROOT, "tests", "files", "**", "*.sunsynth"), recursive=True)
)


# ---------------------------------------------------------------- IFF helpers
# (independent of rv.lib.iff on purpose)
def parse(blob):
    out = []
    pos = 0
    while pos + 8 <= len(blob):
        name = blob[pos : pos + 4]
        (size,) = struct.unpack("<I", blob[pos + 4 : pos + 8])
        out.append((name, blob[pos + 8 : pos + 8 + size]))
        pos += 8 + size
    return out


def build(chunks):
    return b"".join(n + struct.pack("<I", len(d)) + d for n, d in chunks)


# ---------------------------------------------------------------- snapshots
def describe(obj, seen=None, depth=0):
    """Deterministic, id-free structural description of public state."""
    if seen is None:
        seen = set()
    if obj is None or isinstance(obj, (bool, int, float, str)):
        if isinstance(obj, enum.Enum):
            return "%s.%s" % (type(obj).__name__, obj.name)
        return repr(obj)
    if isinstance(obj, enum.Enum):
        return "%s.%s" % (type(obj).__name__, obj.name)
    if isinstance(obj, (bytes, bytearray)):
        return "b:%d:%s" % (len(obj), hashlib.sha1(bytes(obj)).hexdigest()[:12])
    if isinstance(obj, type):
        return "<class %s>" % obj.__name__
    if id(obj) in seen:
        return "<cycle %s>" % type(obj).__name__
    if depth > 12:
        return "<deep %s>" % type(obj).__name__
    seen = seen | {id(obj)}
    if isinstance(obj, (list, tuple)):
        inner = ",".join(describe(x, seen, depth + 1) for x in obj)
        return ("[%s]" if isinstance(obj, list) else "(%s)") % inner
    if isinstance(obj, (set, frozenset)):
        return "{%s}" % ",".join(sorted(describe(x, seen, depth + 1) for x in obj))
    if isinstance(obj, dict):
        return "{%s}" % ",".join(
            "%s:%s" % (describe(k, seen, depth + 1), describe(v, seen, depth + 1))
            for k, v in obj.items()
        )
    if type(obj).__module__.startswith("numpy"):
        try:
            return "np:%s:%s" % (obj.shape, hashlib.sha1(obj.tobytes()).hexdigest()[:12])
        except Exception:
            return "np:%r" % (obj,)
    names = []
    if hasattr(obj, "__dict__"):
        names += list(vars(obj))
    for klass in type(obj).__mro__:
        names += list(getattr(klass, "__slots__", ()))
    if not names or callable(obj):
        return "<%s>" % type(obj).__name__
    parts = []
    for name in sorted(set(names)):
        if name in ("__weakref__", "__dict__", "_order"):
            continue  # _order is a process-global creation counter
        if name in ("parent", "project", "pattern", "module") and not isinstance(
            getattr(obj, name, None), (int, type(None))
        ):
            val = getattr(obj, name, None)
            owner = type(obj).__name__
            if (owner, name) in (("Synth", "module"), ("MetaModule", "project")):
                parts.append("%s=%s" % (name, describe(val, seen, depth + 1)))
            else:
                parts.append("%s=<ref %s>" % (name, type(val).__name__))
            continue
        try:
            val = getattr(obj, name)
        except AttributeError:
            continue
        parts.append("%s=%s" % (name, describe(val, seen, depth + 1)))
    return "%s(%s)" % (type(obj).__name__, ";".join(parts))


class _Capture(logging.Handler):
    def __init__(self):
        super().__init__(level=logging.DEBUG)
        self.records = []

    def emit(self, record):
        self.records.append((record.name, record.levelname, record.getMessage()))


def load(blob, level=logging.WARNING, via="bytesio"):
    """Load blob; return dict with snapshot / serialisation / error and logs."""
    cap = _Capture()
    logger = logging.getLogger("rv")
    old = logger.level
    logger.addHandler(cap)
    logger.setLevel(level)
    result = {}
    try:
        try:
            obj = read_sunvox_file(io.BytesIO(blob))
        except Exception as exc:  # noqa
            result["error"] = "%s:%s" % (type(exc).__name__, exc)
            obj = None
        else:
            result["snap"] = describe(obj)
            if obj is not None:
                try:
                    result["out"] = hashlib.sha1(obj.read()).hexdigest()
                except Exception as exc:  # noqa
                    result["out"] = "ERR %s" % type(exc).__name__
    finally:
        logger.removeHandler(cap)
        logger.setLevel(old)
    result["logs"] = [r for r in cap.records if r[0].startswith("rv.readers")]
    result["obj"] = obj
    return result


def key(result, logs=True):
    parts = [result.get("snap"), result.get("out"), result.get("error")]
    if logs:
        parts.append(result["logs"])
    return repr(parts)


class Digest:
    def __init__(self):
        self.h = hashlib.sha256()
        self.n = 0

    def add(self, label, text):
        self.h.update(("%s\x00%s\x01" % (label, text)).encode("utf8", "replace"))
        self.n += 1

    def hex(self):
        return self.h.hexdigest()


FAILS = []


def check(cond, msg):
    if not cond:
        FAILS.append(msg)
        if len(FAILS) <= 20:
            print("FAIL:", msg)


def finish(digest, expected):
    got = digest.hex()
    if "--record" in sys.argv:
        print("DIGEST", got, "cases", digest.n)
    else:
        check(got == expected, "behaviour digest %s != expected %s" % (got, expected))
    if FAILS:
        print("FAILED (%d problems)" % len(FAILS))
        sys.exit(1)
    print("PASS (%d recorded observations)" % digest.n)


# ======================================================================
# Scenario part
# ======================================================================
import random
import re
import tempfile
from pathlib import Path

import rv.errors
from rv.lib.iff import chunks as iff_chunks
from rv.readers.reader import Reader, ReaderFinished

HEX = re.compile(r"0x[0-9a-fA-F]+")
UNKNOWN = (b"ZzZz", b"\x01\x02\x03")


def u32(v):
    return struct.pack("<I", v)


def i32(v):
    return struct.pack("<i", v)


def scrub(result):
    if result.get("error"):
        result["error"] = HEX.sub("0x?", result["error"])
    return result


def state(result):
    """Observable state without logs."""
    return key(result, logs=False)


def warnings_of(result):
    return [r for r in result["logs"] if r[1] != "DEBUG"]


# ------------------------------------------------------------ fixture sweeps
def sweep_fixture(digest, fn):
    label = os.path.relpath(fn, ROOT)
    blob = open(fn, "rb").read()
    parsed = parse(blob)
    check(build(parsed) == blob, "%s: independent parser does not round-trip" % label)
    base = scrub(load(blob, level=logging.DEBUG))
    check("error" not in base, "%s: base load failed: %s" % (label, base.get("error")))
    digest.add(label + " base", key(base))
    base_state = state(base)
    base_warn = warnings_of(base)
    is_project = parsed[0][0] == b"SVOX"

    # 1. unknown chunk at every position leaves everything else unchanged
    for pos in range(len(parsed) + 1):
        edited = parsed[:pos] + [UNKNOWN] + parsed[pos:]
        res = scrub(load(build(edited)))
        check(
            state(res) == base_state,
            "%s: unknown chunk at %d changed the result" % (label, pos),
        )
        extra = [w for w in warnings_of(res) if "process_ZzZz" in w[2]]
        check(len(extra) == 1, "%s: unknown chunk at %d: warnings %r" % (label, pos, extra))
        rest = [w for w in warnings_of(res) if "process_ZzZz" not in w[2]]
        check(rest == base_warn, "%s: unknown chunk at %d altered other warnings" % (label, pos))
        digest.add("%s unk@%d" % (label, pos), repr(extra))

    # 2. drop every single chunk in turn (optional ones keep defaults, the
    #    structural ones give whatever error the reader gives today)
    for pos in range(len(parsed)):
        edited = parsed[:pos] + parsed[pos + 1 :]
        res = scrub(load(build(edited)))
        digest.add("%s drop@%d %s" % (label, pos, parsed[pos][0]), key(res))

    # 3. truncate the CVAL list of every module to every length
    cval_runs = []
    run = []
    for idx, (name, _) in enumerate(parsed):
        if name == b"CVAL":
            run.append(idx)
        elif run:
            cval_runs.append(run)
            run = []
    for rno, run in enumerate(cval_runs):
        for keep in range(len(run) + 1):
            dropped = set(run[keep:])
            edited = [c for i, c in enumerate(parsed) if i not in dropped]
            res = scrub(load(build(edited)))
            digest.add("%s cval run%d keep%d" % (label, rno, keep), key(res))
        # extra CVALs beyond what the type has
        last = run[-1]
        edited = parsed[: last + 1] + [(b"CVAL", i32(7)), (b"CVAL", i32(-7))] + parsed[last + 1 :]
        res = scrub(load(build(edited)))
        digest.add("%s cval run%d extra" % (label, rno), key(res))

    # 4. reorder independent header chunks
    if is_project:
        stop = next(
            i for i, (n, _) in enumerate(parsed) if n in (b"PDTA", b"PPAR", b"PEND", b"SFFF", b"SEND")
        )
        header = parsed[1:stop]
        for variant, hdr in (
            ("reversed", header[::-1]),
            ("rotated", header[3:] + header[:3]),
            ("sorted", sorted(header)),
        ):
            res = scrub(load(build(parsed[:1] + hdr + parsed[stop:])))
            check(state(res) == base_state, "%s: header %s changed result" % (label, variant))
            digest.add("%s hdr %s" % (label, variant), key(res))

    # 5. truncation of the byte stream (EOF handling in the chunk iterator)
    step = max(1, len(blob) // 60)
    for cut in list(range(0, min(len(blob), 40))) + list(range(40, len(blob), step)):
        res = scrub(load(blob[:cut]))
        digest.add("%s cut@%d" % (label, cut), key(res))


# ------------------------------------------------------ independent encoder
MODULE_TYPES = [
    ("Amplifier", 9),
    ("Generator", 10),
    ("Filter", 15),
    ("LFO", 13),
    ("FM", 17),
    ("Delay", 13),
    ("Distortion", 6),
    ("DC Blocker", 1),
    ("Echo", 9),
    ("Reverb", 10),
    ("Kicker", 9),
]


def enc_name(text, pad=None, nul=True):
    raw = text.encode("utf8") + (b"\0" if nul else b"")
    if pad:
        raw = raw + b"\0" * max(0, pad - len(raw))
    return raw


def enc_module(rng, index, n_modules, style):
    out = [(b"SFFF", u32(rng.choice([0x49, 0x51, 0x02000051, 0x43])))]
    out.append((b"SNAM", enc_name("m%d-%s" % (index, style), pad=32)))
    ncvals = 0
    if index > 0:
        mtype, nctl = rng.choice(MODULE_TYPES)
        out.append((b"STYP", enc_name(mtype, nul=rng.random() < 0.7)))
        ncvals = rng.choice([0, 1, nctl // 2, nctl, nctl, nctl + 2])
    if rng.random() < 0.8:
        out.append((b"SFIN", i32(rng.randint(-256, 256))))
        out.append((b"SREL", i32(rng.randint(-12, 12))))
    out.append((b"SXXX", i32(rng.randint(-2000, 2000))))
    out.append((b"SYYY", i32(rng.randint(-2000, 2000))))
    if rng.random() < 0.7:
        out.append((b"SZZZ", u32(rng.randint(0, 7))))
        out.append((b"SSCL", u32(rng.choice([128, 256, 512]))))
    if rng.random() < 0.5:
        out.append((b"SVPR", u32(rng.getrandbits(32))))
    out.append((b"SCOL", bytes(rng.randrange(256) for _ in range(3))))
    if rng.random() < 0.7:
        out.append((b"SMII", u32(rng.choice([0, 1, 2, 3, 7, 32, 33]))))
    if rng.random() < 0.4:
        out.append((b"SMIN", enc_name("port%d" % index, nul=rng.random() < 0.5)))
    if rng.random() < 0.6:
        out.append((b"SMIC", i32(rng.randint(0, 15))))
        out.append((b"SMIB", i32(rng.randint(-1, 127))))
        out.append((b"SMIP", i32(rng.randint(-1, 127))))
    # links
    kind = rng.random()
    links = []
    if kind < 0.2:
        pass
    else:
        for _ in range(rng.randint(0, 4)):
            r = rng.random()
            if r < 0.2:
                links.append(-1)
            elif style == "wild" and r < 0.3:
                links.append(n_modules + rng.randint(0, 3))
            else:
                links.append(rng.randrange(max(1, n_modules)))
    if style != "wild":
        # only reference existing modules, never itself
        links = [l for l in links if l != index]
    if rng.random() < 0.3:
        links += [-1] * rng.randint(1, 2)
    out.append((b"SLNK", b"".join(i32(l) for l in links)))
    if links and rng.random() < 0.5:
        slots = [(-1 if l == -1 else rng.randint(0, 2)) for l in links]
        out.append((b"SLnK", b"".join(i32(s) for s in slots)))
    for _ in range(ncvals):
        pool = [0, 1, 1, 0, 2, 3, 64, 128, 255, 256] if style == "wild" else [0, 1]
        out.append((b"CVAL", i32(rng.choice(pool))))
    if rng.random() < 0.2:
        out.append((b"QQQQ", b"junk"))
    out.append((b"SEND", b""))
    return out


def enc_pattern(rng, n_modules, legacy):
    tracks = rng.randint(1, 4)
    lines = rng.randint(1, 6)
    notes = b""
    for _ in range(tracks * lines):
        module = rng.choice([0, 1, rng.randint(0, n_modules + 1)])
        if legacy and rng.random() < 0.5:
            module |= rng.randint(1, 255) << 8
        notes += struct.pack(
            "<BBHHH",
            rng.choice([0, 0, 1, 49, 120, 128]),
            rng.randint(0, 129),
            module,
            rng.choice([0, 0x0100, 0x0205, 0x0011]),
            rng.getrandbits(16),
        )
    out = [(b"PDTA", notes)]
    if rng.random() < 0.5:
        out.append((b"PNME", enc_name("pat", nul=rng.random() < 0.5)))
    out += [(b"PCHN", u32(tracks)), (b"PLIN", u32(lines))]
    if rng.random() < 0.7:
        out.append((b"PYSZ", u32(rng.choice([16, 32, 64]))))
    if rng.random() < 0.7:
        out.append((b"PFLG", u32(rng.choice([0, 1, 2, 3]))))
    if rng.random() < 0.7:
        out.append((b"PICO", bytes(rng.randrange(256) for _ in range(32))))
    if rng.random() < 0.7:
        out.append((b"PFGC", bytes(rng.randrange(256) for _ in range(3))))
        out.append((b"PBGC", bytes(rng.randrange(256) for _ in range(3))))
    if rng.random() < 0.7:
        out.append((b"PFFF", u32(rng.choice([0, 1, 8, 9, 16]))))
    out.append((b"PXXX", i32(rng.randint(-500, 500))))
    out.append((b"PYYY", i32(rng.randint(-500, 500))))
    out.append((b"PEND", b""))
    return out


def enc_project(seed):
    rng = random.Random(seed)
    style = rng.choice(["plain", "plain", "wild"])
    legacy = rng.random() < 0.4
    vers = rng.choice([(1, 7, 3, 2), (1, 9, 4, 9)]) if legacy else rng.choice(
        [(1, 9, 5, 0), (1, 9, 6, 1), (2, 1, 2, 1)]
    )
    out = [(b"SVOX", b"")]
    if rng.random() < 0.95:
        out.append((b"VERS", bytes(reversed(vers))))
    if rng.random() < 0.6:
        out.append((b"BVER", bytes(reversed(rng.choice([(1, 8, 0, 0), (2, 0, 0, 0)])))))
    hdr = []
    if rng.random() < 0.5:
        hdr.append((b"FLGS", u32(rng.getrandbits(8))))
    if rng.random() < 0.7:
        hdr.append((b"SFGS", u32(rng.getrandbits(rng.choice([3, 6, 6, 10])))))
    hdr.append((b"BPM ", u32(rng.randint(1, 800))))
    hdr.append((b"SPED", u32(rng.randint(1, 31))))
    for name in (b"TGRD", b"TGD2", b"GVOL", b"MSCL", b"MZOO", b"LMSK", b"CURL", b"SELS", b"PATN", b"PATT", b"PATL"):
        if rng.random() < 0.7:
            hdr.append((name, u32(rng.randint(0, 1000))))
    for name in (b"MXOF", b"MYOF", b"TIME", b"REPS", b"LGEN"):
        if rng.random() < 0.6:
            hdr.append((name, i32(rng.randint(-1000, 1000))))
    if rng.random() < 0.8:
        hdr.append((b"NAME", enc_name(rng.choice(["", "song", "Légende ♫"]), nul=rng.random() < 0.6)))
    if rng.random() < 0.3:
        hdr.append((b"PAMD", b"\0" * 4))
    if rng.random() < 0.3:
        hdr.append((rng.choice([b"XXXX", b"ab  ", b"A B ", b"\xc3\xa9  "]), b"?"))
    rng.shuffle(hdr)
    out += hdr
    n_modules = rng.randint(0, 6)
    n_patterns = rng.randint(0, 4)
    for pno in range(n_patterns):
        r = rng.random()
        if r < 0.2:
            out.append((b"PEND", b""))
        elif r < 0.4 and pno > 0:
            out.append((b"PPAR", u32(rng.randrange(pno))))
            if rng.random() < 0.6:
                out.append((b"PFFF", u32(rng.choice([0, 1, 8]))))
            out.append((b"PXXX", i32(rng.randint(-500, 500))))
            if rng.random() < 0.8:
                out.append((b"PYYY", i32(rng.randint(-500, 500))))
            out.append((b"PEND", b""))
        else:
            out += enc_pattern(rng, n_modules, legacy)
    empties = set()
    for index in range(n_modules):
        if index > 0 and rng.random() < 0.25:
            empties.add(index)
    for index in range(n_modules):
        if index in empties:
            out.append((b"SEND", b""))
        else:
            mod = enc_module(rng, index, n_modules, style)
            if style != "wild":
                # do not link to empty slots
                fixed = []
                for name, data in mod:
                    if name == b"SLNK":
                        vals = [struct.unpack("<i", data[i : i + 4])[0] for i in range(0, len(data), 4)]
                        vals = [(-1 if v in empties else v) for v in vals]
                        data = b"".join(i32(v) for v in vals)
                    fixed.append((name, data))
                mod = fixed
            out += mod
    for _ in range(rng.choice([0, 0, 1, 3])):
        out.append((b"SEND", b""))  # trailing empty slots
    return out, style


def enc_synth(seed):
    rng = random.Random(seed)
    out = [(b"SSYN", b"")]
    if rng.random() < 0.9:
        out.append((b"VERS", bytes(reversed(rng.choice([(1, 9, 6, 1), (2, 0, 0, 0), (2, 1, 2, 1)])))))
    if rng.random() < 0.3:
        out.append((b"WHAT", b"ever"))
    out += enc_module(rng, 1, 1, "plain")
    if rng.random() < 0.3:
        out.append((b"TAIL", b""))
    return out


def sweep_synthetic(digest):
    for seed in range(160):
        chunks_, style = enc_project(seed)
        res = scrub(load(build(chunks_), level=logging.DEBUG))
        digest.add("synthetic project %d" % seed, key(res))
        if "error" in res:
            continue
        obj = res["obj"]
        # positions (including empty ones) are never rearranged
        expected_slots = []
        depth = 0
        for name, _ in chunks_:
            if name == b"SFFF" and depth == 0:
                depth = 1
            elif name == b"SEND":
                expected_slots.append(depth == 1)
                depth = 0
        while expected_slots and not expected_slots[-1]:
            expected_slots.pop()
        got_slots = [m is not None for m in obj.modules]
        check(got_slots == expected_slots, "synthetic %d: slots %r != %r" % (seed, got_slots, expected_slots))
        for i, m in enumerate(obj.modules):
            if m is not None:
                check(m.index == i, "synthetic %d: module %d has index %r" % (seed, i, m.index))
        # unknown chunk at a few positions
        rng = random.Random(seed * 7 + 1)
        base_state = state(res)
        for _ in range(4):
            pos = rng.randint(0, len(chunks_))
            res2 = scrub(load(build(chunks_[:pos] + [UNKNOWN] + chunks_[pos:])))
            check(state(res2) == base_state, "synthetic %d: unknown chunk at %d changed result" % (seed, pos))
    for seed in range(80):
        chunks_ = enc_synth(1000 + seed)
        res = scrub(load(build(chunks_), level=logging.DEBUG))
        digest.add("synthetic synth %d" % seed, key(res))


# ------------------------------------------------------------ hand-made cases
def sweep_handmade(digest):
    def mod(index, links=b"", extra=(), mtype=b"Amplifier\0", cvals=()):
        out = [(b"SFFF", u32(0x49)), (b"SNAM", enc_name("x%d" % index, pad=32))]
        if index:
            out.append((b"STYP", mtype))
        out.append((b"SLNK", links))
        out += list(extra)
        out += [(b"CVAL", i32(v)) for v in cvals]
        out.append((b"SEND", b""))
        return out

    head = [(b"SVOX", b""), (b"VERS", bytes([1, 2, 1, 2]))]
    cases = {
        "empty stream": [],
        "only magic": [(b"SVOX", b"")],
        "only synth magic": [(b"SSYN", b"")],
        "no magic": [(b"VERS", bytes(4))],
        "unknown only": [UNKNOWN],
        "no VERS no BVER": [(b"SVOX", b"")] + mod(0),
        "legacy BVER default": [(b"SVOX", b""), (b"VERS", bytes([0, 3, 7, 1]))] + mod(0),
        "explicit BVER": head + [(b"BVER", bytes([4, 3, 2, 1]))] + mod(0),
        "SFGS bits": head + [(b"SFGS", u32(0b10110101))] + mod(0),
        "SFGS high bits": head + [(b"SFGS", u32(0xFFFFFFFF))] + mod(0),
        "short VERS": [(b"SVOX", b""), (b"VERS", bytes(3))] + mod(0),
        "long BVER": head + [(b"BVER", bytes(5))] + mod(0),
        "only empties": head + [(b"SEND", b"")] * 3,
        "gap kept": head + mod(0) + [(b"SEND", b"")] * 2 + mod(3, i32(0)) + [(b"SEND", b"")],
        "link to output": head + mod(0, i32(1) + i32(2)) + mod(1) + mod(2, i32(1)),
        "link trailing -1": head + mod(0, i32(1) + i32(-1) + i32(-1)) + mod(1),
        "link all -1": head + mod(0, i32(-1) + i32(-1)) + mod(1),
        "link inner -1": head + mod(0, i32(-1) + i32(1)) + mod(1),
        "link beyond": head + mod(0, i32(5)) + mod(1),
        "link to empty": head + mod(0, i32(1)) + [(b"SEND", b"")] + mod(2),
        "link to self": head + mod(0) + mod(1, i32(1)),
        "slots given": head + mod(0, i32(1) + i32(2), [(b"SLnK", i32(1) + i32(0))]) + mod(1) + mod(2),
        "slots short": head + mod(0, i32(1) + i32(2), [(b"SLnK", i32(0))]) + mod(1) + mod(2),
        "slots trailing -1": head + mod(0, i32(1), [(b"SLnK", i32(0) + i32(-1))]) + mod(1),
        "slots big": head + mod(0, i32(1), [(b"SLnK", i32(3))]) + mod(1),
        "slots negative": head + mod(0, i32(1), [(b"SLnK", i32(-2))]) + mod(1),
        "SLNK twice": head + mod(0, i32(1) + i32(-1), [(b"SLNK", i32(-1) + i32(2) + i32(-1))]) + mod(1) + mod(2),
        "SLNK ragged": head + mod(0, i32(1) + b"\x01\x02") + mod(1),
        "SLNK tiny": head + mod(0, b"\x01") + mod(1),
        "SLnK ragged": head + mod(0, i32(1), [(b"SLnK", b"\x00\x00\x00")]) + mod(1),
        "unknown mtype": head + mod(0) + mod(1, mtype=b"Nope\0"),
        "mtype no nul": head + mod(0) + mod(1, mtype=b"Amplifier"),
        "few cvals": head + mod(0) + mod(1, cvals=(100, 20)),
        "all cvals": head + mod(0) + mod(1, cvals=(100, 20, 30, 1, 64, 0, 5000, 2000, 12)),
        "too many cvals": head + mod(0) + mod(1, cvals=(100, 20, 30, 1, 64, 0, 5000, 2000, 12, 1, 2, 3)),
        "cval out of range": head + mod(0) + mod(1, cvals=(99999, -5)),
        "cvals on output": head + mod(0, cvals=(1, 2)),
        "SMII variants": head + mod(0, extra=[(b"SMII", u32(0))]) + mod(1, extra=[(b"SMII", u32(1))])
        + mod(2, extra=[(b"SMII", u32(0xFFFFFFFF))]) + mod(3, extra=[(b"SMII", u32(34))]),
        "SMIN names": head + mod(0, extra=[(b"SMIN", b"abc\0def\0")]) + mod(1, extra=[(b"SMIN", b"")])
        + mod(2, extra=[(b"SMIN", b"\0")]) + mod(3, extra=[(b"SMIN", b"nonul")]),
        "CHDT without CHNM": head + mod(0) + mod(1, extra=[(b"CHDT", b"abc")]),
        "missing SEND": head + mod(0)[:-1],
        "module without SFFF": head + [(b"SNAM", b"x\0")],
        "pattern legacy high byte": [(b"SVOX", b""), (b"VERS", bytes([0, 4, 9, 1]))]
        + [(b"PDTA", struct.pack("<BBHHH", 1, 2, 0x0302, 4, 5) * 2), (b"PCHN", u32(1)), (b"PLIN", u32(2)), (b"PEND", b"")]
        + [(b"PEND", b"")]
        + [(b"PPAR", u32(0)), (b"PEND", b"")]
        + mod(0),
        "pattern modern high byte": head
        + [(b"PDTA", struct.pack("<BBHHH", 1, 2, 0x0302, 4, 5) * 2), (b"PCHN", u32(1)), (b"PLIN", u32(2)), (b"PEND", b"")]
        + mod(0),
        "pattern without dims": head + [(b"PDTA", bytes(64)), (b"PEND", b"")] + mod(0),
        "pattern short data": head + [(b"PDTA", bytes(12)), (b"PCHN", u32(2)), (b"PLIN", u32(2)), (b"PEND", b"")] + mod(0),
        "pattern unknown inside": head
        + [(b"PDTA", bytes(8)), (b"PCHN", u32(1)), UNKNOWN, (b"PLIN", u32(1)), (b"PSYN", b"x"), (b"PCTL", b"y"), (b"PEND", b"")]
        + mod(0),
        "clone bare": head + [(b"PDTA", bytes(8)), (b"PCHN", u32(1)), (b"PLIN", u32(1)), (b"PEND", b"")]
        + [(b"PPAR", u32(0)), (b"PEND", b"")] + mod(0),
        "clone full": head + [(b"PDTA", bytes(8)), (b"PCHN", u32(1)), (b"PLIN", u32(1)), (b"PEND", b"")]
        + [(b"PPAR", u32(0)), (b"PFFF", u32(9)), (b"PXXX", i32(-4)), (b"PYYY", i32(44)), UNKNOWN, (b"PEND", b"")] + mod(0),
        "clone unterminated": head + [(b"PPAR", u32(0)), (b"PXXX", i32(-4))],
        "pattern unterminated": head + [(b"PDTA", bytes(8)), (b"PCHN", u32(1))],
        "names": head + [(b"NAME", b"abc\0junk\0")] + mod(0),
        "name empty": head + [(b"NAME", b"")] + mod(0),
        "name bad utf8": head + [(b"NAME", b"\xff\xfe\0")] + mod(0),
        "chunk id bad utf8": head + [(b"\xff\xfe\xfd\xfc", b"")] + mod(0),
        "chunk id spaces": head + [(b"    ", b"x"), (b" BPM", u32(99)), (b"BP  ", u32(98)), (b"BPM\0", u32(97))] + mod(0),
        "chunk id dunder": head + [(b"_end", b""), (b"end_", b"")] + mod(0),
        "synth minimal": [(b"SSYN", b"")] + mod(1),
        "synth no module": [(b"SSYN", b""), (b"VERS", bytes(4))],
        "synth two modules": [(b"SSYN", b"")] + mod(1, cvals=(1,)) + mod(1, cvals=(2,)),
        "synth trailing unknown": [(b"SSYN", b"")] + mod(1) + [UNKNOWN],
        "svox then ssyn": [(b"SVOX", b"")] + mod(0) + [(b"SSYN", b"")] + mod(1),
        "two svox": [(b"SVOX", b"")] + mod(0) + [(b"SVOX", b"")] + mod(0),
    }
    for label, chunks_ in cases.items():
        blob = build(chunks_)
        res = scrub(load(blob, level=logging.DEBUG))
        digest.add("hand " + label, key(res))
        # truncations of every hand-made case at every byte
        for cut in range(len(blob)):
            digest.add("hand %s cut %d" % (label, cut), key(scrub(load(blob[:cut])), logs=True))
    # oversize declared length / garbage tail
    blob = build(head + mod(0))
    for tail in (b"AB", b"ABCD", b"ABCD\x01", b"ABCD\xff\xff\xff\x7f", b"ABCD\x04\0\0\0xy"):
        digest.add("tail %r" % tail, key(scrub(load(blob + tail))))


# -------------------------------------------------- direct API level checks
class NoSeek(io.RawIOBase):
    """Readable stream without seek/tell."""

    def __init__(self, blob):
        self._b = io.BytesIO(blob)

    def readable(self):
        return True

    def read(self, n=-1):
        return self._b.read(n)

    def seekable(self):
        return False

    def tell(self):
        raise OSError("no tell")

    def seek(self, *a):
        raise OSError("no seek")


def sweep_api(digest):
    fn = os.path.join(ROOT, "tests", "files", "single-fm.sunvox")
    syn = os.path.join(ROOT, "tests", "files", "amplifier.sunsynth")
    blob = open(fn, "rb").read()
    want = describe(read_sunvox_file(io.BytesIO(blob)))
    # str / Path / open file object all accepted
    check(describe(read_sunvox_file(fn)) == want, "str path differs")
    check(describe(read_sunvox_file(Path(fn))) == want, "Path differs")
    with open(fn, "rb") as fobj:
        check(describe(read_sunvox_file(fobj)) == want, "file object differs")
        check(not fobj.closed, "caller's file object was closed")
        digest.add("fileobj position", str(fobj.tell()))
    bio = io.BytesIO(blob + b"TRAILING")
    read_sunvox_file(bio)
    check(not bio.closed, "BytesIO was closed")
    digest.add("bytesio position", str(bio.tell()))
    # files opened by the reader are closed again, also on error
    opened = []
    real_open = Path.open

    def spy(self, *a, **kw):
        handle = real_open(self, *a, **kw)
        opened.append(handle)
        return handle

    Path.open = spy
    try:
        read_sunvox_file(fn)
        read_sunvox_file(Path(syn))
        with tempfile.TemporaryDirectory() as tmp:
            bad = os.path.join(tmp, "bad.sunvox")
            with open(bad, "wb") as out:
                out.write(build([(b"SVOX", b""), (b"VERS", b"\0")]))
            try:
                read_sunvox_file(bad)
            except Exception as exc:  # noqa
                digest.add("bad file error", type(exc).__name__)
            else:
                check(False, "bad file did not raise")
            try:
                read_sunvox_file(os.path.join(tmp, "missing.sunvox"))
            except Exception as exc:  # noqa
                digest.add("missing file error", type(exc).__name__)
            else:
                check(False, "missing file did not raise")
    finally:
        Path.open = real_open
    check(len(opened) == 3, "expected 3 opened files, got %d" % len(opened))
    check(all(h.closed for h in opened), "reader leaked an open file")
    # wrong argument types
    for bad_arg in (None, 5, b"SVOX"):
        try:
            read_sunvox_file(bad_arg)
        except Exception as exc:  # noqa
            digest.add("bad arg %r" % (bad_arg,), type(exc).__name__)
        else:
            digest.add("bad arg %r" % (bad_arg,), "no error")
    # controller error override is active during the read and restored after
    for initial in (True, False):
        rv.errors.RAISE_CONTROLLER_VALUE_ERRORS = initial
        seen = []

        class Probe(io.BytesIO):
            def read(self, *a):
                seen.append(rv.errors.RAISE_CONTROLLER_VALUE_ERRORS)
                return super().read(*a)

        read_sunvox_file(Probe(blob))
        check(set(seen) == {rv.errors.RAISE_RANGE_ERRORS_ON_READ}, "override not active: %r" % set(seen))
        check(rv.errors.RAISE_CONTROLLER_VALUE_ERRORS is initial, "override not restored")
        try:
            read_sunvox_file(Probe(build([(b"SVOX", b""), (b"VERS", b"\0")])))
        except Exception:  # noqa
            pass
        check(rv.errors.RAISE_CONTROLLER_VALUE_ERRORS is initial, "override not restored after error")
    rv.errors.RAISE_CONTROLLER_VALUE_ERRORS = True
    # non seekable input
    for name, path in (("project", fn), ("synth", syn)):
        data = open(path, "rb").read()
        try:
            obj = read_sunvox_file(NoSeek(data))
            digest.add("noseek " + name, describe(obj))
        except Exception as exc:  # noqa
            digest.add("noseek " + name, "%s:%s" % (type(exc).__name__, exc))
    # chunk iterator on its own
    for label, data in (
        ("full", blob),
        ("empty", b""),
        ("3 bytes", b"SVO"),
        ("name only", b"SVOX"),
        ("short size", b"SVOX\0\0"),
        ("short payload", b"SVOX\x08\0\0\0abc"),
        ("odd sizes", build([(b"A   ", b"1"), (b"B   ", b"123"), (b"C   ", b"")])),
    ):
        for kind, factory in (("bytesio", io.BytesIO), ("noseek", NoSeek)):
            try:
                got = list(iff_chunks(factory(data)))
                digest.add("chunks %s %s" % (label, kind), describe(got))
            except Exception as exc:  # noqa
                digest.add("chunks %s %s" % (label, kind), type(exc).__name__)
    check(list(iff_chunks(io.BytesIO(blob))) == parse(blob), "chunk iterator disagrees with independent parser")
    # interleaving consumer seeks with the iterator (what rewind() relies on)
    stream = io.BytesIO(build([(b"A   ", b"12"), (b"B   ", b"3456"), (b"C   ", b"7")]))
    trace = []
    for name, data in iff_chunks(stream):
        trace.append((name, data, stream.tell()))
        if name == b"A   " and len(trace) == 1:
            stream.seek(0)
    digest.add("chunks with consumer seek", repr(trace))
    # Reader base class contracts
    base = Reader(io.BytesIO(b""))
    try:
        base.object
    except Exception as exc:  # noqa
        digest.add("base reader eof", "%s:%s" % (type(exc).__name__, exc))
    else:
        check(False, "base Reader did not raise at end of file")
    rdr = Reader(io.BytesIO(b""))
    rdr.object = 1
    try:
        rdr.object = 2
    except AttributeError as exc:
        digest.add("object set twice", str(exc))
    else:
        check(False, "setting object twice did not raise")
    check(rdr.object == 1, "object changed")

    class Toy(Reader):
        def __init__(self, f):
            super().__init__(f)
            self.calls = []
            self.attr_AAAA = "not callable"

        process_XXXX = "not callable either"

        def process_AB(self, data):
            self.calls.append(("AB", data, self.f.tell()))

        def process_RW(self, data):
            self.calls.append(("RW", data, self.f.tell()))
            if len(self.calls) < 4:
                self.rewind(data)

        def process_STOP(self, data):
            self.calls.append(("STOP", data))
            self.object = "stopped"
            raise ReaderFinished()

        def process_BOOM(self, data):
            raise KeyError("boom")

        def process_end_of_file(self):
            self.calls.append(("EOF",))
            self.object = "eof"
            raise ReaderFinished()

    streams = {
        "toy eof": [(b"AB  ", b"1"), (b"XXXX", b""), (b"NOPE", b"zz"), (b"PAMD", b""), (b" AB ", b"2")],
        "toy stop": [(b"AB  ", b"1"), (b"STOP", b"s"), (b"AB  ", b"never")],
        "toy rewind": [(b"AB  ", b"1"), (b"RW  ", b"abc"), (b"AB  ", b"2")],
        "toy boom": [(b"AB  ", b"1"), (b"BOOM", b""), (b"AB  ", b"2")],
    }
    for label, chunks_ in streams.items():
        cap = _Capture()
        logger = logging.getLogger("rv")
        logger.addHandler(cap)
        old = logger.level
        logger.setLevel(logging.DEBUG)
        toy = Toy(io.BytesIO(build(chunks_)))
        try:
            outcome = repr(toy.object)
        except Exception as exc:  # noqa
            outcome = "%s:%s" % (type(exc).__name__, exc)
        finally:
            logger.removeHandler(cap)
            logger.setLevel(old)
        digest.add(label, repr((outcome, toy.calls, cap.records, toy.f.tell())))


def sweep_attach(digest):
    """Project.attach_module / attach_pattern as used by the loader and by users."""
    from rv.api import Pattern, PatternClone, Project, m
    from rv.modules.module import Module

    def slots(project):
        return [None if x is None else (type(x).__name__, x.index, x.parent is project) for x in project.modules]

    p = Project()
    digest.add("attach fresh", repr(slots(p)))
    check(p.output is p.modules[0] and p.output.index == 0, "fresh project output")
    # loader style: positions are appended, gaps are kept
    q = Project()
    q.modules.clear()
    out = m.Output()
    a, b, c = m.Amplifier(), m.Generator(), m.Filter()
    check(q.attach_module(out, loading=True) is out, "attach returns module")
    check(q.attach_module(None, loading=True) is None, "attach None returns None")
    q.attach_module(a, loading=True)
    q.attach_module(None, loading=True)
    q.attach_module(None, loading=True)
    q.attach_module(b, loading=True)
    check(q.output is out, "output registered while loading")
    digest.add("attach loading", repr(slots(q)))
    check([x is not None for x in q.modules] == [True, False, True, False, False, True], "gaps rearranged")
    # attaching again is a no-op
    q.attach_module(a, loading=True)
    q.attach_module(a)
    digest.add("attach again", repr(slots(q)))
    # user style: first gap is reused
    q.attach_module(c)
    digest.add("attach fills gap", repr(slots(q)))
    check(c.index == 1 and q.modules[1] is c, "first gap not reused")
    d = q.new_module(m.Lfo)
    e = q.new_module(m.Echo)
    f = q.new_module(m.Reverb)
    digest.add("attach fills more", repr(slots(q)))
    check((d.index, e.index, f.index) == (3, 4, 6), "gap order %r" % ((d.index, e.index, f.index),))
    # a project built this way survives a write / read cycle position by position
    q.connect(a, q.output)
    q.connect(c, a)
    again = read_sunvox_file(io.BytesIO(q.read()))
    digest.add("attach roundtrip", describe(again))
    check(
        [type(x).__name__ for x in again.modules] == [type(x).__name__ for x in q.modules],
        "round trip rearranged modules",
    )
    # an Output elsewhere than position 0 does not become the project output
    late_out = m.Output()
    q.attach_module(late_out)
    check(q.output is out and late_out.index == 7, "late output")
    # Output put into an empty position 0
    r = Project()
    r.modules[0] = None
    r.output = None
    other = m.Amplifier()
    r.attach_module(other, loading=True)
    new_out = m.Output()
    r.attach_module(new_out)
    check(r.output is new_out and new_out.index == 0 and other.index == 1, "output into gap 0")
    digest.add("attach output gap", repr(slots(r)))
    # errors
    for label, call in (
        ("base module", lambda: q.attach_module(Module())),
        ("base module loading", lambda: q.attach_module(Module(), loading=True)),
        ("foreign module", lambda: Project().attach_module(a)),
        ("foreign module loading", lambda: Project().attach_module(a, loading=True)),
    ):
        before = slots(q)
        try:
            call()
        except Exception as exc:  # noqa
            digest.add("attach error " + label, "%s:%s" % (type(exc).__name__, exc))
        else:
            check(False, "attach %s did not raise" % label)
        check(slots(q) == before, "attach %s changed the project" % label)
    # += goes through the same code
    s = Project()
    s += [m.Amplifier(), m.Generator()]
    s += Pattern()
    s += PatternClone(source=0)
    check(s.attach_pattern(None) == 2, "attach_pattern index")
    digest.add("iadd", repr((slots(s), [type(x).__name__ for x in s.patterns])))
    try:
        Project().attach_pattern(s.patterns[0])
    except Exception as exc:  # noqa
        digest.add("pattern foreign", "%s:%s" % (type(exc).__name__, exc))
    else:
        check(False, "foreign pattern did not raise")


def main():
    logging.getLogger("rv").addHandler(logging.NullHandler())
    digest = Digest()
    check(len(FIXTURES) >= 50, "fixtures not found; run from the repository root")
    for fn in FIXTURES:
        sweep_fixture(digest, fn)
    sweep_synthetic(digest)
    sweep_handmade(digest)
    sweep_api(digest)
    sweep_attach(digest)
    finish(digest, EXPECTED)


EXPECTED = "7f0c590a2d8a749629d7ed8256554d78f224c83d02cf77ed13c42af4739841ee"

if __name__ == "__main__":
    main()
