"""C18-1 check: the strict/lenient switch in rv.errors.

Exercises override_raise_controller_value_errors and
raise_or_warn_controller_value_validation directly (both initial values,
nesting, exceptions, generator-close, decorator use, odd values), and then
through read_sunvox_file with failing loads (fault at every read call index,
truncation at every chunk boundary) for plain and nested fixtures.

Run from the repository root:
    PYTHONPATH=<root>/src/python /venv/bin/python check.py
"""
import io
import logging
import os
import struct
import sys
from pathlib import Path

import rv.errors as E
from rv.errors import (
    ControllerValueError,
    RangeValidationError,
    override_raise_controller_value_errors as override,
    raise_or_warn_controller_value_validation as raise_or_warn,
)
from rv.readers.reader import read_sunvox_file

logging.disable(logging.CRITICAL)

ROOT = Path(os.getcwd())
FILES = ROOT / "tests" / "files"
failures = []


def expect(cond, msg):
    if not cond:
        failures.append(msg)


class Boom(Exception):
    pass


# ---------------------------------------------------------------- direct use
SENTINELS = [True, False, 0, 1, None, "lenient", (), 2.5]


def check_context_manager():
    for initial in SENTINELS:
        for new in SENTINELS:
            E.RAISE_CONTROLLER_VALUE_ERRORS = initial
            cm = override(new)
            # nothing happens until the block is entered
            expect(E.RAISE_CONTROLLER_VALUE_ERRORS is initial, "eager set")
            with cm as bound:
                expect(bound is None, "as-target should be None")
                expect(E.RAISE_CONTROLLER_VALUE_ERRORS is new, "not set inside")
            expect(E.RAISE_CONTROLLER_VALUE_ERRORS is initial, "not restored")

            # exception leaves the block
            for exc_type in (Boom, KeyboardInterrupt, OSError, StopIteration):
                try:
                    with override(new):
                        expect(E.RAISE_CONTROLLER_VALUE_ERRORS is new, "inside/exc")
                        raise exc_type("x")
                except exc_type as e:
                    expect(e.args == ("x",), "exception args changed")
                except RuntimeError as e:
                    # contextmanager turns StopIteration into RuntimeError
                    expect(exc_type is StopIteration, "unexpected RuntimeError %r" % e)
                else:
                    expect(False, "exception swallowed")
                expect(
                    E.RAISE_CONTROLLER_VALUE_ERRORS is initial,
                    "not restored after %s" % exc_type.__name__,
                )

    # value captured at entry, not at creation
    E.RAISE_CONTROLLER_VALUE_ERRORS = True
    cm = override("inner")
    E.RAISE_CONTROLLER_VALUE_ERRORS = "changed-before-enter"
    with cm:
        expect(E.RAISE_CONTROLLER_VALUE_ERRORS == "inner", "late capture/inside")
    expect(E.RAISE_CONTROLLER_VALUE_ERRORS == "changed-before-enter", "late capture")

    # value changed by the body is overwritten on exit
    E.RAISE_CONTROLLER_VALUE_ERRORS = True
    with override(False):
        E.RAISE_CONTROLLER_VALUE_ERRORS = "body"
    expect(E.RAISE_CONTROLLER_VALUE_ERRORS is True, "body change not overwritten")

    # nesting, with failures at different depths
    for initial in (True, False):
        E.RAISE_CONTROLLER_VALUE_ERRORS = initial
        with override("a"):
            with override("b"):
                with override("c"):
                    expect(E.RAISE_CONTROLLER_VALUE_ERRORS == "c", "nest c")
                expect(E.RAISE_CONTROLLER_VALUE_ERRORS == "b", "nest b")
                try:
                    with override("d"):
                        with override("e"):
                            raise Boom()
                except Boom:
                    pass
                expect(E.RAISE_CONTROLLER_VALUE_ERRORS == "b", "nest b after exc")
            expect(E.RAISE_CONTROLLER_VALUE_ERRORS == "a", "nest a")
        expect(E.RAISE_CONTROLLER_VALUE_ERRORS is initial, "nest outer")

    # an exception can be swallowed *outside* and return values pass through
    def body():
        with override(False):
            return E.RAISE_CONTROLLER_VALUE_ERRORS

    E.RAISE_CONTROLLER_VALUE_ERRORS = True
    expect(body() is False, "return from inside block")
    expect(E.RAISE_CONTROLLER_VALUE_ERRORS is True, "restore after return")

    # loops with break / continue
    for i in range(3):
        with override(i):
            if i == 1:
                continue
            if i == 2:
                break
    expect(E.RAISE_CONTROLLER_VALUE_ERRORS is True, "restore after break/continue")

    # usable as a decorator (contextmanager objects are ContextDecorators)
    @override(False)
    def decorated(fail):
        if fail:
            raise Boom()
        return E.RAISE_CONTROLLER_VALUE_ERRORS

    for initial in (True, False):
        E.RAISE_CONTROLLER_VALUE_ERRORS = initial
        expect(decorated(False) is False, "decorator inside")
        expect(E.RAISE_CONTROLLER_VALUE_ERRORS is initial, "decorator restore")
        try:
            decorated(True)
        except Boom:
            pass
        expect(E.RAISE_CONTROLLER_VALUE_ERRORS is initial, "decorator restore/exc")

    # a generator holding the override open is closed -> restored
    def gen():
        with override("gen"):
            yield 1
            yield 2

    E.RAISE_CONTROLLER_VALUE_ERRORS = True
    g = gen()
    next(g)
    expect(E.RAISE_CONTROLLER_VALUE_ERRORS == "gen", "generator inside")
    g.close()
    expect(E.RAISE_CONTROLLER_VALUE_ERRORS is True, "generator close restore")

    # the context manager object is single use
    cm = override(False)
    with cm:
        pass
    try:
        with cm:
            expect(False, "re-entered single use context manager")
    except (RuntimeError, AttributeError):
        pass
    expect(E.RAISE_CONTROLLER_VALUE_ERRORS is True, "after single-use failure")
    expect(override.__name__ == "override_raise_controller_value_errors", "name")


class RecordingLog:
    def __init__(self):
        self.calls = []

    def warning(self, *args, **kwargs):
        self.calls.append((args, kwargs))


def check_raise_or_warn():
    cause = RangeValidationError(5, 0, 1)
    for argset in [("msg",), ("fmt %s", 1), (), ("a", "b", "c")]:
        # strict: every truthy value raises
        for strict in (True, 1, "yes"):
            E.RAISE_CONTROLLER_VALUE_ERRORS = strict
            log = RecordingLog()
            try:
                raise_or_warn(cause, log, *argset)
            except ControllerValueError as e:
                expect(type(e) is ControllerValueError, "error type")
                expect(isinstance(e, ValueError), "ValueError base")
                expect(e.args == argset, "error args")
                expect(e.__cause__ is cause, "error cause")
            else:
                expect(False, "strict mode did not raise")
            expect(log.calls == [], "strict mode logged")
        # lenient: every falsy value warns
        for lenient in (False, 0, None, ""):
            E.RAISE_CONTROLLER_VALUE_ERRORS = lenient
            log = RecordingLog()
            if not argset:
                # log.warning() of a real logger needs a message, the recording
                # one does not; behaviour is simply "forward *args"
                pass
            result = raise_or_warn(cause, log, *argset)
            expect(result is None, "lenient returns None")
            expect(log.calls == [(argset, {"exc_info": cause})], "lenient log call")
        # from_exc None is allowed
        E.RAISE_CONTROLLER_VALUE_ERRORS = True
        try:
            raise_or_warn(None, RecordingLog(), *argset)
        except ControllerValueError as e:
            expect(e.__cause__ is None, "cause None")
    # the switch is read at call time, inside an override
    E.RAISE_CONTROLLER_VALUE_ERRORS = True
    log = RecordingLog()
    with override(False):
        raise_or_warn(cause, log, "m")
    expect(len(log.calls) == 1, "override(False) should warn")
    E.RAISE_CONTROLLER_VALUE_ERRORS = False
    with override(True):
        try:
            raise_or_warn(cause, log, "m")
        except ControllerValueError:
            pass
        else:
            expect(False, "override(True) should raise")
    expect(E.RAISE_CONTROLLER_VALUE_ERRORS is False, "restore after raise")
    E.RAISE_CONTROLLER_VALUE_ERRORS = True


# ------------------------------------------------------------- through loads
class FaultyFile:
    """File wrapper raising OSError at the n-th read() call."""

    def __init__(self, raw, fail_at=None):
        self.raw = raw
        self.fail_at = fail_at
        self.reads = 0
        self.seen_flags = set()

    def read(self, *a):
        self.seen_flags.add(E.RAISE_CONTROLLER_VALUE_ERRORS)
        n = self.reads
        self.reads += 1
        if self.fail_at is not None and n == self.fail_at:
            raise OSError("injected at read %d" % n)
        return self.raw.read(*a)

    def seek(self, *a):
        return self.raw.seek(*a)

    def tell(self):
        return self.raw.tell()

    def close(self):
        return self.raw.close()

    @property
    def closed(self):
        return self.raw.closed


def chunk_boundaries(data):
    pos, out = 0, [0]
    while pos + 8 <= len(data):
        (size,) = struct.unpack("<I", data[pos + 4 : pos + 8])
        out.append(pos + 8)
        pos += 8 + size
        out.append(min(pos, len(data)))
    return sorted(set(out))


def outcome(fn):
    try:
        obj = fn()
    except BaseException as e:  # noqa
        return "exc:" + type(e).__name__
    return "ok:" + type(obj).__name__


def check_loads():
    names = [
        "amplifier.sunsynth",
        "metamodule.sunsynth",
        "sampler.sunsynth",
        "empty.sunvox",
        "issue54/test1.sunvox",
    ]
    for name in names:
        data = (FILES / name).read_bytes()
        for initial in (True, False):
            E.RAISE_CONTROLLER_VALUE_ERRORS = initial
            f = FaultyFile(io.BytesIO(data))
            obj = read_sunvox_file(f)
            expect(type(obj).__name__ in ("Synth", "Project"), name + " result")
            expect(E.RAISE_CONTROLLER_VALUE_ERRORS is initial, name + " ok restore")
            expect(f.seen_flags == {False}, name + " flag during load")
            total = f.reads
            expect(total > 3, "no reads?")
            step = 1 if total < 400 else 7
            for n in list(range(0, total, step)) + [total - 1]:
                ff = FaultyFile(io.BytesIO(data), fail_at=n)
                try:
                    read_sunvox_file(ff)
                except OSError as e:
                    expect("injected" in str(e), "other OSError")
                else:
                    expect(False, "%s: fault %d swallowed" % (name, n))
                expect(
                    E.RAISE_CONTROLLER_VALUE_ERRORS is initial,
                    "%s: flag not restored after fault at read %d" % (name, n),
                )
                expect(ff.seen_flags <= {False}, "flag during failing load")
            cuts = chunk_boundaries(data)
            if len(cuts) > 300:
                cuts = cuts[::5]
            for k in cuts:
                res = outcome(lambda: read_sunvox_file(io.BytesIO(data[:k])))
                expect(
                    E.RAISE_CONTROLLER_VALUE_ERRORS is initial,
                    "%s: flag not restored after truncation at %d (%s)"
                    % (name, k, res),
                )


def check_lenient_load_then_strict_api():
    data = bytearray((FILES / "amplifier.sunsynth").read_bytes())
    i = data.index(b"CVAL")
    data[i + 8 : i + 12] = struct.pack("<I", 0x7FFFFFF)  # volume way above 1024
    E.RAISE_CONTROLLER_VALUE_ERRORS = True
    synth = read_sunvox_file(io.BytesIO(bytes(data)))
    expect(synth.module.volume == 0x7FFFFFF, "lenient load keeps raw value")
    expect(E.RAISE_CONTROLLER_VALUE_ERRORS is True, "strict after lenient load")
    try:
        synth.module.volume = 99999
    except ControllerValueError:
        pass
    else:
        expect(False, "API is lenient after a lenient load")
    try:
        synth.module.set_raw("volume", 99999)
    except ControllerValueError:
        pass
    else:
        expect(False, "set_raw lenient after a lenient load")
    with override(False):
        synth.module.set_raw("volume", 99999)
    expect(synth.module.volume == 99999, "explicit lenient set_raw")


def main():
    saved = E.RAISE_CONTROLLER_VALUE_ERRORS
    try:
        check_context_manager()
        check_raise_or_warn()
        check_loads()
        check_lenient_load_then_strict_api()
    finally:
        E.RAISE_CONTROLLER_VALUE_ERRORS = saved
    if failures:
        for f in sorted(set(failures))[:40]:
            print("FAIL:", f)
        print("FAIL (%d)" % len(failures))
        sys.exit(1)
    print("PASS")


if __name__ == "__main__":
    main()
