"""Behaviour check for Module.get_raw / Module.set_raw and Controller.set_initial.

Focus: conversion between controller values and raw (stored) values through the
module API (enum -> .value, None -> 0, bool -> int, ranges via their offset
convention), and the out-of-range handling shared by set_raw and set_initial
(strict: ControllerValueError with the exact message; lenient: warning + value kept).

Run from the repository root:
    PYTHONPATH=<root>/src/python python check.py
"""

import io
import logging
import sys
from enum import Enum

import rv.api  # noqa: F401  (makes sure every module class is registered)
from rv import controller as C
from rv.controller import DependentRange, NoOffsetRange, Range, WarnOnlyRange
from rv.errors import (
    ControllerValueError,
    RangeValidationError,
    override_raise_controller_value_errors,
)
from rv.modules import MODULE_CLASSES
from rv.modules import module as M

FAILURES = []


def check(cond, *what):
    if not cond:
        FAILURES.append(" ".join(str(w) for w in what))
        if len(FAILURES) > 20:
            finish()


def finish():
    if FAILURES:
        print("FAIL")
        for f in FAILURES:
            print("  ", f)
        sys.exit(1)
    print("PASS")
    sys.exit(0)


class Capture(logging.Handler):
    def __init__(self, logger):
        super().__init__()
        self.records = []
        self.logger = logger

    def emit(self, record):
        self.records.append(record)

    def __enter__(self):
        self.logger.addHandler(self)
        return self

    def __exit__(self, *exc):
        self.logger.removeHandler(self)


def expected_raw(t, v):
    if type(t) is NoOffsetRange:
        return v
    return v - t.min if t.min < 0 else v


def sample_values(t, full_limit=5000):
    lo, hi = t.min, t.max
    if hi - lo <= full_limit:
        return range(lo, hi + 1)
    vals = set(range(lo, lo + 200)) | set(range(hi - 200, hi + 1))
    vals |= set(range(lo, hi + 1, 211))
    vals |= {0, 1, -1, (lo + hi) // 2} & set(range(lo, hi + 1))
    return sorted(vals)


def variants(mod, ctl):
    """Yield the concrete value types of a controller (all unit variants)."""
    vt = ctl.value_type
    if isinstance(vt, DependentRange):
        for unit, t in vt.range_map.items():
            mod.controller_values[vt.ctl_name] = unit
            yield t
    else:
        yield ctl.instance_value_type(mod)


def message(mod, name, value, t):
    return "{:x}({}).{}={} is not within [{}, {}]".format(
        mod.index or 0, mod.mtype, name, value, t.min, t.max
    )


def roundtrip_checks():
    pairs = 0
    for mtype, cls in sorted(MODULE_CLASSES.items()):
        mod = cls()
        for name, ctl in cls.controllers.items():
            if type(ctl).__name__ == "UserDefinedProxy":
                continue
            for t in variants(mod, ctl):
                check(ctl.instance_value_type(mod) is t, "value type", mtype, name)
                if isinstance(t, Range):
                    for v in sample_values(t):
                        pairs += 1
                        mod.controller_values[name] = v
                        raw = mod.get_raw(name)
                        if type(raw) is not int or raw != expected_raw(t, v):
                            check(False, "get_raw", mtype, name, t, v, raw)
                        mod.controller_values[name] = None
                        mod.set_raw(name, raw)
                        back = mod.controller_values[name]
                        if type(back) is not int or back != v:
                            check(False, "set_raw", mtype, name, t, v, back)
                elif isinstance(t, type) and issubclass(t, Enum):
                    for member in t:
                        pairs += 1
                        mod.controller_values[name] = member
                        raw = mod.get_raw(name)
                        check(
                            type(raw) is int and raw == member.value,
                            "enum get_raw",
                            mtype,
                            name,
                            member,
                        )
                        mod.controller_values[name] = None
                        mod.set_raw(name, raw)
                        check(
                            mod.controller_values[name] is member,
                            "enum set_raw",
                            mtype,
                            name,
                        )
                    bad = max(m.value for m in t) + 1
                    try:
                        mod.set_raw(name, bad)
                    except ValueError as e:
                        check(
                            not isinstance(e, ControllerValueError),
                            "enum error type",
                            mtype,
                            name,
                        )
                    else:
                        check(False, "bad enum raw accepted", mtype, name)
                elif t is bool:
                    for b in (False, True):
                        pairs += 1
                        mod.controller_values[name] = b
                        raw = mod.get_raw(name)
                        check(type(raw) is int and raw == int(b), "bool raw", name)
                        mod.controller_values[name] = None
                        mod.set_raw(name, raw)
                        check(mod.controller_values[name] is b, "bool set_raw", name)
                    mod.set_raw(name, 5)
                    check(mod.controller_values[name] is True, "bool nonzero raw")
                else:
                    check(False, "unexpected value type", mtype, name, t)
                # a missing value is stored like 0
                mod.controller_values[name] = None
                want = expected_raw(t, 0) if isinstance(t, Range) else 0
                check(mod.get_raw(name) == want, "None raw", mtype, name)
    check(pairs > 50000, "too few pairs", pairs)
    return pairs


def out_of_range_checks():
    """Strict and lenient handling, for set_raw and for assignment/construction."""
    n = 0
    for mtype, cls in sorted(MODULE_CLASSES.items()):
        mod = cls(index=0x1F) if mtype != "Output" else cls()
        for name, ctl in cls.controllers.items():
            if type(ctl).__name__ == "UserDefinedProxy":
                continue
            for t in variants(mod, ctl):
                if not isinstance(t, Range):
                    continue
                n += 1
                keep = mod.controller_values[name]
                for v in (t.min - 1, t.max + 1, t.max + 1000):
                    raw = expected_raw(t, v)
                    msg = message(mod, name, v, t)
                    if isinstance(t, WarnOnlyRange):
                        with Capture(C.log) as cap:
                            mod.set_raw(name, raw)
                        check(mod.controller_values[name] == v, "warn set_raw", name)
                        check(len(cap.records) == 1, "warn set_raw log", name)
                        with Capture(C.log) as cap:
                            ctl.set_initial(mod, v)
                        check(mod.controller_values[name] == v, "warn initial", name)
                        check(len(cap.records) == 1, "warn initial log", name)
                        continue
                    # strict
                    mod.controller_values[name] = keep
                    try:
                        mod.set_raw(name, raw)
                    except ControllerValueError as e:
                        check(e.args == (msg,), "set_raw message", e.args, msg)
                        check(
                            isinstance(e.__cause__, RangeValidationError)
                            and e.__cause__.args == (v, t.min, t.max),
                            "set_raw cause",
                        )
                    else:
                        check(False, "set_raw accepted", mtype, name, v)
                    check(mod.controller_values[name] == keep, "strict keeps old")
                    try:
                        ctl.set_initial(mod, v)
                    except ControllerValueError as e:
                        check(e.args == (msg,), "initial message", e.args, msg)
                        check(
                            isinstance(e.__cause__, RangeValidationError), "init cause"
                        )
                    else:
                        check(False, "set_initial accepted", mtype, name, v)
                    check(mod.controller_values[name] == keep, "strict keeps old 2")
                    # lenient
                    with override_raise_controller_value_errors(False):
                        with Capture(M.log) as cap:
                            mod.set_raw(name, raw)
                        check(mod.controller_values[name] == v, "lenient set_raw")
                        check(
                            len(cap.records) == 1
                            and cap.records[0].getMessage() == msg
                            and cap.records[0].levelno == logging.WARNING
                            and cap.records[0].exc_info[1].args == (v, t.min, t.max),
                            "lenient set_raw log",
                        )
                        mod.controller_values[name] = keep
                        with Capture(C.log) as cap:
                            ctl.set_initial(mod, v)
                        check(mod.controller_values[name] == v, "lenient initial")
                        check(
                            len(cap.records) == 1
                            and cap.records[0].getMessage() == msg,
                            "lenient initial log",
                        )
                mod.controller_values[name] = keep
    check(n > 300, "too few ranged controllers", n)


def set_initial_checks():
    Amplifier = MODULE_CLASSES["Amplifier"]
    Analog = MODULE_CLASSES["Analog generator"]
    amp = Amplifier(volume=100, balance=-5, inverse=True)
    check((amp.volume, amp.balance, amp.inverse) == (100, -5, True), "ctor values")
    check(amp.get_raw("balance") == 123 and amp.get_raw("inverse") == 1, "ctor raw")
    try:
        Amplifier(balance=129)
    except ControllerValueError as e:
        check(
            e.args == ("0(Amplifier).balance=129 is not within [-128, 128]",),
            "ctor message",
            e.args,
        )
    else:
        check(False, "ctor accepted out of range")
    try:
        amp.volume = -1
    except ControllerValueError as e:
        check(
            e.args == ("0(Amplifier).volume=-1 is not within [0, 1024]",),
            "assign message",
            e.args,
        )
    else:
        check(False, "assignment accepted out of range")
    check(amp.volume == 100, "failed assignment keeps value")

    # enum members by name, by value, by member
    gen = Analog(waveform="saw")
    check(gen.waveform is Analog.Waveform.saw, "enum by name")
    gen.waveform = Analog.Waveform.square.value
    check(gen.waveform is Analog.Waveform.square, "enum by value")
    gen.waveform = Analog.Waveform.noise
    check(gen.waveform is Analog.Waveform.noise, "enum by member")
    check(gen.get_raw("waveform") == Analog.Waveform.noise.value, "enum raw")
    try:
        gen.waveform = "no_such_waveform"
    except KeyError:
        pass
    else:
        check(False, "bad enum name accepted")
    try:
        gen.waveform = 9999
    except ValueError as e:
        check(not isinstance(e, ControllerValueError), "bad enum value error type")
    else:
        check(False, "bad enum value accepted")
    # bool coercion
    amp.inverse = 0
    check(amp.inverse is False, "bool coercion")
    amp.inverse = "x"
    check(amp.inverse is True, "bool coercion str")

    # a controller without a value type stores None
    class Holder:
        index = None
        mtype = "Holder"

        def __init__(self):
            self.controller_values = {}
            self.controllers_loaded = set()

    ctl = C.Controller(None, 0)
    ctl.name = "free"
    holder = Holder()
    ctl.set_initial(holder, 42)
    check(holder.controller_values == {"free": None}, "None value type")
    ctl2 = C.Controller((-4, 4), 0)
    ctl2.name = "small"
    ctl2.set_initial(holder, 4)
    check(holder.controller_values["small"] == 4, "tuple value type")
    try:
        ctl2.set_initial(holder, "saw")
    except TypeError:
        pass
    else:
        check(False, "str into range accepted")
    try:
        ctl2.set_initial(holder, 5)
    except ControllerValueError as e:
        check(e.args == ("0(Holder).small=5 is not within [-4, 4]",), "holder msg")
    else:
        check(False, "holder accepted out of range")

    # unknown controller names
    for call in (lambda: amp.get_raw("nope"), lambda: amp.set_raw("nope", 1)):
        try:
            call()
        except KeyError:
            pass
        else:
            check(False, "unknown controller accepted")


def metamodule_checks():
    from rv.api import Project
    from rv.modules.metamodule import MetaModule

    project = Project()
    meta = project.new_module(MetaModule)
    meta.user_defined_controllers = 2
    name = "user_defined_1"
    meta.set_raw(name, 1234)
    check(meta.controller_values[name] == 1234, "user defined set_raw")
    check(meta.get_raw(name) == 1234, "user defined get_raw")
    meta.user_defined[0].value_type = Range(-100, 100)
    meta.set_raw(name, 0)
    check(meta.controller_values[name] == -100, "user defined retargeted set_raw")
    check(meta.get_raw(name) == 0, "user defined retargeted get_raw")
    try:
        meta.set_raw(name, 201)
    except ControllerValueError as e:
        want = "{:x}(MetaModule).user_defined_1=101 is not within [-100, 100]".format(
            meta.index or 0
        )
        check(e.args == (want,), "user defined message", e.args)
    else:
        check(False, "user defined out of range accepted")


def file_roundtrip_checks():
    from rv.api import Project, read_sunvox_file

    project = Project()
    amp = project.new_module(MODULE_CLASSES["Amplifier"], balance=-128, volume=1024)
    vp = project.new_module(MODULE_CLASSES["Vorbis player"], finetune=-128)
    ms = project.new_module(MODULE_CLASSES["MultiSynth"], transpose=-128, finetune=256)
    f = io.BytesIO()
    project.write_to(f)
    f.seek(0)
    again = read_sunvox_file(f)
    a2, v2, m2 = again.modules[amp.index], again.modules[vp.index], again.modules[ms.index]
    check((a2.balance, a2.volume) == (-128, 1024), "file amp")
    check(v2.finetune == -128 and v2.transpose == 0, "file vorbis")
    check((m2.transpose, m2.finetune) == (-128, 256), "file multisynth")


if __name__ == "__main__":
    n = roundtrip_checks()
    out_of_range_checks()
    set_initial_checks()
    metamodule_checks()
    file_roundtrip_checks()
    print(f"checked {n} (controller, value) pairs")
    finish()
