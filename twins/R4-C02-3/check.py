"""Behaviour check for the module loader (ModuleReader: names, links, SMII, CVAL
application order), Module.options_chunks/load_options/load_cmid and the
per-type load_chunk dispatch.  Passes on the unchanged tree and with the
refactoring applied.
"""
import contextlib
import io
import itertools
import logging
import random
import struct
import sys
from types import SimpleNamespace

from rv.api import Project, Synth, read_sunvox_file
from rv import modules as m
from rv.cmidmap import MidiMessageType, Slope
from rv.lib.iff import write_chunk
from rv.modules import MODULE_CLASSES

rnd = random.Random(7)
failures = []
logging.getLogger().addHandler(logging.NullHandler())


def check(cond, msg):
    if not cond:
        failures.append(msg)


def quiet(fn, *a, **kw):
    with contextlib.redirect_stdout(io.StringIO()):
        return fn(*a, **kw)


def build(chunks):
    buf = io.BytesIO()
    for name, data in chunks:
        write_chunk(buf, name, data)
    buf.seek(0)
    return buf


def load_synth(chunks):
    return quiet(read_sunvox_file, build(chunks)).module


def rewrite(mod, edit):
    """Serialise ``mod`` stand-alone, let ``edit`` alter the chunk list, reload."""
    chunks = list(Synth(mod).chunks())
    return load_synth(edit(chunks))


class Capture(logging.Handler):
    def __init__(self):
        super().__init__(level=logging.DEBUG)
        self.records = []

    def emit(self, record):
        self.records.append((record.levelname, record.getMessage()))


# ---------------------------------------------------------------- options
for mtype, cls in sorted(MODULE_CLASSES.items()):
    if not cls.options or mtype == "Output":
        continue
    for trial in range(6):
        mod = quiet(cls)
        expect = {}
        for name, opt in cls.options.items():
            if opt.size == 1:
                v = [False, True, rnd.random() < 0.5][trial % 3]
            else:
                v = [0, (1 << opt.size) - 1, rnd.randrange(1 << opt.size)][trial % 3]
            mod.option_values[name] = v
            expect[name] = v
        oc = list(mod.options_chunks())
        check(oc[0] == (b"CHNM", struct.pack("<I", cls.options_chnm)), mtype + " options chnm")
        nbytes = max(o.byte for o in cls.options.values()) + 1
        ref = [0] * nbytes
        for name, opt in cls.options.items():
            ref[opt.byte] |= (int(expect[name]) & ((1 << opt.size) - 1)) << opt.bit
        check(oc[1] == (b"CHDT", bytes(ref)), mtype + " options bytes")
        check(len(oc) == 2, mtype + " two option chunks")
        fresh = quiet(cls)
        fresh.load_options(SimpleNamespace(chdt=oc[1][1]))
        for name, opt in cls.options.items():
            got = fresh.option_values[name]
            check(got == expect[name], "%s.%s option value" % (mtype, name))
            check((type(got) is bool) == (opt.size == 1), "%s.%s option type" % (mtype, name))
        if mtype != "MetaModule":
            back = quiet(mod.clone)
            check({k: back.option_values[k] for k in expect} == expect, mtype + " options clone")

ms = m.MultiSynth()
ms.load_options(SimpleNamespace(chdt=b""))
check(all(not v for v in ms.option_values.values()), "empty options data -> all zero")
ms.load_options(SimpleNamespace(chdt=bytes([255] * 100)))
check(ms.option_values["active_curve"] == 3 and ms.option_values["trigger"] is True
      and ms.option_values["out_port_mode"] == 3, "oversized options data")
ms.load_options(SimpleNamespace(chdt=[1, 0, 2]))
check(ms.option_values["use_static_note_C5"] is True and ms.option_values["active_curve"] == 2
      and ms.option_values["trigger"] is False, "short list data padded")
try:
    ms.load_options(SimpleNamespace(chdt=None))
    check(False, "None chdt")
except TypeError:
    pass
ms.option_values["trigger"] = None
try:
    list(ms.options_chunks())
    check(False, "None option must fail")
except TypeError:
    pass
ms.option_values["trigger"] = True
ms.option_values["active_curve"] = m.MultiSynth.ActiveCurve.note_pitch
ms.option_values["out_port_mode"] = 7  # wider than the field: masked
data = dict(ms.options_chunks())[b"CHDT"]
check(data[2] == 2 and data[3] == 1 and data[4] >> 6 == 3, "enum + masking")
amp = m.Amplifier()
check(list(amp.specialized_iff_chunks()) == [(None, None)], "no options -> placeholder")

# ------------------------------------------------------------------- CMID
lfo = m.Lfo()
names = list(lfo.controllers)
n = len(names)


def rec(t, ch, sl, par):
    return struct.pack("<BBBBHBB", t, ch, sl, 0, par, 0, 0xC8 if t else 0xFF)


records = [rec(i % 9, i + 1, i % 6, 1000 + i) for i in range(n)]
blob = b"".join(records)
for cut in [0, 1, 7, 8, 9, 15, 16, 8 * n - 1, 8 * n, 8 * n + 5, 8 * n + 8, 8 * n + 24]:
    mod = m.Lfo()
    mod.load_cmid((blob + b"\x01" * 24)[:cut])
    full = min(cut // 8, n)
    check(sorted(mod.controller_midi_maps) == sorted(names[:full]),
          "cmid cut %d touches exactly %d maps" % (cut, full))
    for i in range(full):
        cm = mod.controller_midi_maps[names[i]]
        check((cm.message_type, cm.channel, cm.slope, cm.message_parameter)
              == (MidiMessageType(i % 9), i + 1, Slope(i % 6), 1000 + i), "cmid record %d" % i)
        check(cm.cmid_data == records[i], "cmid re-encode")
mod = m.Lfo()
try:
    mod.load_cmid(records[0] + rec(1, 1, 1, 1)[:0] + bytes([200]) + bytes(7) + records[2])
    check(False, "bad message type must raise")
except ValueError:
    check(list(mod.controller_midi_maps) == names[:2], "records before the bad one applied")

# full-file CMID round trip (stand-alone and in project)
mod = m.Lfo()
for i, k in enumerate(names):
    cm = mod.controller_midi_maps[k]
    cm.message_type, cm.channel, cm.slope, cm.message_parameter = (
        MidiMessageType(i % 9), i, Slope(i % 6), 65535 - i)
proj = Project()
pm = proj.attach_module(quiet(mod.clone))
pb = io.BytesIO()
proj.write_to(pb)
pb.seek(0)
for back in (mod.clone(), read_sunvox_file(pb).modules[pm.index]):
    for k in names:
        check(back.controller_midi_maps[k].cmid_data == mod.controller_midi_maps[k].cmid_data,
              "cmid rt " + k)

# ------------------------------------------------- names / SMII / links
def with_chunk(name, data):
    def edit(chunks):
        out = [(n_, data if n_ == name else d) for n_, d in chunks]
        return out
    return edit


for raw, want in [(b"abc\0def\0", "abc"), (b"noterm", "noterm"), (b"\0abc", ""), (b"", ""),
                  ("é".encode() * 3 + b"\0\0\0", "ééé")]:
    check(rewrite(m.Amplifier(), with_chunk(b"SNAM", raw)).name == want, "SNAM %r" % raw)


def add_smin(raw):
    def edit(chunks):
        out = []
        for n_, d in chunks:
            if n_ == b"SMIC":
                out.append((b"SMIN", raw))
            out.append((n_, d))
        return out
    return edit


for raw, want in [(b"dev\0", "dev"), (b"dev", "dev"), (b"a\0b", "a"), (b"\0", "")]:
    check(rewrite(m.Amplifier(), add_smin(raw)).midi_out_name == want, "SMIN %r" % raw)
def retype(raw):
    def edit(chunks):
        return [(n_, raw if n_ == b"STYP" else d) for n_, d in chunks
                if n_ not in (b"CVAL", b"CMID")]
    return edit


check(type(rewrite(m.Amplifier(), retype(b"LFO\0junk"))) is m.Lfo, "STYP up to NUL")
check(type(rewrite(m.Amplifier(), retype(b"LFO"))) is m.Lfo, "STYP unterminated")
try:
    rewrite(m.Amplifier(), with_chunk(b"STYP", b"Nope\0"))
    check(False, "unknown type")
except KeyError:
    pass
for x in [0, 1, 2, 3, 30, 31, 0xFFFFFFFF, 0xFFFFFFFE, 0x80000001]:
    back = rewrite(m.Amplifier(), with_chunk(b"SMII", struct.pack("<I", x)))
    check(back.midi_in_always is bool(x & 1) and back.midi_in_channel == x >> 1, "SMII %x" % x)
for always, ch in itertools.product([False, True], [0, 1, 15, 16]):
    back = m.Amplifier(midi_in_always=always, midi_in_channel=ch).clone()
    check((back.midi_in_always, back.midi_in_channel) == (always, ch), "SMII rt")


def with_links(slnk, slnk2=None):
    def edit(chunks):
        out = []
        for n_, d in chunks:
            if n_ == b"CVAL" and not any(o[0] == b"SLNK" for o in out):
                for part in slnk:
                    out.append((b"SLNK", part))
                for part in (slnk2 or []):
                    out.append((b"SLnK", part))
            out.append((n_, d))
        return out
    return edit


def i32(*v):
    return struct.pack("<%di" % len(v), *v)


cases = [
    ([b""], [], None),
    ([i32(3, -1, 5, -1, -1)], [3, -1, 5], None),
    ([i32(-1, -1)], [], None),
    ([i32(-1)], [], None),
    ([i32(7)], [7], None),
    ([i32(1, 2), i32(-1, 4, -1)], [1, 2, -1, 4], None),
    ([i32(1, -1), b""], [1], None),
    ([i32(2, 0, 1)], [2, 0, 1], None),
]
for parts, want, _ in cases:
    back = rewrite(m.Amplifier(), with_links(parts, parts))
    check(back.in_links == want, "SLNK %r -> %r" % (parts, back.in_links))
    check(back.in_link_slots == want, "SLnK %r -> %r" % (parts, back.in_link_slots))
for bad in (b"\x01", b"\x01\x02\x03", i32(1) + b"\x00"):
    for which in (0, 1):
        try:
            rewrite(m.Amplifier(), with_links([bad] if which == 0 else [b""],
                                              None if which == 0 else [bad]))
            check(False, "misaligned link data must fail")
        except struct.error:
            pass

# links through a real project
proj = Project()
a = proj.new_module(m.Generator)
b = proj.new_module(m.Amplifier)
c = proj.new_module(m.Reverb)
a >> b >> c >> proj.output
a >> c
pb = io.BytesIO()
proj.write_to(pb)
pb.seek(0)
p2 = quiet(read_sunvox_file, pb)
for i, mod in enumerate(proj.modules):
    check(p2.modules[i].in_links == mod.in_links, "project in_links %d" % i)
    check(p2.modules[i].in_link_slots == mod.in_link_slots, "project in_link_slots %d" % i)

# ------------------------------------------------- CVAL application order
cap = Capture()
lg = logging.getLogger("rv.readers.module")
old = lg.level
lg.addHandler(cap)
lg.setLevel(logging.DEBUG)
try:
    amp = m.Amplifier(volume=1024, balance=-128, dc_offset=128)
    keys = list(m.Amplifier.controllers)

    def extra_cvals(chunks):
        out = []
        for n_, d in chunks:
            if n_ == b"CMID":
                out.append((b"CVAL", struct.pack("<i", 111)))
                out.append((b"CVAL", struct.pack("<i", -222)))
            out.append((n_, d))
        return out

    cap.records.clear()
    back = rewrite(amp, extra_cvals)
    msgs = [r for r in cap.records
            if r[1].startswith("Setting ") or r[1].startswith("Unsupported")]
    want = [("WARNING", "Unsupported controller at index %d with raw value -222" % (len(keys) + 1)),
            ("WARNING", "Unsupported controller at index %d with raw value 111" % len(keys))]
    want += [("DEBUG", "Setting %s from raw %d" % (k, amp.get_raw(k))) for k in reversed(keys)]
    check(msgs == want, "CVAL log sequence: %r" % (msgs,))
    check(all(getattr(back, k) == getattr(amp, k) for k in keys), "values with surplus CVALs")

    def fewer_cvals(chunks):
        seen = 0
        out = []
        for n_, d in chunks:
            if n_ == b"CVAL":
                seen += 1
                if seen > 2:
                    continue
            out.append((n_, d))
        return out

    cap.records.clear()
    back = rewrite(amp, fewer_cvals)
    msgs = [r[1] for r in cap.records if r[1].startswith("Setting ")]
    check(msgs == ["Setting %s from raw %d" % (k, amp.get_raw(k)) for k in reversed(keys[:2])],
          "only the CVALs present are applied")
    check(getattr(back, keys[2]) == m.Amplifier.controllers[keys[2]].default, "others keep default")
    check(back.controllers_loaded >= set(keys), "controllers_loaded")

    def no_cvals(chunks):
        return [c for c in chunks if c[0] != b"CVAL"]

    cap.records.clear()
    back = rewrite(amp, no_cvals)
    check(not [r for r in cap.records if r[1].startswith(("Setting", "Unsupported"))], "no CVALs")
    check(back.volume == m.Amplifier.controllers["volume"].default, "defaults without CVALs")
finally:
    lg.removeHandler(cap)
    lg.setLevel(old)

# unit controllers load before their dependants (reverse CVAL order)
for cls in (m.Lfo, m.Delay, m.Echo, m.Vibrato):
    for name, ctl in cls.controllers.items():
        vt = ctl.value_type
        if not hasattr(vt, "range_map"):
            continue
        for unit, rng in vt.range_map.items():
            for value in (rng.min, rng.max):
                mod = cls()
                setattr(mod, vt.ctl_name, unit)
                setattr(mod, name, value)
                back = mod.clone()
                check(getattr(back, vt.ctl_name) == unit and getattr(back, name) == value,
                      "%s.%s=%r under %r" % (cls.__name__, name, value, unit))

# ------------------------------------------------- per-type load_chunk dispatch
def fake(chnm, chdt):
    return SimpleNamespace(chnm=chnm, chdt=chdt, chff=0, chfr=44100)


ms = m.MultiSynth()
ms.load_chunk(fake(0, bytes(range(128))))
ms.load_chunk(fake(2, bytes([9] * 257)))
ms.load_chunk(fake(3, struct.pack("<128H", *range(1000, 1128))))
ms.load_chunk(fake(1, bytes([1, 1, 1, 1])))
ms.load_chunk(fake(7, b"ignored"))
check(ms.nv_curve.values == list(range(128)) and ms.vv_curve.values == [9] * 257
      and ms.np_curve.values == list(range(1000, 1128)), "MultiSynth curves dispatch")
check(ms.option_values["trigger"] is True and ms.option_values["active_curve"] == 1,
      "MultiSynth options dispatch")
mc = m.MultiCtl()
mc.load_chunk(fake(0, struct.pack("<8I", 1, 2, 3, 4, 5, 6, 7, 8)))
mc.load_chunk(fake(1, struct.pack("<257H", *range(257))))
mc.load_chunk(fake(2, b"\xff"))
check((mc.mappings.values[0].min, mc.mappings.values[0].future_use5) == (1, 8)
      and len(mc.mappings.values) == 1 and mc.curve.values == list(range(257)), "MultiCtl dispatch")
ag = quiet(m.AnalogGenerator)
ag.load_chunk(fake(0, bytes([0, 127, 128, 255])))
ag.load_chunk(fake(1, bytes([1] * 16)))
ag.load_chunk(fake(5, b""))
check(ag.drawn_waveform.samples == [0, 127, -128, -1], "AnalogGenerator waveform dispatch")
check(any(v is True for v in ag.option_values.values()), "AnalogGenerator options dispatch")
# precedence when options_chnm collides with a data chunk number
ag2 = quiet(m.AnalogGenerator)
ag2.options_chnm = 0
ag2.load_chunk(fake(0, bytes([1] * 16)))
check(ag2.drawn_waveform.is_default and any(v is True for v in ag2.option_values.values()),
      "options branch wins")

if failures:
    print("FAIL")
    for f_ in failures[:40]:
        print(" -", f_)
    sys.exit(1)
print("PASS")
