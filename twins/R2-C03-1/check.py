"""Behaviour check for refactoring C03-1 (Project.chunks / Synth.chunks).

Run as:  cd <root> && PYTHONPATH=<root>/src/python python check.py

The script builds a deterministic corpus of projects and synths, serializes
them, decodes the bytes with a small independent chunk decoder, and checks

* the exact chunk order of the project header, pattern slots and module slots,
* the decoded values against the objects' public state,
* SLNK / SLnK / CVAL / CMID / CHNK structural rules,
* error behaviour (struct.error, EmptySynthError, RuntimeError),
* sha256 digests of every output (recorded on the unrefactored tree).
"""
import hashlib
import io
import os
import struct
import sys
import warnings

warnings.filterwarnings("ignore")

from rv.api import NOTE, NOTECMD, Pattern, PatternClone, Project, Synth, m
from rv.api import read_sunvox_file
from rv.cmidmap import MidiMessageType, Slope
from rv.errors import EmptySynthError
from rv.modules import MODULE_CLASSES

FAILURES = []


def check(cond, msg):
    if not cond:
        FAILURES.append(msg)


# ---------------------------------------------------------------- decoder
def decode(data):
    """Independent chunk-stream decoder: list of (id, payload)."""
    out = []
    pos = 0
    while pos < len(data):
        assert pos + 8 <= len(data), "truncated chunk header"
        cid = data[pos : pos + 4]
        (size,) = struct.unpack_from("<I", data, pos + 4)
        pos += 8
        assert pos + size <= len(data), "truncated chunk payload"
        out.append((cid, data[pos : pos + size]))
        pos += size
    assert pos == len(data)
    return out


def u32(b):
    assert len(b) == 4
    return struct.unpack("<I", b)[0]


def i32(b):
    assert len(b) == 4
    return struct.unpack("<i", b)[0]


# ---------------------------------------------------------------- corpus
def all_modules():
    return [MODULE_CLASSES[k]() for k in sorted(MODULE_CLASSES) if k != "Output"]


def project_empty():
    return Project()


def project_header_variants():
    p = Project()
    p.name = "Héader ☃ test"
    p.sunvox_version = (1, 9, 6, 1)
    p.based_on_version = (2, 0, 0, 255)
    p.flags = 0xDEADBEEF
    p.initial_bpm = 300
    p.initial_tpl = 31
    p.time_grid = 7
    p.time_grid2 = 9
    p.global_volume = 256
    p.modules_scale = 123
    p.modules_zoom = 321
    p.modules_x_offset = -77
    p.modules_y_offset = -2147483648
    p.modules_layer_mask = 0xFFFFFFFF
    p.modules_current_layer = 3
    p.timeline_position = -5
    p.restart_position = 17
    p.selected_module = 2
    p.selected_generator = 4
    p.current_pattern = 1
    p.current_track = 2
    p.current_line = 3
    p.receive_sync_midi = (
        Project.SyncCommand.start_stop | Project.SyncCommand.position
    )
    p.receive_sync_other = Project.SyncCommand.tempo | Project.SyncCommand.position
    return p


def project_only_time():
    p = Project()
    p.timeline_position = 64
    return p


def project_only_reps():
    p = Project()
    p.restart_position = -1
    return p


def project_all_modules():
    p = Project()
    mods = all_modules()
    for mod in mods:
        p.attach_module(mod)
    # chain, plus fan-in to the output so non-trivial link slots appear
    for a, b in zip(mods, mods[1:]):
        a >> b
    for mod in mods[::3]:
        mod >> p.output
    mods[5] >> mods[2]
    mods[7] >> mods[2]
    # break some links again -> -1 entries
    p.connect(~mods[5], mods[2])
    p.connect(~mods[0], mods[1])
    for i, mod in enumerate(mods):
        mod.x, mod.y, mod.layer = 10 * i - 100, 1000 - 7 * i, i % 8
        mod.mod_finetune = (i * 37) % 512 - 256
        mod.mod_relative_note = i % 24 - 12
        mod.color = (i * 5 % 256, i * 11 % 256, i * 17 % 256)
        mod.midi_in_always = bool(i % 2)
        mod.midi_in_channel = i % 17
        mod.midi_out_channel = i % 16
        mod.midi_out_bank = i - 1
        mod.midi_out_program = 127 - i
        if i % 4 == 0:
            mod.midi_out_name = "port %d" % i
        if i % 5 == 0:
            mod.name = "a rather long module name that exceeds thirty-two bytes %d" % i
        if i % 7 == 0:
            mod.name = "näme ♫ %d" % i
        names = list(mod.controllers)
        for j, name in enumerate(names[: 1 + i % 3]):
            cm = mod.controller_midi_maps[name]
            cm.channel = (i + j) % 16
            cm.message_type = list(MidiMessageType)[(i + j) % 9]
            cm.message_parameter = (i * 100 + j) % 65536
            cm.slope = list(Slope)[(i + j) % 6]
    return p


def project_patterns_and_holes():
    p = Project()
    gen = p.new_module(m.Generator)
    amp = p.new_module(m.Amplifier, volume=321)
    p.attach_module(None)
    flt = p.new_module(m.Filter)  # goes into the hole? (not loading) -> fills slot
    p.modules.append(None)
    echo = p.new_module(m.Echo)
    gen >> amp >> flt >> p.output
    echo >> p.output
    p.attach_module(None)
    dly = p.attach_module(m.Delay(), loading=True)  # keeps the hole before it
    p.attach_module(None)
    dly >> echo
    pat = Pattern(name="lead ü", tracks=3, lines=5, x=-32, y=64)
    pat.flags_PFLG = 3
    pat.flags_PFFF = 0x18
    pat.fg_color = (1, 2, 3)
    pat.bg_color = (250, 251, 252)
    pat.icon = bytes(range(32))
    for li in range(5):
        for tr in range(3):
            n = pat.data[li][tr]
            n.note = NOTE.C4 if (li + tr) % 2 else NOTECMD.NOTE_OFF
            n.vel = (li * 3 + tr) % 130
            n.module = int(gen) if tr == 0 else 0
            n.ctl = (li << 8) | tr
            n.val = (li * 1000 + tr * 7) % 65536
    p.attach_pattern(pat)
    p.attach_pattern(None)
    p.attach_pattern(PatternClone(source=0, x=8, y=-16))
    p.attach_pattern(Pattern(tracks=1, lines=1))
    p.attach_pattern(None)
    return p


def project_meta_sampler():
    inner = Project()
    g = inner.new_module(m.AnalogGenerator)
    f = inner.new_module(m.Filter)
    g >> f >> inner.output
    inner.attach_pattern(Pattern(tracks=2, lines=4))
    outer = Project()
    meta = outer.new_module(m.MetaModule, project=inner)
    meta.user_defined_controllers = 3
    meta.recompute_controller_attachment()
    smp = outer.new_module(m.Sampler)
    s = smp.Sample()
    s.format = smp.Format.int16
    s.channels = smp.Channels.mono
    s.data = bytes(range(64))
    s.name = b"sixty-four"
    smp.samples[0] = s
    smp.effect = Synth(m.Reverb())
    meta >> smp >> outer.output
    return outer


def project_none_only():
    p = Project()
    p.attach_module(None)
    p.attach_module(None)
    p.attach_pattern(None)
    return p


PROJECT_BUILDERS = [
    project_empty,
    project_header_variants,
    project_only_time,
    project_only_reps,
    project_all_modules,
    project_patterns_and_holes,
    project_meta_sampler,
    project_none_only,
]


def synth_corpus():
    out = []
    for k in sorted(MODULE_CLASSES):
        out.append(("synth:" + k, Synth(MODULE_CLASSES[k]())))
    # module that lives in a project (in_project must still be False)
    p = project_all_modules()
    for mod in p.modules[1:8]:
        out.append(("synth-attached:%s" % mod.mtype, Synth(mod)))
    meta = m.MetaModule()
    meta.user_defined_controllers = 5
    out.append(("synth:meta5", Synth(meta)))
    sy = Synth(m.Fm())
    sy.sunsynth_version = (1, 2, 3, 4)
    out.append(("synth:version", sy))
    return out


# ---------------------------------------------------------------- checks
HEADER_ORDER = [
    b"SVOX", b"VERS", b"BVER", b"FLGS", b"SFGS", b"BPM ", b"SPED", b"TGRD",
    b"TGD2", b"GVOL", b"NAME", b"MSCL", b"MZOO", b"MXOF", b"MYOF", b"LMSK",
    b"CURL", b"TIME", b"REPS", b"SELS", b"LGEN", b"PATN", b"PATT", b"PATL",
]


def check_project(label, p, data):
    chunks = decode(data)
    ids = [c for c, _ in chunks]
    # --- header
    expected = [
        c
        for c in HEADER_ORDER
        if not (c == b"TIME" and p.timeline_position == 0)
        and not (c == b"REPS" and p.restart_position == 0)
    ]
    check(ids[: len(expected)] == expected, label + ": header order")
    hdr = dict(chunks[: len(expected)])
    check(hdr[b"SVOX"] == b"", label + ": magic payload")
    check(hdr[b"VERS"] == bytes(reversed(p.sunvox_version)), label + ": VERS")
    check(hdr[b"BVER"] == bytes(reversed(p.based_on_version)), label + ": BVER")
    check(u32(hdr[b"FLGS"]) == p.flags, label + ": FLGS")
    check(
        u32(hdr[b"SFGS"]) == int(p.receive_sync_midi) + 8 * int(p.receive_sync_other),
        label + ": SFGS",
    )
    for cid, attr, dec in [
        (b"BPM ", "initial_bpm", u32),
        (b"SPED", "initial_tpl", u32),
        (b"TGRD", "time_grid", u32),
        (b"TGD2", "time_grid2", u32),
        (b"GVOL", "global_volume", u32),
        (b"MSCL", "modules_scale", u32),
        (b"MZOO", "modules_zoom", u32),
        (b"MXOF", "modules_x_offset", i32),
        (b"MYOF", "modules_y_offset", i32),
        (b"LMSK", "modules_layer_mask", u32),
        (b"CURL", "modules_current_layer", u32),
        (b"SELS", "selected_module", u32),
        (b"LGEN", "selected_generator", i32),
        (b"PATN", "current_pattern", u32),
        (b"PATT", "current_track", u32),
        (b"PATL", "current_line", u32),
    ]:
        check(dec(hdr[cid]) == getattr(p, attr), "%s: %r" % (label, cid))
    if p.timeline_position:
        check(i32(hdr[b"TIME"]) == p.timeline_position, label + ": TIME")
    if p.restart_position:
        check(i32(hdr[b"REPS"]) == p.restart_position, label + ": REPS")
    check(hdr[b"NAME"] == p.name.encode("utf8") + b"\0", label + ": NAME")
    # --- pattern slots
    rest = chunks[len(expected) :]
    pos = 0
    for pat in p.patterns:
        end = pos
        while rest[end][0] != b"PEND":
            end += 1
        slot = rest[pos:end]
        check(rest[end] == (b"PEND", b""), label + ": PEND payload")
        if pat is None:
            check(slot == [], label + ": empty pattern slot")
        elif isinstance(pat, PatternClone):
            check([c for c, _ in slot] == [b"PPAR", b"PFFF", b"PXXX", b"PYYY"], label + ": clone slot")
        else:
            check(slot[0][0] == b"PDTA", label + ": PDTA first")
            check(len(slot[0][1]) == pat.lines * pat.tracks * 8, label + ": PDTA size")
        pos = end + 1
    # --- module slots
    for mod in p.modules:
        end = pos
        while rest[end][0] != b"SEND":
            end += 1
        slot = rest[pos:end]
        check(rest[end] == (b"SEND", b""), label + ": SEND payload")
        pos = end + 1
        if mod is None:
            check(slot == [], label + ": empty module slot")
            continue
        check_module_slot(label + ":mod%s" % mod.index, mod, slot, in_project=True)
    check(pos == len(rest), label + ": nothing after last SEND")


def check_module_slot(label, mod, slot, in_project):
    ids = [c for c, _ in slot]
    check(ids[0] == b"SFFF", label + ": SFFF first")
    check((b"SXXX" in ids) == in_project, label + ": SXXX presence")
    idx = 0
    while idx < len(ids) and ids[idx] not in (b"SLNK", b"CVAL", b"CMID", b"CHNK"):
        idx += 1
    tail = slot[idx:]
    if in_project:
        check(tail and tail[0][0] == b"SLNK", label + ": SLNK after std chunks")
        links = tail[0][1]
        n = len(mod.in_links)
        check(len(links) == 4 * n, label + ": SLNK size")
        check(
            list(struct.unpack("<%di" % n, links)) == list(mod.in_links),
            label + ": SLNK values",
        )
        tail = tail[1:]
        need_slots = any(s not in (-1, 0) for s in mod.in_link_slots)
        if tail and tail[0][0] == b"SLnK":
            check(need_slots and n > 0, label + ": SLnK unexpectedly present")
            check(
                list(struct.unpack("<%di" % n, tail[0][1])) == list(mod.in_link_slots),
                label + ": SLnK values",
            )
            tail = tail[1:]
        else:
            check(not (need_slots and n > 0), label + ": SLnK missing")
    attached = [n_ for n_, c in mod.controllers.items() if c.attached(mod)]
    cvals = []
    while tail and tail[0][0] == b"CVAL":
        cvals.append(i32(tail[0][1]))
        tail = tail[1:]
    check(len(cvals) == len(attached), label + ": CVAL count")
    check(cvals == [mod.get_raw(n_) for n_ in attached], label + ": CVAL values")
    if attached:
        check(tail and tail[0][0] == b"CMID", label + ": CMID present")
        cmid = tail[0][1]
        check(len(cmid) == 8 * len(attached), label + ": CMID size")
        for k, n_ in enumerate(attached):
            cm = mod.controller_midi_maps[n_]
            rec = struct.unpack("<BBBBHBB", cmid[8 * k : 8 * k + 8])
            check(
                rec[:3] == (cm.message_type.value, cm.channel, cm.slope.value)
                and rec[4] == cm.message_parameter,
                label + ": CMID record %d" % k,
            )
        tail = tail[1:]
    else:
        check(not tail or tail[0][0] != b"CMID", label + ": CMID without controllers")
    if mod.chnk:
        check(tail and tail[0][0] == b"CHNK", label + ": CHNK present")
        count = u32(tail[0][1])
        check(count == mod.chnk, label + ": CHNK count")
        for cid, payload in tail[1:]:
            check(cid in (b"CHNM", b"CHDT", b"CHFF", b"CHFR"), label + ": stray %r" % cid)
            if cid == b"CHNM":
                check(u32(payload) < count, label + ": CHNM below CHNK")
    else:
        check(tail == [], label + ": unexpected trailing chunks %r" % [c for c, _ in tail])


def check_synth(label, sy, data):
    chunks = decode(data)
    check(chunks[0] == (b"SSYN", b""), label + ": magic")
    check(chunks[1] == (b"VERS", bytes(reversed(sy.sunsynth_version))), label + ": VERS")
    check(chunks[-1] == (b"SEND", b""), label + ": SEND last")
    check([c for c, _ in chunks].count(b"SEND") == 1, label + ": one SEND")
    check_module_slot(label, sy.module, chunks[2:-1], in_project=False)


def check_errors():
    p = Project()
    p.flags = -1
    try:
        p.read()
        check(False, "negative FLGS must raise struct.error")
    except struct.error:
        pass
    p = Project()
    p.initial_bpm = 2**32
    try:
        p.read()
        check(False, "oversized BPM must raise struct.error")
    except struct.error:
        pass
    p = Project()
    p.sunvox_version = (1, 2, 3)
    try:
        p.read()
        check(False, "3-part version must raise struct.error")
    except struct.error:
        pass
    # chunks emitted before the failure point are unchanged (generator is lazy)
    p = Project()
    p.global_volume = -3
    seen = []
    try:
        for cid, _ in p.chunks():
            seen.append(cid)
    except struct.error:
        pass
    check(seen == HEADER_ORDER[:9], "lazy header emission up to failing GVOL: %r" % seen)
    # mismatching slot list length
    p = Project()
    g = p.new_module(m.Generator)
    g >> p.output
    p.output.in_link_slots.append(0)
    try:
        p.read()
        check(False, "slot/links length mismatch must raise struct.error")
    except struct.error:
        pass
    try:
        Synth().read()
        check(False, "empty synth must raise EmptySynthError")
    except EmptySynthError:
        pass
    sy = Synth(m.Fm())
    sy.sunsynth_version = (1, 2, 3, 4, 5)
    try:
        sy.read()
        check(False, "5-part synth version must raise struct.error")
    except struct.error:
        pass
    # EmptySynthError is raised on first next(), not on chunks() call
    gen = Synth().chunks()
    try:
        next(gen)
        check(False, "next() on empty synth")
    except EmptySynthError:
        pass


def check_metamodule_recompute():
    meta = m.MetaModule()
    meta.user_defined_controllers = 4
    # force attachment out of sync; Synth.chunks must recompute it
    for c in meta.user_defined:
        c.detach(meta)
    data = Synth(meta).read()
    n_cval = [c for c, _ in decode(data)].count(b"CVAL")
    check(n_cval == 5 + 4, "synth recomputes metamodule attachment: %d" % n_cval)
    # Project.chunks must NOT recompute
    p = Project()
    meta = p.new_module(m.MetaModule)
    meta.user_defined_controllers = 4
    for c in meta.user_defined:
        c.detach(meta)
    n_cval = [c for c, _ in decode(p.read())].count(b"CVAL")
    check(n_cval == 5, "project does not recompute attachment: %d" % n_cval)


def file_corpus():
    root = os.path.join(os.getcwd(), "tests", "files")
    out = []
    for fn in sorted(os.listdir(root)):
        if fn.endswith((".sunvox", ".sunsynth")):
            with open(os.path.join(root, fn), "rb") as f:
                out.append(("file:" + fn, read_sunvox_file(f)))
    return out


EXPECTED_DIGEST = "1c6c9da9c575a23322772c3362fefdc4923be7e399d570bb87687d17dfa62032"


def main():
    h = hashlib.sha256()
    for build in PROJECT_BUILDERS:
        p = build()
        data = p.read()
        buf = io.BytesIO()
        p.write_to(buf)
        check(buf.getvalue() == data, build.__name__ + ": write_to == read")
        check(p.read() == data, build.__name__ + ": repeatable")
        check_project(build.__name__, p, data)
        h.update(build.__name__.encode() + hashlib.sha256(data).digest())
    for label, sy in synth_corpus():
        data = sy.read()
        check_synth(label, sy, data)
        h.update(label.encode() + hashlib.sha256(data).digest())
    for label, obj in file_corpus():
        data = obj.read()
        if isinstance(obj, Project):
            check_project(label, obj, data)
        else:
            check_synth(label, obj, data)
        h.update(label.encode() + hashlib.sha256(data).digest())
    check_errors()
    check_metamodule_recompute()
    digest = h.hexdigest()
    if "--digest" in sys.argv:
        print(digest)
        return 0
    check(digest == EXPECTED_DIGEST, "corpus digest changed: " + digest)
    if FAILURES:
        for f in FAILURES[:40]:
            print("FAIL:", f)
        print("%d failure(s)" % len(FAILURES))
        return 1
    print("PASS")
    return 0


if __name__ == "__main__":
    sys.exit(main())
