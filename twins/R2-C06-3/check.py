"""Behaviour check for the generic module / project / synth / metamodule writers
and loaders (options byte map, standard module chunks, links, controllers, labels).

Run from the repository root:
    PYTHONPATH=<root>/src/python python check.py
"""
import glob
import hashlib
import logging
import os
import sys
from io import BytesIO
from struct import pack, unpack

import rv.api as rv_api
from rv.api import Project, Synth, m, read_sunvox_file
from rv.errors import EmptySynthError
from rv.lib.iff import chunks as iff_chunks
from rv.modules.metamodule import MetaModule
from rv.modules.module import Chunk, Module

logging.disable(logging.CRITICAL)

FILES = os.path.join(os.getcwd(), "tests", "files")
failures = []

DIGESTS = {
    "amplifier.sunsynth": "419f5717e558efbc",
    "analog-generator.sunsynth": "76ce674ef1db6717",
    "compressor.sunsynth": "7e4fa89c60186b9a",
    "dc-blocker.sunsynth": "1312bb3c1626a845",
    "delay.sunsynth": "32ee6c78f799b00c",
    "distortion.sunsynth": "e9b59951b8753b41",
    "drum-synth.sunsynth": "6d8ad0364d91a386",
    "echo.sunsynth": "a51866593f018ff9",
    "empty.sunvox": "0b58f6338b84cd2a",
    "eq.sunsynth": "c6e8877e93f69f7f",
    "feedback.sunsynth": "09a1d368f8d97439",
    "fft.sunsynth": "a532a1e449a579c5",
    "filter-pro.sunsynth": "87b217d025f588bb",
    "filter.sunsynth": "ccf4f2af334e7d85",
    "flanger.sunsynth": "658f4783cc9c248e",
    "fmx.sunsynth": "d2b0427af5abec18",
    "generator.sunsynth": "16aefebfbfb606f8",
    "glide.sunsynth": "765d995ffed7b949",
    "gpio.sunsynth": "15c3990e39ba8c2d",
    "input.sunsynth": "025ed41f84a149cb",
    "issue109/filter_lfo.sunvox": "7c07bab808ce3d27",
    "issue41/sample.sunvox": "31504b7ddfd90622",
    "issue54/test1.sunvox": "915266c46c96537b",
    "kicker.sunsynth": "33abb29c4834873a",
    "lfo.sunsynth": "efa89196cf44067f",
    "loop.sunsynth": "57eca85729cb1af4",
    "metamodule-option-78.sunsynth": "76bf484725a761c1",
    "metamodule-option-79.sunsynth": "8d8a050747174fd9",
    "metamodule-option-7a.sunsynth": "36db7cdd1df60d03",
    "metamodule.sunsynth": "55f5fd0bfba89745",
    "modulator.sunsynth": "22d3e9b37c36f881",
    "module-multiselect.sunvox": "8fa3a4e0ed3b0d49",
    "multictl.sunsynth": "66b009f3228bb000",
    "multisynth-random-off.sunsynth": "b4ccf1b6f4e1ed62",
    "multisynth-random1.sunsynth": "a19a3f40a8bd840e",
    "multisynth-random2.sunsynth": "98bf489a0febc83d",
    "multisynth-random3.sunsynth": "b7fbddfa4ed104bf",
    "multisynth.sunsynth": "87df69077399b611",
    "pitch-shifter.sunsynth": "4c58b5705344a08e",
    "pitch2ctl.sunsynth": "73252da465dfcc2f",
    "reverb.sunsynth": "90db4c635458e8fe",
    "sampler.sunsynth": "3b0f2915c2ec0456",
    "single-fm.sunvox": "ca3eb0ed7d25ba31",
    "smooth.sunsynth": "673c38cfc74b338e",
    "sound2ctl.sunsynth": "fd4a139c6dc96ebf",
    "spectravoice.sunsynth": "112111c76bcab011",
    "supertracks.sunvox": "1a4f41f039f94d44",
    "velocity2ctl.sunsynth": "5fe6662a1ac4bc70",
    "vibrato.sunsynth": "274b70fa0e6cf0ab",
    "vocal-filter.sunsynth": "f62bcc37659869aa",
    "vorbis-player.sunsynth": "f18896c9f30ee44a",
    "waveshaper.sunsynth": "a4d25d2c53431359",
}


def expect(cond, label):
    if not cond:
        failures.append(label)


def raises(exc, fn, label):
    try:
        fn()
    except exc:
        return
    except Exception as e:  # noqa
        failures.append("%s: raised %r instead of %s" % (label, e, exc.__name__))
        return
    failures.append("%s: did not raise %s" % (label, exc.__name__))


def mk(chnm, chdt=b"", chff=0, chfr=44100):
    c = Chunk()
    c.chnm, c.chdt, c.chff, c.chfr = chnm, chdt, chff, chfr
    return c


def save(obj):
    f = BytesIO()
    obj.write_to(f)
    return f.getvalue()


def load(rel):
    return read_sunvox_file(os.path.join(FILES, rel))


def reload(obj):
    return read_sunvox_file(BytesIO(save(obj)))


def tags(chunk_iter):
    return [name for name, _ in chunk_iter if name is not None]


# ------------------------------------------------- every fixture: identical bytes out
seen = set()
for path in sorted(glob.glob(os.path.join(FILES, "**", "*.sun*"), recursive=True)):
    rel = os.path.relpath(path, FILES).replace(os.sep, "/")
    seen.add(rel)
    blob = save(read_sunvox_file(path))
    got = hashlib.sha256(blob).hexdigest()[:16]
    expect(DIGESTS.get(rel) == got, "bytes written for %s changed (%s)" % (rel, got))
    # and they are a fixed point
    expect(save(read_sunvox_file(BytesIO(blob))) == blob, "fixed point " + rel)
expect(seen == set(DIGESTS), "fixture set differs: %r" % (seen ^ set(DIGESTS),))

# ------------------------------------------------- options byte map
def expected_option_bytes(mod):
    bm = [0] * 64
    n = 0
    for opt in mod.options.values():
        v = int(mod.option_values[opt.name]) % (2 ** opt.size)
        bm[opt.byte] += v * (2 ** opt.bit)
        n = max(n, opt.byte + 1)
    return bytes(bm[:n])


option_synths = [
    rel for rel in sorted(DIGESTS) if rel.endswith(".sunsynth") and load(rel).module.options
]
expect(len(option_synths) >= 5, "several fixtures have options")
for rel in option_synths:
    synth = load(rel)
    mod = synth.module
    pair = list(mod.options_chunks())
    expect(pair[0] == (b"CHNM", pack("<I", mod.options_chnm)), "options chnm " + rel)
    expect(pair[1] == (b"CHDT", expected_option_bytes(mod)), "options bytes " + rel)
    expect(len(pair) == 2, "two option chunks")
    names = list(mod.options)
    for target in names:
        s = load(rel)
        mod = s.module
        before = dict(mod.option_values)
        opt = mod.options[target]
        old = mod.option_values[target]
        if opt.size == 1:
            new = not old
        else:
            lo = opt.min if opt.min is not None else 0
            hi = opt.max if opt.max is not None else (2 ** opt.size) - 1
            new = lo if old != lo else hi
        stored_as = (not new) if (opt.inverted and opt.size == 1) else new
        setattr(mod, target, stored_as if opt.size == 1 and opt.inverted else new)
        after = dict(mod.option_values)
        expect(after != before or new == old, "%s.%s edit took effect" % (rel, target))
        expect(list(mod.options_chunks())[1][1] == expected_option_bytes(mod), "bytes after edit %s.%s" % (rel, target))
        mod2 = reload(s).module
        expect(dict(mod2.option_values) == after, "%s.%s saved: %r != %r" % (rel, target, dict(mod2.option_values), after))
        expect({k: getattr(mod2, k) for k in names} == {k: getattr(mod, k) for k in names}, "%s.%s public view" % (rel, target))

# load_options: short, empty, long byte maps; bools for one-bit fields
mod = load("sampler.sunsynth").module
width = max(o.byte for o in mod.options.values()) + 1
mod.load_options(mk(mod.options_chnm, b""))
expect(all(v in (False, 0) for v in mod.option_values.values()), "empty map -> all clear")
expect(all(type(mod.option_values[o.name]) is bool for o in mod.options.values() if o.size == 1), "one-bit options are bools")
mod.load_options(mk(mod.options_chnm, b"\xff" * 80))
for o in mod.options.values():
    want = True if o.size == 1 else (2 ** o.size - 1)
    expect(mod.option_values[o.name] == want and type(mod.option_values[o.name]) is type(want), "all-ones map " + o.name)
mod.load_options(mk(mod.options_chnm, b"\x01"))
for o in mod.options.values():
    want = o.byte == 0 and o.bit == 0
    expect(bool(mod.option_values[o.name]) == want, "short map " + o.name)
mm = load("metamodule.sunsynth").module
multi = [o for o in mm.options.values() if o.size > 1]
for o in multi:
    for raw in range(2 ** o.size):
        blob = bytearray(64)
        blob[o.byte] = (raw << o.bit) & 0xFF
        mm.load_options(mk(2, bytes(blob)))
        expect(mm.option_values[o.name] == raw and type(mm.option_values[o.name]) is int, "multi-bit option %s=%d" % (o.name, raw))
        expect(list(mm.options_chunks())[1][1][o.byte] >> o.bit & (2 ** o.size - 1) == raw, "multi-bit write back")
# a missing option value cannot be written
mod = load("sampler.sunsynth").module
del mod.option_values[next(iter(mod.options))]
raises(TypeError, lambda: list(mod.options_chunks()), "missing option value")
# modules without options yield the (None, None) placeholder
amp = load("amplifier.sunsynth").module
if not amp.options:
    expect(list(Module.specialized_iff_chunks(amp)) == [(None, None)], "placeholder for option-less module")

# ------------------------------------------------- standard module chunks
STANDALONE = [b"SFFF", b"SNAM", b"STYP", b"SFIN", b"SREL", b"SSCL", b"SCOL", b"SMII", b"SMIC", b"SMIB", b"SMIP"]
IN_PROJECT = [b"SFFF", b"SNAM", b"STYP", b"SFIN", b"SREL", b"SXXX", b"SYYY", b"SZZZ", b"SSCL", b"SVPR", b"SCOL",
              b"SMII", b"SMIC", b"SMIB", b"SMIP"]
gen = m.Generator()
expect(tags(gen.iff_chunks()) == STANDALONE, "standalone tags (parent None)")
expect(tags(gen.iff_chunks(in_project=True)) == IN_PROJECT, "forced in_project tags")
proj = Project()
proj.attach_module(gen)
expect(tags(gen.iff_chunks()) == IN_PROJECT, "in-project tags")
expect(tags(gen.iff_chunks(in_project=False)) == STANDALONE, "forced standalone tags")
expect(tags(proj.output.iff_chunks()) == [t for t in IN_PROJECT if t != b"STYP"], "Output has no STYP")
gen.midi_out_name = "dev"
want = IN_PROJECT[:12] + [b"SMIN"] + IN_PROJECT[12:]
expect(tags(gen.iff_chunks()) == want, "SMIN when midi_out_name set")
gen.x, gen.y, gen.layer = -5, 1000, 3
gen.mod_scale = 300
gen.mod_finetune, gen.mod_relative_note = -20, 7
gen.color = (1, 2, 3)
gen.midi_in_always, gen.midi_in_channel = True, 5
gen.midi_out_channel, gen.midi_out_bank, gen.midi_out_program = 4, 9, -1
gen.visualization = 0x01020304
d = dict(gen.iff_chunks())
expect(d[b"SXXX"] == pack("<i", -5) and d[b"SYYY"] == pack("<i", 1000) and d[b"SZZZ"] == pack("<i", 3), "position")
expect(d[b"SSCL"] == pack("<I", 300) and d[b"SVPR"] == pack("<I", 0x01020304), "scale/visualization")
expect(d[b"SFIN"] == pack("<i", -20) and d[b"SREL"] == pack("<i", 7), "tuning")
expect(d[b"SCOL"] == b"\x01\x02\x03", "color")
expect(d[b"SMII"] == pack("<I", 11), "midi in")
expect(d[b"SMIN"] == b"dev\0", "midi out name")
expect(d[b"SMIC"] == pack("<I", 4) and d[b"SMIB"] == pack("<i", 9) and d[b"SMIP"] == pack("<i", -1), "midi out")
expect(d[b"SFFF"] == pack("<I", gen.flags) and d[b"STYP"] == b"Generator\0", "flags/type")
for name, want in [
    ("", b""),
    ("abc", b"abc"),
    ("x" * 32, b"x" * 32),
    ("x" * 40, b"x" * 32),
    ("x" * 31 + "é", b"x" * 31),  # two-byte character does not fit
    ("x" * 30 + "é", b"x" * 30 + "é".encode("utf8")),
    ("中" * 11, "中".encode("utf8") * 10),
]:
    gen.name = name
    got = dict(gen.iff_chunks())[b"SNAM"]
    expect(len(got) == 32 and got.rstrip(b"\0") == want, "SNAM for %r: %r" % (name, got))
gen.name = "edited"
gen.color = (1, 2)
g = gen.iff_chunks()
raises(Exception, lambda: list(g), "bad color tuple")
gen.color = (9, 8, 7)
raises(RuntimeError, lambda: next(Module().iff_chunks()), "base Module cannot be serialized")

proj2 = reload(proj)
g2 = proj2.modules[1]
expect((g2.name, g2.x, g2.y, g2.layer, g2.mod_scale, g2.mod_finetune, g2.mod_relative_note, tuple(g2.color))
       == ("edited", -5, 1000, 3, 300, -20, 7, (9, 8, 7)), "module field edits saved in project")
expect((g2.midi_in_always, g2.midi_in_channel, g2.midi_out_name, g2.midi_out_channel, g2.midi_out_bank, g2.midi_out_program)
       == (True, 5, "dev", 4, 9, -1), "midi edits saved")
expect(int(g2.visualization) == 0x01020304, "visualization saved")

# load_cmid: whole records only
gen = m.Generator()
names = list(gen.controllers)
rec = lambda k: pack("<BBBBHBB", 3, k, 1, 0, 100 + k, 0, 0xC8)
data = b"".join(rec(k) for k in range(len(names)))
gen.load_cmid(data[: 8 * 2 + 5])
expect([gen.controller_midi_maps[n].channel for n in names[:3]] == [0, 1, 0], "partial CMID record ignored")
expect(gen.controller_midi_maps[names[1]].message_parameter == 101, "CMID record 1 loaded")
gen.load_cmid(data + b"\1" * 16)
expect([gen.controller_midi_maps[n].channel for n in names] == list(range(len(names))), "all CMID records, extra ignored")
expect(set(gen.controller_midi_maps) == set(names), "no extra midi maps created")

# ------------------------------------------------- project: links, slots, controllers
p = Project()
a = p.new_module(m.Generator, name="a")
b = p.new_module(m.Amplifier, name="b")
c = p.new_module(m.Reverb, name="c")
a >> b >> p.output
a >> c >> p.output
c >> b
p.modules.append(None)
p.attach_pattern(None)
stream = list(p.chunks())
names_only = [n for n, _ in stream if n is not None]
expect(names_only.count(b"SEND") == 5 and names_only[-1] == b"SEND", "one SEND per module slot incl. empty")
expect(names_only.count(b"PEND") == 1, "PEND for empty pattern slot")
expect(names_only.count(b"SLNK") == 4, "one SLNK per module")
slnk = [d for n, d in stream if n == b"SLNK"]
expect(slnk[0] == pack("<ii", 2, 3) and slnk[1] == b"" and slnk[2] == pack("<ii", 1, 3) and slnk[3] == pack("<i", 1), "SLNK payloads %r" % (slnk,))
slots = [d for n, d in stream if n == b"SLnK"]
expect(slots == [pack("<ii", *p.output.in_link_slots)] if any(s not in (-1, 0) for s in p.output.in_link_slots) else True, "SLnK payloads")
expect(len(slots) == sum(1 for mod in p.modules if mod and any(s not in (-1, 0) for s in mod.in_link_slots)), "SLnK only for non-zero slots")
for mod in (a, b, c):
    attached = [n for n, ctl in mod.controllers.items() if ctl.attached(mod)]
    i = stream.index((b"SNAM", mod.name.encode().ljust(32, b"\0")))
    j = stream.index((b"SEND", b""), i)
    seg = stream[i:j]
    cvals = [unpack("<i", d)[0] for n, d in seg if n == b"CVAL"]
    expect(cvals == [mod.get_raw(n) for n in attached], "CVALs of " + mod.name)
    cmid = [d for n, d in seg if n == b"CMID"]
    expect(cmid == [b"".join(mod.controller_midi_maps[n].cmid_data for n in attached)], "CMID of " + mod.name)
    seg_tags = [n for n, _ in seg]
    expect(seg_tags.index(b"SLNK") < seg_tags.index(b"CVAL") < seg_tags.index(b"CMID"), "order links/cvals/cmid")
out_seg = stream[stream.index((b"SFFF", pack("<I", p.output.flags))):]
expect(b"CVAL" not in [n for n, _ in out_seg[: [n for n, _ in out_seg].index(b"SEND")]], "Output has no CVAL/CMID")
p.connect(~a, b)
p2 = reload(p)
expect([mod.name if mod else None for mod in p2.modules][:4] == ["Output", "a", "b", "c"], "modules reloaded")
expect(p2.modules[2].in_links == p.modules[2].in_links[: len(p2.modules[2].in_links)], "disconnected link saved as -1 / trimmed")
expect(p2.modules[0].in_links == [2, 3] and p2.modules[3].in_links == [1], "links saved")
expect(p2.modules[0].in_link_slots == p.output.in_link_slots or p2.modules[0].in_link_slots == [], "slots saved")
# mismatched slot list -> error before SLNK is produced
p3 = Project()
x = p3.new_module(m.Generator)
x >> p3.output
p3.output.in_link_slots.append(0)
it = p3.chunks()
got = []
try:
    for item in it:
        got.append(item[0])
except Exception as e:
    expect(type(e).__name__ == "error", "struct.error for slot mismatch, got %r" % (e,))
else:
    failures.append("slot mismatch should fail")
expect(b"SLNK" not in got, "no SLNK emitted before the failure")
# controller edits saved, others untouched
p = load("issue109/filter_lfo.sunvox")
before = [(mod.index, dict(mod.controller_values)) for mod in p.modules if mod]
target = next(mod for mod in p.modules if mod and mod.controllers)
first_ctl = next(n for n, ctl in target.controllers.items() if ctl.attached(target))
raw = target.get_raw(first_ctl)
target.set_raw(first_ctl, raw + 1 if raw < 100 else raw - 1)
p2 = reload(p)
after = [(mod.index, dict(mod.controller_values)) for mod in p2.modules if mod]
expect(after == [(mod.index, dict(mod.controller_values)) for mod in p.modules if mod], "controller edit saved, rest intact")
expect(after != before, "controller edit visible")

# ------------------------------------------------- synth writer
raises(EmptySynthError, lambda: list(Synth().chunks()), "empty synth")
for rel in ("generator.sunsynth", "metamodule.sunsynth", "sampler.sunsynth", "amplifier.sunsynth"):
    s = load(rel)
    mod = s.module
    stream = list(s.chunks())
    t = [n for n, _ in stream if n is not None]
    expect(t[:2] == [b"SSYN", b"VERS"] and t[-1] == b"SEND", "synth frame " + rel)
    expect(b"SXXX" not in t and b"SVPR" not in t, "synth modules are standalone " + rel)
    attached = [n for n, ctl in mod.controllers.items() if ctl.attached(mod)]
    expect([unpack("<i", d)[0] for n, d in stream if n == b"CVAL"][: len(attached)] == [mod.get_raw(n) for n in attached], "synth CVALs " + rel)
    top_cmid = [d for n, d in stream if n == b"CMID"][:1]
    expect(top_cmid == ([b"".join(mod.controller_midi_maps[n].cmid_data for n in attached)] if attached else []), "synth CMID " + rel)
    expect((b"CHNK" in t) == bool(mod.chnk), "CHNK presence " + rel)

# ------------------------------------------------- metamodule labels / dispatch
mm = load("metamodule.sunsynth").module
expect(isinstance(mm, MetaModule), "metamodule fixture")
mm.user_defined_controllers = 3
mm.user_defined[0].label = "Cutoff"
mm.user_defined[1].label = None
mm.user_defined[2].label = "Réso"
mm.user_defined[5].label = "detached, not written"
spec = list(mm.specialized_iff_chunks())
ids = [unpack("<I", d)[0] for n, d in spec if n == b"CHNM"]
expect(ids == [0, 1, 2, 8, 10], "metamodule chunk ids %r" % (ids,))
expect(spec[1] == (b"CHDT", mm.project.read()), "embedded project bytes")
expect(spec[-3:] == [(b"CHDT", b"Cutoff\0"), (b"CHNM", pack("<I", 10)), (b"CHDT", "Réso".encode("utf8") + b"\0")], "label chunks")
mm2 = reload(Synth(mm)).module
expect([c.label for c in mm2.user_defined[:6]] == ["Cutoff", None, "Réso", None, None, None], "labels saved")
expect(mm2.user_defined_controllers == 3, "user defined count saved")
expect(save(mm2.project) == save(mm.project), "embedded project saved")
# option edits on a metamodule are saved
names = list(mm.options)
original = {n: getattr(mm, n) for n in names}
for n in names:
    v = getattr(mm, n)
    if isinstance(v, bool):
        setattr(mm, n, not v)
flipped = {n: getattr(mm, n) for n in names}
mm3 = reload(Synth(mm)).module
expect({n: getattr(mm3, n) for n in names} == flipped and flipped != original, "metamodule option edits saved")
# dispatch
calls = []


class SpyMM(MetaModule):
    def load_options(self, chunk):
        calls.append(("options", chunk.chnm))

    def load_project(self, chunk):
        calls.append(("project", chunk.chnm))

    def load_label(self, chunk):
        calls.append(("label", chunk.chnm))


spy = SpyMM()
marker = spy.mappings.values[0]
for chnm in (0, 2, 3, 4, 5, 6, 7, 8, 9, 103, 5000):
    spy.load_chunk(mk(chnm, b"zz"))
expect(calls == [("project", 0), ("options", 2), ("label", 8), ("label", 9), ("label", 103), ("label", 5000)], "metamodule dispatch %r" % (calls,))
expect(spy.mappings.values[0] is marker, "mappings untouched by other chunks")
spy.load_chunk(mk(1, pack("<HH", 4, 2) + pack("<HH", 7, 1)))
expect([(v.module, v.controller) for v in spy.mappings.values[:3]] == [(4, 2), (7, 1), (0, 0)], "mappings loaded")
expect(len(spy.mappings.values) == 96, "mappings padded")
raises(TypeError, lambda: spy.load_chunk(mk(None, b"")), "None chnm")
plain = MetaModule()
for data, want in [(b"abc\0", "abc"), (b"abc", "abc"), (b"ab\0cd\0", "ab"), (b"\0abc", ""), (b"", ""), ("é\0".encode("utf8"), "é")]:
    plain.load_chunk(mk(8 + 4, data))
    expect(plain.user_defined[4].label == want, "label %r -> %r" % (data, plain.user_defined[4].label))
raises(IndexError, lambda: plain.load_chunk(mk(8 + 96, b"x\0")), "label slot out of range")
raises(TypeError, lambda: plain.load_chunk(mk(8, None)), "label without data")

if failures:
    print("FAIL")
    for f_ in failures:
        print(" -", f_)
    sys.exit(1)
print("PASS")
