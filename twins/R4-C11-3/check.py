"""Behaviour check for Module.load_options and option initialisation in
Module.__init__.

Feeds hand-built options records (short, exact, long, with junk in unused
bits, as bytes / bytearray / list) to load_options of every option-bearing
module type and compares with an independent reference decoder; checks value
types, inversion, that hooks are NOT fired by loading, error cases and partial
updates, constructor keyword handling, and complete write -> read round trips.
"""
import io
import itertools
import random
import sys

from rv.api import m
from rv.modules.module import Chunk, Module
from rv.option import Option
from rv.readers.reader import read_sunvox_file
from rv.synth import Synth

failures = []


def check(cond, msg):
    if not cond:
        failures.append(msg)


def same(a, b):
    return type(a) is type(b) and a == b


CLASSES = [m.MetaModule, m.MultiSynth, m.AnalogGenerator, m.Sampler, m.Sound2Ctl]
REC_LEN = {"MetaModule": 8, "MultiSynth": 8, "AnalogGenerator": 14, "Sampler": 8, "Sound2Ctl": 2}


def chunk_of(data, chnm=0):
    c = Chunk()
    c.chnm = chnm
    c.chdt = data
    return c


def reference_decode(cls, data):
    data = list(data)
    out = {}
    for opt in cls.options.values():
        byte = data[opt.byte] if opt.byte < len(data) else 0
        v = 0
        for i in range(opt.size):
            if byte & (1 << (opt.bit + i)) and opt.bit + i < 8:
                v |= 1 << i
        out[opt.name] = bool(v) if opt.size == 1 else v
    return out


def load(cls, data):
    mod = cls()
    result = mod.load_options(chunk_of(data))
    check(result is None, "load_options returns None")
    return mod


def compare(cls, data, label):
    mod = load(cls, data)
    want = reference_decode(cls, data)
    check(list(mod.option_values) == list(cls().option_values) or set(mod.option_values) == set(want),
          f"{label}: keys")
    for name, w in want.items():
        got = mod.option_values[name]
        check(same(got, w), f"{label}: {cls.__name__}.{name} stored {got!r} != {w!r}")
        opt = cls.options[name]
        logical = (not w) if opt.inverted else w
        check(same(getattr(mod, name), logical), f"{label}: {cls.__name__}.{name} logical")


rng = random.Random(3011)
for cls in CLASSES:
    n = REC_LEN[cls.__name__]
    # all zero / all ones / empty / short / long records, several container types
    for data in [b"", bytes(n), b"\xff" * n, b"\xff" * 64, b"\xff" * 100, bytes(1), b"\xff",
                 b"\xff" * (n - 1), bytearray(b"\xff" * n), [255] * n, tuple([0x55] * n),
                 b"\xaa" * 63, b"\x55" * 65, memoryview(b"\x0f" * n)]:
        compare(cls, data, f"fixed {bytes(data[:4])!r}x{len(data)}")
    # one byte at a time, every byte value
    for pos in range(n):
        for val in range(256):
            data = bytearray(n)
            data[pos] = val
            compare(cls, bytes(data), f"byte{pos}={val}")
    # random records of random length
    for _ in range(60):
        data = bytes(rng.randrange(256) for _ in range(rng.randrange(0, 70)))
        compare(cls, data, "random")

# literal expectations
mm = load(m.MetaModule, bytes([27, 1, 0, 1, 0b10110, 0, 0, 1]))
check(mm.user_defined_controllers == 27 and type(mm.option_values["user_defined_controllers"]) is int, "udc")
check(mm.arpeggiator is True and mm.apply_velocity_to_project is False, "mm bools")
check(mm.event_output is False and mm.option_values["event_output"] is True, "event_output inverted on load")
check(mm.receive_notes_from_keyboard is False and mm.do_not_receive_notes_from_keyboard is True, "mm byte4 a")
check(mm.auto_bpm_tpl is True and mm.ignore_eff_31_after_last_note_off is False
      and mm.jump_to_rl_pattern_after_last_note_off is True, "mm byte4 b")
check(mm.dummy5 is False and mm.dummy6 is False and mm.dummy7 is True, "mm dummies")
# loading does not clamp and does not enforce exclusivity: it mirrors the record
mm = load(m.MetaModule, bytes([200, 0, 0, 0, 0b11]))
check(mm.user_defined_controllers == 200, "no clamp on load")
check(mm.receive_notes_from_keyboard is True and mm.do_not_receive_notes_from_keyboard is True, "no exclusivity on load")
check(mm.event_output is True, "short record -> zero -> event_output logical True")
ms = load(m.MultiSynth, bytes([0, 0, 0xFE, 0, 0b11000100, 1]))
check(ms.active_curve == 2 and ms.out_port_mode == 3 and ms.round_pitch_y is True
      and ms.round_note_x is False and ms.out_port_mode_random is True and ms.dummy7 is False, "multisynth literal")
sm = load(m.Sampler, bytes([0, 1, 0, 0, 0, 0, 0, 0xA5]))
check(sm.fit_to_pattern == 0xA5 and sm.record_in_mono is True and sm.record_in_16_bit is False, "sampler literal")
ag = load(m.AnalogGenerator, bytes(14))
check(ag.smooth_frequency_change is True, "analog inverted default from zeros")
ag = load(m.AnalogGenerator, bytes([0, 0, 0, 0, 0, 0, 1, 0, 0, 0, 0, 0, 0, 1]))
check(ag.smooth_frequency_change is False and ag.increased_freq_computation_accuracy is True, "analog literal")
s2 = load(m.Sound2Ctl, b"")
check(s2.record_values is False and s2.send_only_changed_values is False, "sound2ctl empty record")


# loading bypasses change hooks
class HookedSynth(m.MultiSynth):
    def __init__(self, **kw):
        self.seen = []
        super().__init__(**kw)

    def on_trigger_changed(self, value):
        self.seen.append(value)


hs = HookedSynth(trigger=True)
check(hs.seen == [True], "ctor fires hook once with stored value")
hs.load_options(chunk_of(bytes(8)))
check(hs.seen == [True] and hs.trigger is False, "load_options fires no hooks")

# load_options keeps unrelated entries of option_values and overwrites the rest
sm = m.Sampler()
sm.option_values["zz_unrelated"] = "keep"
sm.load_options(chunk_of(b"\x01"))
check(sm.option_values["zz_unrelated"] == "keep" and sm.start_recording_on_project_play is True, "update, not replace")
ident = m.Sampler()
d = ident.option_values
ident.load_options(chunk_of(b"\x01"))
check(ident.option_values is d, "same dict object updated in place")

# error cases
for bad, exc in [(None, TypeError), (5, TypeError)]:
    try:
        m.Sampler().load_options(chunk_of(bad))
    except exc:
        pass
    else:
        check(False, f"chdt={bad!r} must raise {exc.__name__}")
try:
    m.Sampler().load_options(chunk_of(["a"] * 8))
except TypeError:
    pass
else:
    check(False, "non-int record items -> TypeError")


class Far(Module):
    mtype = None
    mgroup = "Test"
    flags = 0
    a_first = Option(name="a_first", byte=0, bit=0, size=1, default=False)
    b_wide = Option(name="b_wide", byte=1, bit=6, size=4, default=0)
    c_far = Option(name="c_far", byte=64, bit=0, size=1, default=False)
    d_after = Option(name="d_after", byte=2, bit=0, size=1, default=False)


far = Far()
check(list(far.option_values) == ["a_first", "b_wide", "c_far", "d_after"], "ctor assigns in options order")
try:
    far.load_options(chunk_of(b"\xff\xff\xff"))
except IndexError:
    pass
else:
    check(False, "byte beyond padded map -> IndexError")
check(far.option_values == {"a_first": True, "b_wide": 3, "c_far": False, "d_after": False},
      f"options before the failing one are already updated: {far.option_values}")
far.load_options(chunk_of(b"\xff" * 65))  # long records are not truncated
check(far.option_values == {"a_first": True, "b_wide": 3, "c_far": True, "d_after": True}, "65 byte record")
far.load_options(chunk_of([1, -1 & 0xFF, 0] + [0] * 62))
check(far.option_values == {"a_first": True, "b_wide": 3, "c_far": False, "d_after": False}, "list record")
far.load_options(chunk_of([-1, -64, -2] + [0] * 62))  # negative ints behave as two's complement
check(far.option_values["a_first"] is True and far.option_values["b_wide"] == 15
      and far.option_values["d_after"] is False, f"negative items {far.option_values}")
far.load_options(chunk_of([-2, -1, -1] + [0] * 61 + [-3]))
check(far.option_values == {"a_first": False, "b_wide": 15, "c_far": True, "d_after": True},
      f"negative items 2 {far.option_values}")


class Bare(Module):
    mtype = None
    mgroup = "Test"
    flags = 0


b = Bare()
check(b.option_values == {}, "no options -> empty values")
b.load_options(chunk_of(b"\xff" * 8))
check(b.option_values == {}, "no options -> load is a no-op")

# constructor: keywords, defaults, order, clamp, unknown keywords ignored
for cls in CLASSES:
    mod = cls()
    check(list(mod.option_values) != [] and set(mod.option_values) >= set(cls.options), "ctor sets all options")
    for name, opt in cls.options.items():
        check(getattr(mod, name) == opt.default, f"{cls.__name__}.{name} ctor default")
    for name, opt in cls.options.items():
        for v in {0, 1, 2 ** opt.size - 1}:
            mod = cls(**{name: v})
            got = getattr(mod, name)
            if opt.min is not None and opt.max is not None:
                check(got == max(opt.min, min(opt.max, v)), f"{cls.__name__}({name}={v}) clamp")
            elif opt.size == 1:
                # options are assigned in name order; a later partner that is
                # exclusive of this one clears it again (even when set to False)
                cleared = any(name in o.exclusive_of for n, o in cls.options.items() if n > name)
                check(got is (False if cleared else bool(v)), f"{cls.__name__}({name}={v})")
            else:
                check(got == v, f"{cls.__name__}({name}={v})")
            for other_name, other in cls.options.items():
                if other_name != name and other_name not in opt.exclusive_of:
                    check(getattr(mod, other_name) == other.default, f"{cls.__name__}({name}={v}) leaves {other_name}")
check(m.MetaModule(user_defined_controllers=500).user_defined_controllers == 96, "ctor clamps high")
check(m.MetaModule(user_defined_controllers=-5).user_defined_controllers == 0, "ctor clamps low")
check(m.MetaModule(event_output=False).option_values["event_output"] is True, "ctor inverted")
mm = m.MetaModule(receive_notes_from_keyboard=True, do_not_receive_notes_from_keyboard=True)
check(mm.receive_notes_from_keyboard is True and mm.do_not_receive_notes_from_keyboard is False,
      "ctor exclusivity resolved by name order")
ms = m.MultiSynth(round_note_x=True, round_pitch_y=True)
check(ms.round_note_x is False and ms.round_pitch_y is True, "ctor exclusivity multisynth")
check(m.Sampler(no_such_option=1, record_in_mono=True).record_in_mono is True, "unknown kw ignored")
check(m.MultiSynth(active_curve=7).active_curve == 7, "ctor keeps unmasked wide value")

# full round trips: pairs and random assignments
def same_after_load(loaded, original, opt):
    # enum defaults (MultiSynth) come back as plain ints; bools stay bools
    if opt.size == 1:
        return same(loaded, original)
    return type(loaded) is int and loaded == original


def roundtrip(mod):
    f = io.BytesIO()
    Synth(mod).write_to(f)
    f.seek(0)
    return read_sunvox_file(f).module


for cls in CLASSES:
    for (n1, o1), (n2, o2) in itertools.combinations(cls.options.items(), 2):
        v1, v2 = 2 ** o1.size - 1, 2 ** o2.size - 1
        mod = cls()
        setattr(mod, n1, v1)
        setattr(mod, n2, v2)
        back = roundtrip(mod)
        for name in cls.options:
            check(same_after_load(getattr(back, name), getattr(mod, name), cls.options[name]),
                  f"{cls.__name__} pair {n1},{n2}: {name}")
    for _ in range(10):
        mod = cls()
        for name, opt in cls.options.items():
            setattr(mod, name, rng.randrange(2 ** opt.size))
        back = roundtrip(mod)
        clone = mod.clone()
        for name in cls.options:
            check(same_after_load(getattr(back, name), getattr(mod, name), cls.options[name]),
                  f"{cls.__name__} random: {name}")
            check(same_after_load(getattr(clone, name), getattr(mod, name), cls.options[name]),
                  f"{cls.__name__} clone: {name}")

if failures:
    print("FAIL")
    for f_ in failures[:40]:
        print(" -", f_)
    sys.exit(1)
print("PASS")
