"""Behaviour check for refactoring C05-1 (property C05: re-saving is stable).

Run from the repository root:
    PYTHONPATH=<root>/src/python python check.py
"""
import glob
import hashlib
import io
import logging
import os
import random
import struct
import sys

logging.disable(logging.CRITICAL)

from rv.api import read_sunvox_file  # noqa: E402
from rv.lib.iff import chunks, write_chunk  # noqa: E402

ROOT = os.getcwd()
FIXTURES = sorted(
    glob.glob(os.path.join(ROOT, "tests", "files", "**", "*.sun*"), recursive=True)
)
assert len(FIXTURES) >= 50, "run from the repository root (tests/files not found)"

FAILURES = []


def expect(cond, msg):
    if not cond:
        FAILURES.append(msg)


def save(obj):
    f = io.BytesIO()
    obj.write_to(f)
    return f.getvalue()


def load(data):
    return read_sunvox_file(io.BytesIO(data))


def split(data):
    return list(chunks(io.BytesIO(data)))


def join(chunk_list):
    f = io.BytesIO()
    for name, data in chunk_list:
        write_chunk(f, name, data)
    return f.getvalue()


def modules_of(obj):
    if hasattr(obj, "modules"):
        return [m for m in obj.modules if m is not None]
    return [obj.module]


def snapshot(obj):
    out = []
    for m in modules_of(obj):
        out.append(
            (
                m.mtype,
                m.index,
                sorted((k, repr(v)) for k, v in m.controller_values.items()),
                list(m.in_links),
                list(m.in_link_slots),
                list(m.out_links),
                list(m.out_link_slots),
                sorted((k, repr(v)) for k, v in m.option_values.items()),
                sorted(m.controllers_loaded),
            )
        )
    return out


CVALS = [-1, 0, 1, 127, 128, 255, 256, 300, 32768, 32769, 65535, 100000,
         -129, -32768, 2**31 - 1, -(2**31)]


def cval_positions(chunk_list):
    return [i for i, (name, _) in enumerate(chunk_list) if name == b"CVAL"]


def with_cval(chunk_list, pos, value):
    out = list(chunk_list)
    out[pos] = (b"CVAL", struct.pack("<i", value))
    return out


def robust_positions(chunk_list):
    """CVAL positions whose controller tolerates arbitrary stored values on load
    (enum-typed controllers reject unknown values with ValueError)."""
    good = []
    for pos in cval_positions(chunk_list):
        try:
            load(join(with_cval(chunk_list, pos, 99999)))
            load(join(with_cval(chunk_list, pos, -99999)))
        except Exception:  # noqa
            continue
        good.append(pos)
    return good


def mutate_cvals(chunk_list, rng, positions, p=0.5):
    out = list(chunk_list)
    for pos in positions:
        if rng.random() < p:
            out[pos] = (b"CVAL", struct.pack("<i", rng.choice(CVALS)))
    return out


def mutate_links(chunk_list, mode, rng):
    """mode 0: append trailing -1 entries; 1: insert -1 and drop SLnK;
    2: replace links by only -1 entries; 3: zero all SLnK slots (inconsistent
    file: known to need one extra cycle to settle); 4: drop SLnK."""
    out = []
    for name, data in chunk_list:
        if name == b"SLNK":
            if mode == 0:
                data = data + struct.pack("<i", -1) * rng.randrange(1, 4)
            elif mode == 1 and len(data) >= 8:
                data = data[:4] + struct.pack("<i", -1) + data[4:]
            elif mode == 2:
                data = struct.pack("<i", -1) * rng.randrange(0, 3)
        if name == b"SLnK":
            if mode == 0:
                data = data + struct.pack("<i", -1) * rng.randrange(1, 4)
            elif mode == 1:
                continue
            elif mode == 3:
                data = b"\0" * len(data)
            elif mode == 4:
                continue
        out.append((name, data))
    return out


def cycle(x, digest, label, stats, strict=True):
    """Load x, save repeatedly; fold everything observable into digest."""
    try:
        obj = load(x)
    except Exception as e:  # noqa
        digest.update(("EXC:" + type(e).__name__).encode())
        stats["load_exc"] += 1
        return
    before = snapshot(obj)
    try:
        y = save(obj)
    except Exception as e:  # noqa
        digest.update(("SAVEEXC:" + type(e).__name__).encode())
        stats["save_exc"] += 1
        return
    after = snapshot(obj)
    y_again = save(obj)
    expect(before == after, label + ": save changed the object")
    expect(y == y_again, label + ": saving twice gave different bytes")
    digest.update(repr(before).encode())
    digest.update(y)
    prev = y
    for n in range(3):
        try:
            nxt = save(load(prev))
        except Exception as e:  # noqa
            digest.update(("CYCEXC:" + type(e).__name__).encode())
            stats["cycle_exc"] += 1
            return
        if nxt != prev:
            stats["drift"] += 1
            expect(not strict, "%s: drift at cycle %d" % (label, n + 2))
        digest.update(nxt)
        prev = nxt
    stats["ok"] += 1


def generated_projects():
    """Projects built through the API: fan-in/fan-out links (non-zero slots, so
    SLnK is written), disconnected links (-1 in the middle and trailing), fully
    disconnected modules, and a plain chain (SLnK elided)."""
    from rv.api import NOTE, Pattern, Project, m

    out = []
    p = Project()
    g1 = p.new_module(m.Generator)
    g2 = p.new_module(m.AnalogGenerator)
    a = p.new_module(m.Amplifier, dc_offset=-100, balance=-128)
    f = p.new_module(m.Filter)
    e = p.new_module(m.Echo)
    g1 >> a
    g1 >> f
    g2 >> a
    g2 >> f
    a >> e
    f >> e
    e >> p.output
    a >> p.output
    out.append(("gen:fan", p))
    p = Project()
    g1 = p.new_module(m.Generator)
    g2 = p.new_module(m.Generator)
    g3 = p.new_module(m.Generator)
    a = p.new_module(m.Amplifier)
    g1 >> a
    g2 >> a
    g3 >> a
    a >> p.output
    g1 >> p.output
    p.connect(~g3, a)
    p.connect(~g1, a)
    out.append(("gen:disconnected", p))
    p = Project()
    g1 = p.new_module(m.Generator)
    a = p.new_module(m.Amplifier)
    g1 >> a >> p.output
    p.connect(~g1, a)
    p.connect(~a, p.output)
    out.append(("gen:all-disconnected", p))
    p = Project()
    g1 = p.new_module(m.Generator)
    a = p.new_module(m.Amplifier, dc_offset=128)
    g1 >> a >> p.output
    pat = Pattern(tracks=2, lines=4)
    p.attach_pattern(pat)
    pat.data[0][0].note = NOTE.C4
    pat.data[0][0].module = g1.index + 1
    out.append(("gen:chain", p))
    return [(name, save(proj)) for name, proj in out]


def corpus():
    for path in FIXTURES:
        with open(path, "rb") as f:
            yield os.path.relpath(path, ROOT).replace(os.sep, "/"), f.read()
    yield from generated_projects()


def corpus_digest(seeds=(1, 2, 3)):
    digest = hashlib.sha256()
    stats = dict(load_exc=0, save_exc=0, cycle_exc=0, drift=0, ok=0, cvals=0, robust=0)
    for rel, x in corpus():
        cycle(x, digest, rel, stats)
        cl = split(x)
        all_pos = cval_positions(cl)
        good = robust_positions(cl)
        stats["cvals"] += len(all_pos)
        stats["robust"] += len(good)
        for pos in all_pos:
            for v in (300, -7):
                cycle(join(with_cval(cl, pos, v)), digest, "%s @%d=%d" % (rel, pos, v), stats)
        for seed in seeds:
            rng = random.Random("%s/%d" % (rel, seed))
            cycle(join(mutate_cvals(cl, rng, good)), digest, "%s cval#%d" % (rel, seed), stats)
            for mode in range(5):
                cycle(
                    join(mutate_links(cl, mode, rng)),
                    digest,
                    "%s link#%d/%d" % (rel, seed, mode),
                    stats,
                    strict=mode != 3,
                )
            mode = rng.choice((0, 1, 2, 4))
            cycle(
                join(mutate_links(mutate_cvals(cl, rng, good, 1.0), mode, rng)),
                digest,
                "%s both#%d" % (rel, seed),
                stats,
            )
    return digest.hexdigest(), stats


def finish():
    if FAILURES:
        for f in FAILURES[:40]:
            print("FAIL:", f)
        print("FAILED (%d)" % len(FAILURES))
        sys.exit(1)
    print("PASS")


# --------------------------------------------------------------------------
# Specific to this refactoring: Range.to_raw_value/from_raw_value,
# Module.get_raw/set_raw, raise_or_warn_controller_value_validation
# --------------------------------------------------------------------------
class _Capture(logging.Handler):
    def __init__(self):
        super().__init__(level=logging.DEBUG)
        self.records = []

    def emit(self, record):
        self.records.append(record)


def check_range():
    from rv.controller import CompactRange, Range, WarnOnlyRange

    values = [-(2**31), -32768, -129, -128, -1, 0, 1, 127, 128, 255, 256, 300,
              32768, 65535, 2**31 - 1]
    for cls in (Range, CompactRange, WarnOnlyRange):
        for lo, hi in [(-128, 128), (-1, 1), (-32768, 32767), (0, 256), (1, 4),
                       (0, 0), (5, 32768), (-256, -1)]:
            r = cls(lo, hi)
            for v in values:
                want_from = v + lo if lo < 0 else v
                want_to = v - lo if lo < 0 else v
                expect(r.from_raw_value(v) == want_from, "from_raw_value %r %r" % (r, v))
                expect(r.to_raw_value(v) == want_to, "to_raw_value %r %r" % (r, v))
                expect(type(r.from_raw_value(v)) is int, "from_raw_value type")
                expect(r.to_raw_value(r.from_raw_value(v)) == v, "raw round trip")
                expect(r.from_raw_value(r.to_raw_value(v)) == v, "user round trip")
            if lo >= 0:
                # no offset: the very same object comes back (bools stay bools)
                for obj in (True, False, 1.5, "x", None):
                    expect(r.from_raw_value(obj) is obj, "identity from_raw_value")
                    expect(r.to_raw_value(obj) is obj, "identity to_raw_value")
            else:
                expect(r.from_raw_value(2.5) == 2.5 + lo, "float from_raw_value")
                expect(r.to_raw_value(True) == 1 - lo, "bool to_raw_value")
    expect(Range(-128, 128).to_raw_value(-128) == 0, "negative minimum is stored as 0")
    from rv.controller import NoOffsetRange

    r = NoOffsetRange(-128, 128)
    for v in values:
        expect(r.from_raw_value(v) == v and r.to_raw_value(v) == v, "NoOffsetRange")


def check_get_set_raw():
    import rv.errors
    from rv.api import m
    from rv.errors import (
        ControllerValueError,
        RangeValidationError,
        override_raise_controller_value_errors,
    )

    log = logging.getLogger("rv.modules.module")
    logging.getLogger("rv").addHandler(logging.NullHandler())
    handler = _Capture()
    log.addHandler(handler)
    old_level = log.level
    log.setLevel(logging.DEBUG)
    logging.disable(logging.NOTSET)
    try:
        amp = m.Amplifier()
        expect(amp.get_raw("dc_offset") == 128, "default dc_offset raw")
        expect(amp.get_raw("volume") == 256, "default volume raw")
        # in range: no log, value converted
        for raw, user in [(0, -128), (128, 0), (256, 128), (28, -100)]:
            amp.set_raw("dc_offset", raw)
            expect(amp.dc_offset == user, "dc_offset user value for raw %d" % raw)
            expect(amp.get_raw("dc_offset") == raw, "dc_offset raw round trip %d" % raw)
        expect(handler.records == [], "no log for in-range values")
        # strict mode: error raised, previous value kept
        expect(rv.errors.RAISE_CONTROLLER_VALUE_ERRORS is True, "strict by default")
        amp.set_raw("dc_offset", 128)
        for name, raw, shown, lo, hi in [
            ("dc_offset", 300, 172, -128, 128),
            ("dc_offset", -1, -129, -128, 128),
            ("volume", 1025, 1025, 0, 1024),
            ("volume", -5, -5, 0, 1024),
            ("balance", 65535, 65407, -128, 128),
        ]:
            before = dict(amp.controller_values)
            try:
                amp.set_raw(name, raw)
            except ControllerValueError as e:
                want = "0(Amplifier).%s=%d is not within [%d, %d]" % (name, shown, lo, hi)
                expect(e.args == (want,), "strict message %r != %r" % (e.args, want))
                expect(isinstance(e, ValueError), "ControllerValueError is a ValueError")
                expect(type(e.__cause__) is RangeValidationError, "cause is the range error")
                expect(e.__cause__.args == (shown, lo, hi), "cause args")
            else:
                expect(False, "strict set_raw(%s, %d) did not raise" % (name, raw))
            expect(dict(amp.controller_values) == before, "strict failure keeps values")
        expect(handler.records == [], "strict mode does not log")
        # lenient mode (as used while reading): warning logged, value kept as is
        amp.index = 0x1F
        with override_raise_controller_value_errors(False):
            for name, raw, shown, lo, hi in [
                ("dc_offset", 300, 172, -128, 128),
                ("dc_offset", 428, 300, -128, 128),
                ("dc_offset", -1, -129, -128, 128),
                ("dc_offset", 2**31 - 1, 2**31 - 129, -128, 128),
                ("volume", 1025, 1025, 0, 1024),
                ("volume", -(2**31), -(2**31), 0, 1024),
                ("balance", 65535, 65407, -128, 128),
            ]:
                del handler.records[:]
                amp.set_raw(name, raw)
                expect(getattr(amp, name) == shown, "lenient %s=%d" % (name, raw))
                expect(type(getattr(amp, name)) is int, "lenient value is int")
                expect(amp.get_raw(name) == raw, "lenient raw round trip %s=%d" % (name, raw))
                expect(len(handler.records) == 1, "exactly one warning")
                if handler.records:
                    rec = handler.records[0]
                    want = "1f(Amplifier).%s=%d is not within [%d, %d]" % (name, shown, lo, hi)
                    expect(rec.levelno == logging.WARNING, "warning level")
                    expect(rec.getMessage() == want, "log %r != %r" % (rec.getMessage(), want))
                    expect(rec.name == "rv.modules.module", "logger name")
                    expect(
                        rec.exc_info is not None
                        and rec.exc_info[0] is RangeValidationError,
                        "exc_info carried",
                    )
        expect(rv.errors.RAISE_CONTROLLER_VALUE_ERRORS is True, "strict restored")
        amp.index = None
        # enum typed and bool typed controllers
        gen = m.Generator()
        wf = type(gen).Waveform
        for member in wf:
            gen.set_raw("waveform", member.value)
            expect(gen.waveform is member, "enum set_raw")
            expect(gen.get_raw("waveform") == member.value, "enum get_raw")
            expect(type(gen.get_raw("waveform")) is int, "enum raw type")
        try:
            gen.set_raw("waveform", 9999)
        except ValueError as e:
            expect(not isinstance(e, ControllerValueError), "enum error is plain ValueError")
        else:
            expect(False, "bad enum value accepted")
        gen.set_raw("sustain", 1)
        expect(gen.sustain is True and gen.get_raw("sustain") == 1, "bool on")
        gen.set_raw("sustain", 0)
        expect(gen.sustain is False and gen.get_raw("sustain") == 0, "bool off")
        # None valued controller is stored as 0 (+offset)
        amp.controller_values["dc_offset"] = None
        expect(amp.get_raw("dc_offset") == 128, "None -> 0 -> raw 128")
        amp.controller_values["volume"] = None
        expect(amp.get_raw("volume") == 0, "None -> 0")
        # unknown controller name
        for fn in (lambda: amp.get_raw("nope"), lambda: amp.set_raw("nope", 1)):
            try:
                fn()
            except KeyError:
                pass
            else:
                expect(False, "unknown controller accepted")
        # every module type: raw values survive set_raw/get_raw for all ranges
        from rv.controller import Range
        from rv.modules import MODULE_CLASSES

        with override_raise_controller_value_errors(False):
            for mtype, cls in sorted(MODULE_CLASSES.items()):
                mod = cls()
                for name, ctl in mod.controllers.items():
                    t = ctl.instance_value_type(mod)
                    if not isinstance(t, Range):
                        continue
                    for raw in (0, 1, 300, 32768, 65535, -7, 2**31 - 1):
                        mod.set_raw(name, raw)
                        expect(
                            mod.get_raw(name) == raw,
                            "%s.%s raw %d not preserved" % (mtype, name, raw),
                        )
                        expect(
                            mod.controller_values[name] == t.from_raw_value(raw),
                            "%s.%s user value for raw %d" % (mtype, name, raw),
                        )
    finally:
        logging.disable(logging.CRITICAL)
        log.removeHandler(handler)
        log.setLevel(old_level)


def check_raise_or_warn():
    import rv.errors
    from rv.errors import (
        ControllerValueError,
        override_raise_controller_value_errors,
        raise_or_warn_controller_value_validation,
    )

    class FakeLog:
        def __init__(self):
            self.calls = []

        def warning(self, *args, **kw):
            self.calls.append((args, kw))

    cause = RuntimeError("boom")
    fake = FakeLog()
    try:
        raise_or_warn_controller_value_validation(cause, fake, "a", "b")
    except ControllerValueError as e:
        expect(e.args == ("a", "b") and e.__cause__ is cause, "raise path")
    else:
        expect(False, "did not raise in strict mode")
    expect(fake.calls == [], "strict mode must not log")
    with override_raise_controller_value_errors(False):
        r = raise_or_warn_controller_value_validation(cause, fake, "a %s", "b")
        expect(r is None, "warn path returns None")
        with override_raise_controller_value_errors(True):
            try:
                raise_or_warn_controller_value_validation(cause, fake, "x")
            except ControllerValueError:
                pass
            else:
                expect(False, "nested strict override ignored")
        expect(rv.errors.RAISE_CONTROLLER_VALUE_ERRORS is False, "nested restore")
    expect(fake.calls == [(("a %s", "b"), {"exc_info": cause})], "warn path call")
    expect(rv.errors.RAISE_CONTROLLER_VALUE_ERRORS is True, "restore")


def check_drift_example():
    """The example from the property: dc_offset stored as 300 must stay 300."""
    from rv.api import Synth, m

    x = save(Synth(m.Amplifier()))
    cl = split(x)
    pos = cval_positions(cl)[2]  # volume, balance, dc_offset
    cur = join(with_cval(cl, pos, 300))
    seen = []
    for _ in range(4):
        obj = load(cur)
        seen.append(obj.module.dc_offset)
        cur = save(obj)
        (raw,) = struct.unpack("<i", split(cur)[pos][1])
        seen.append(raw)
    expect(seen == [172, 300] * 4, "300 drifted: %r" % (seen,))


EXPECTED_DIGEST = "26e5497b22a7e6cae03c2ac11d1cd573c92d11194277db18d6d0b09dd0b5d1e5"

if __name__ == "__main__":
    check_range()
    check_get_set_raw()
    check_raise_or_warn()
    check_drift_example()
    got, stats = corpus_digest()
    expect(stats["ok"] > 2000, "corpus too small: %r" % (stats,))
    expect(got == EXPECTED_DIGEST, "corpus digest changed: %s %r" % (got, stats))
    finish()
