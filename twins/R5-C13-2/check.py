"""Behaviour check for genrv.tools.generate (enumname, resolve_object_name,
generate, arg_parser, main).

Run from the repository root:
    PYTHONPATH=<root>/src/python /venv/bin/python check.py
"""
import contextlib
import io
import itertools
import logging
import random
import sys
import tempfile
from pathlib import Path

import yaml
from genrv.tools import generate as G

ROOT = Path.cwd()
FAILURES = []


def expect(cond, msg):
    if not cond:
        FAILURES.append(msg)
        print("FAIL:", msg)


def outcome(fn, *args, **kw):
    try:
        return ("ok", fn(*args, **kw))
    except BaseException as e:  # noqa
        return ("raised", type(e))


# ------------------------------------------------------------------ enumname
def reference_enumname(ekey):
    """The mangling rules, spelled out step by step."""
    for symbol, word in [
        ("/", "_div_"),
        ("*", "_mul_"),
        (".", "_"),
        ("+", "_plus_"),
        ("-", "_neg_"),
        ("^", "_pow_"),
    ]:
        ekey = ekey.replace(symbol, word)
    if ekey[0].isdigit():
        ekey = "_" + ekey
    elif ekey[0] == "_":
        ekey = ekey[1:]
    while "__" in ekey:
        ekey = ekey.replace("__", "_")
    return ekey.lower()


def check_enumname():
    table = {
        "off": "off",
        "Hz": "hz",
        "ms": "ms",
        "sec/256": "sec_div_256",
        "sec/16384": "sec_div_16384",
        "line/2": "line_div_2",
        "Hz/64": "hz_div_64",
        "delay/32768": "delay_div_32768",
        "-12dB": "neg_12db",
        "-x": "neg_x",
        "+x": "plus_x",
        "x-": "x_neg_",
        "a+b": "a_plus_b",
        "a*b": "a_mul_b",
        "a^b": "a_pow_b",
        "x^2": "x_pow_2",
        "1.5": "_1_5",
        "2x": "_2x",
        "8bit": "_8bit",
        "_private": "private",
        "__x": "_x",
        "___x": "_x",
        "_": "",
        "__": "_",
        "_1": "1",
        ".": "",
        "..": "_",
        ".5": "5",
        "/": "div_",
        "a__b": "a_b",
        "a____b": "a_b",
        "a_/_b": "a_div_b",
        "a./b": "a_div_b",
        "A.B": "a_b",
        "LP 12dB": "lp 12db",
        "sin+cos": "sin_plus_cos",
        "-+*/^.": "neg_plus_mul_div_pow_",
        "²x": "_²x",
        "٣": "_٣",
        "É-": "é_neg_",
    }
    for key, want in table.items():
        got = outcome(G.enumname, key)
        expect(got == ("ok", want), f"enumname({key!r}) = {got}, want {want!r}")
        expect(reference_enumname(key) == want, f"reference disagrees on {key!r}")

    # exhaustive over short strings of the interesting alphabet
    alphabet = "a_/*.+-^1Z "
    count = 0
    for n in range(1, 5):
        for chars in itertools.product(alphabet, repeat=n):
            key = "".join(chars)
            count += 1
            if G.enumname(key) != reference_enumname(key):
                expect(False, f"enumname({key!r}) differs from reference")
                return
    rng = random.Random(13)
    for _ in range(3000):
        key = "".join(rng.choice(alphabet + "bC9_") for _ in range(rng.randint(1, 14)))
        if G.enumname(key) != reference_enumname(key):
            expect(False, f"enumname({key!r}) differs from reference")
            return

    expect(outcome(G.enumname, "") == ("raised", IndexError), "enumname('') IndexError")
    for bad in (5, None, True, 1.5, b"x/y", ["a"]):
        got = outcome(G.enumname, bad)
        want = outcome(reference_enumname, bad)
        expect(got[0] == "raised" and got == want, f"enumname({bad!r}) -> {got}, want {want}")
        expect(got == ("raised", AttributeError) or isinstance(bad, bytes),
               f"enumname({bad!r}) raises AttributeError, got {got}")
    expect(type(G.enumname("X")) is str, "returns str")


def check_enumname_against_library():
    """Every enum key of the spec maps onto the member the library exposes."""
    import rv.modules  # noqa

    spec = yaml.safe_load((ROOT / "specs" / "fileformat.yaml").read_text())
    seen = 0
    for type_name, modtype in spec["module_types"].items():
        cls = rv.modules.MODULE_CLASSES[modtype.get("type") or type_name]
        for enum_name, members in (modtype.get("enums") or {}).items():
            enum_cls = getattr(cls, enum_name)
            got = [(m.name, m.value) for m in enum_cls]
            want = [(G.enumname(k), v) for k, v in members.items()]
            expect(got == want, f"{type_name}.{enum_name}: {got} != {want}")
            seen += len(want)
        for entry in modtype.get("controllers") or []:
            for cname, cdef in entry.items():
                if "enum" in cdef and "default" in cdef:
                    ctl = cls.controllers["in_" if cname == "in" else cname]
                    expect(
                        ctl.default is getattr(cls, cdef["enum"])[G.enumname(cdef["default"])],
                        f"{type_name}.{cname}: enum default",
                    )
    expect(seen > 300, f"spec enum members checked: {seen}")


# ------------------------------------------------------- resolve_object_name
def check_resolve_object_name():
    import collections
    import os.path
    from genrv.codegen.python.gen import PythonGenerator

    r = G.resolve_object_name
    expect(r("genrv.codegen.python.gen:PythonGenerator") is PythonGenerator, "generator class")
    expect(r("collections:OrderedDict") is collections.OrderedDict, "one attr")
    expect(r("collections:OrderedDict.fromkeys") == collections.OrderedDict.fromkeys, "dotted")
    expect(r("os:path.join") is os.path.join, "module attr chain")
    expect(r("os.path:join") is os.path.join, "dotted module")
    expect(r("pathlib:Path.home.__name__") == "home", "three levels")
    expect(outcome(r, "collections") == ("raised", ValueError), "no colon: ValueError")
    expect(outcome(r, "a:b:c") == ("raised", ValueError), "two colons: ValueError")
    expect(outcome(r, "collections:") == ("raised", AttributeError), "empty attr")
    expect(outcome(r, "collections:nope") == ("raised", AttributeError), "missing attr")
    expect(outcome(r, "collections:OrderedDict.nope") == ("raised", AttributeError), "missing sub")
    expect(outcome(r, "collections:OrderedDict..x") == ("raised", AttributeError), "empty part")
    expect(outcome(r, "no_such_module_xyz:thing") == ("raised", ModuleNotFoundError), "no module")
    expect(outcome(r, ":x") == ("raised", ValueError), "empty module name")
    expect(outcome(r, None) == ("raised", AttributeError), "None")


# ------------------------------------------------------------------ generate
class Recorder:
    calls = []

    def __init__(self, **options):
        self.options = options

    def __repr__(self):
        return "Recorder(%r)" % (sorted(self.options),)

    def run(self, env):
        Recorder.calls.append((self.options, env))
        return "ignored"


class Capture(logging.Handler):
    def __init__(self):
        super().__init__(level=logging.DEBUG)
        self.records = []

    def emit(self, record):
        self.records.append(record)


def check_generate():
    sys.modules.setdefault("c13_check_recorder", sys.modules[__name__])
    cap = Capture()
    G.log.addHandler(cap)
    old_level = G.log.level
    G.log.setLevel(logging.DEBUG)
    try:
        env = object()
        Recorder.calls.clear()
        result = G.generate(env, f"{__name__}:Recorder", spec_base="s", dest_base="d")
        expect(result is None, "generate returns None")
        expect(Recorder.calls == [({"spec_base": "s", "dest_base": "d"}, env)], "run(env) called")
        expect(len(cap.records) == 1, f"one log record, got {len(cap.records)}")
        rec = cap.records[0]
        expect(rec.levelno == logging.INFO, "INFO level")
        expect(
            rec.getMessage() == "Running codegen Recorder(['dest_base', 'spec_base'])",
            f"log message {rec.getMessage()!r}",
        )
        Recorder.calls.clear()
        G.generate(env, generator=f"{__name__}:Recorder")
        expect(Recorder.calls == [({}, env)], "no options")
        expect(outcome(G.generate, env, "collections:nope") == ("raised", AttributeError),
               "unknown generator")
        expect(outcome(G.generate, env) == ("raised", TypeError), "generator required")
    finally:
        G.log.removeHandler(cap)
        G.log.setLevel(old_level)


# ---------------------------------------------------------------- arg_parser
def check_arg_parser():
    expect(G.DESCRIPTION == "Radiant Voices code generator tool", "DESCRIPTION")
    parser = G.arg_parser()
    expect(parser.description == G.DESCRIPTION, "parser description")
    expect(parser.parse_args(["--config", "x.yaml"]).config == "x.yaml", "--config parsed")
    err = io.StringIO()
    with contextlib.redirect_stderr(err):
        got = outcome(parser.parse_args, [])
    expect(got == ("raised", SystemExit), "--config is required")
    expect("--config" in err.getvalue(), "usage mentions --config")


# ---------------------------------------------------------------------- main
def check_main():
    ref = ROOT / "src" / "python" / "rv" / "modules" / "base"
    root_logger = logging.getLogger()
    saved = (root_logger.handlers[:], root_logger.level, logging.getLogger("genrv").level)
    old_argv = sys.argv
    with tempfile.TemporaryDirectory() as d:
        d = Path(d)
        config = d / "genrv-config.yaml"
        config.write_text(
            yaml.safe_dump(
                [
                    {
                        "generator": "genrv.codegen.python.gen:PythonGenerator",
                        "spec_base": str(ROOT / "specs"),
                        "dest_base": str(d / "out1"),
                    },
                    {
                        "generator": f"{__name__}:Recorder",
                        "spec_base": "s",
                        "dest_base": "d",
                    },
                ]
            )
        )
        sys.modules.setdefault("c13_check_recorder", sys.modules[__name__])
        Recorder.calls.clear()
        out, err = io.StringIO(), io.StringIO()
        try:
            sys.argv = ["generate", "--config", str(config)]
            with contextlib.redirect_stdout(out), contextlib.redirect_stderr(err):
                rc = G.main()
        finally:
            sys.argv = old_argv
        expect(rc == 0, f"main() returns 0, got {rc!r}")
        produced = sorted(p.name for p in (d / "out1" / "modules" / "base").iterdir())
        expect(len(produced) == 43, f"43 files, got {len(produced)}")
        for name in produced:
            expect(
                (d / "out1" / "modules" / "base" / name).read_text() == (ref / name).read_text(),
                f"{name}: regenerated file differs from the checked-in one",
            )
        expect(len(Recorder.calls) == 1, "second config entry ran")
        options, env = Recorder.calls[0]
        expect(options == {"spec_base": "s", "dest_base": "d"}, "second entry options")
        expect(
            sorted(env.filters.keys() & {"camelcase", "enumname", "hex", "pascalcase", "repr"})
            == ["camelcase", "enumname", "hex", "pascalcase", "repr"],
            "custom filters registered",
        )
        expect(env.filters["enumname"] is G.enumname, "enumname filter")
        expect(env.filters["hex"] is hex and env.filters["repr"] is repr, "builtin filters")
        expect(env.from_string("{{ 'sec/256' | enumname }}|{{ 73 | hex }}|{{ 'a' | repr }}")
               .render() == "sec_div_256|0x49|'a'", "filters work in templates")
        expect(sorted(env.loader.mapping) == ["python", "ts"], "template prefixes")
        for name in ("python/base_module.py.jinja2", "ts/modtype.ts.jinja2"):
            expect(outcome(env.get_template, name)[0] == "ok", f"template {name} found")
        expect(logging.getLogger("genrv").level == logging.DEBUG, "genrv logger at DEBUG")

        # errors: missing --config, unreadable config file
        try:
            sys.argv = ["generate"]
            with contextlib.redirect_stderr(io.StringIO()):
                got = outcome(G.main)
        finally:
            sys.argv = old_argv
        expect(got == ("raised", SystemExit), "main without --config exits")
        try:
            sys.argv = ["generate", "--config", str(d / "missing.yaml")]
            got = outcome(G.main)
        finally:
            sys.argv = old_argv
        expect(got == ("raised", FileNotFoundError), f"missing config file: {got}")
        # an empty list of configs is fine
        (d / "empty.yaml").write_text("[]\n")
        try:
            sys.argv = ["generate", "--config", str(d / "empty.yaml")]
            got = outcome(G.main)
        finally:
            sys.argv = old_argv
        expect(got == ("ok", 0), f"empty config: {got}")
    root_logger.handlers[:] = saved[0]
    root_logger.setLevel(saved[1])
    logging.getLogger("genrv").setLevel(saved[2])


for name in ("arg_parser", "resolve_object_name", "generate", "enumname", "main", "log",
             "DESCRIPTION"):
    expect(hasattr(G, name), f"public name {name}")

check_enumname()
check_enumname_against_library()
check_resolve_object_name()
check_generate()
check_arg_parser()
check_main()
if FAILURES:
    print(f"{len(FAILURES)} failure(s)")
    sys.exit(1)
print("PASS")
