"""Behaviour check for Pattern bulk setters, Pattern.clear / data / raw_data
and the project-aware Note accessors (property C19).

Run from the repository root:
    PYTHONPATH=<root>/src/python python check.py
Prints PASS and exits 0 when every expectation holds.
"""
import sys
from itertools import product

from rv.api import NOTE, NOTECMD, Note, Pattern, Project, m
from rv.errors import ModuleOwnershipError, PatternOwnershipError

CHECKS = 0


def ok(cond, msg):
    global CHECKS
    CHECKS += 1
    if not cond:
        print("FAIL:", msg)
        sys.exit(1)


class Boom(Exception):
    pass


def raises(exc_type, thunk):
    try:
        thunk()
    except exc_type as e:
        return type(e) is exc_type or isinstance(e, exc_type)
    except BaseException:
        return False
    return False


SHAPES = [(l, t) for l in (1, 2, 3) for t in (1, 2, 3)]


def make_pattern(lines, tracks, attached):
    project = None
    pattern = Pattern(lines=lines, tracks=tracks)
    if attached:
        project = Project()
        project.new_module(m.Generator)
        project.new_module(m.Reverb)
        project.attach_pattern(pattern)
    return project, pattern


def seed(pattern):
    """Give every cell distinctive content (through the public data list)."""
    for l, row in enumerate(pattern.data):
        for t, note in enumerate(row):
            note.note = NOTE.C4 + l
            note.vel = 1 + t
            note.module = 1 + ((l + t) % 3)
            note.ctl = 0x0102 + l
            note.val = 0x0304 + t


def snapshot(pattern):
    data = pattern.data
    return dict(
        outer=data,
        rows=list(data),
        ids=[[id(n) for n in row] for row in data],
        notes=[list(row) for row in data],
        raw=pattern.raw_data,
    )


def unchanged(pattern, snap):
    data = pattern.data
    return (
        data is snap["outer"]
        and len(data) == len(snap["rows"])
        and all(a is b for a, b in zip(data, snap["rows"]))
        and [[id(n) for n in row] for row in data] == snap["ids"]
        and pattern.raw_data == snap["raw"]
        and all(n.pattern is pattern for row in data for n in row)
    )


def all_owned(pattern):
    return all(n.pattern is pattern for row in pattern.data for n in row)


def fresh_note(l, t):
    return Note(note=NOTE.C5 + l, vel=10 + t, module=1 + (t % 2), ctl=l, val=t)


# ---------------------------------------------------------------- data / clear
def check_data_and_clear():
    for (lines, tracks), attached in product(SHAPES, (False, True)):
        project, p = make_pattern(lines, tracks, attached)
        ok("_data" not in vars(p), "data is created lazily")
        d = p.data
        ok(p.data is d, "data is cached")
        ok(vars(p)["_data"] is d, "_data holds the data list")
        ok(len(d) == lines and all(len(r) == tracks for r in d), "shape")
        ok(len({id(r) for r in d}) == lines, "rows distinct")
        ok(len({id(n) for r in d for n in r}) == lines * tracks, "notes distinct")
        ok(all(type(n) is Note for r in d for n in r), "Note instances")
        ok(all(n.is_empty() and n.module == 0 for r in d for n in r), "empty notes")
        ok(all_owned(p), "cleared notes owned")
        ok(all(n.project is project for r in d for n in r), "note.project")
        ok(p.raw_data == b"\0" * (8 * lines * tracks), "blank raw data")
        seed(p)
        ok(p.clear() is None, "clear returns None")
        ok(p.data is not d, "clear installs a new list")
        ok(all(a is not b for a, b in zip(p.data, d)), "clear installs new rows")
        ok(p.raw_data == b"\0" * (8 * lines * tracks), "cleared raw data")
        ok(all_owned(p), "cleared notes owned (2)")
        ok(d[0][0].note == NOTE.C4, "old list keeps its content")
    # clear follows the current dimensions
    p = Pattern(lines=2, tracks=2)
    p.data
    p.lines, p.tracks = 3, 1
    p.clear()
    ok([len(r) for r in p.data] == [1, 1, 1], "clear uses current lines/tracks")
    p.lines, p.tracks = 0, 5
    p.clear()
    ok(p.data == [], "zero lines")
    p.lines, p.tracks = 2, 0
    p.clear()
    ok(p.data == [[], []], "zero tracks")
    # a bad track count is discovered after the first row has been appended
    p = Pattern(lines=2, tracks=2)
    p.data
    p.tracks = "x"
    ok(raises(TypeError, p.clear), "bad tracks -> TypeError")
    ok(vars(p)["_data"] == [[]], "state after failed clear (tracks)")
    p = Pattern(lines=2, tracks=2)
    old = p.data
    p.lines = "x"
    ok(raises(TypeError, p.clear), "bad lines -> TypeError")
    ok(vars(p)["_data"] == [] and vars(p)["_data"] is not old,
       "state after failed clear (lines)")


# -------------------------------------------------------------------- raw_data
def check_raw_data():
    for lines, tracks in SHAPES:
        _, p = make_pattern(lines, tracks, False)
        seed(p)
        raw = p.raw_data
        ok(len(raw) == 8 * lines * tracks, "raw length")
        _, q = make_pattern(lines, tracks, False)
        before = snapshot(q)
        q.raw_data = raw
        ok(q.data is before["outer"], "raw setter keeps the list")
        ok([[id(n) for n in r] for r in q.data] == before["ids"], "raw setter keeps notes")
        ok(q.raw_data == raw, "raw round trip")
        for l in range(lines):
            for t in range(tracks):
                a, b = p.data[l][t], q.data[l][t]
                ok((a.note, a.vel, a.module, a.ctl, a.val)
                   == (b.note, b.vel, b.module, b.ctl, b.val), "cell content")
                off = (l * tracks + t) * 8
                ok(raw[off:off + 8] == a.raw_data, "cell offset")
        # longer input is fine, short input fails at the first incomplete cell
        q.raw_data = raw + b"\xff" * 8
        ok(q.raw_data == raw, "extra bytes ignored")
        _, r = make_pattern(lines, tracks, False)
        import struct
        ok(raises(struct.error, lambda: setattr(r, "raw_data", raw[:-1])), "short raw")
        ok(r.raw_data[:-8] == raw[:-8], "cells before the short one were written")
        ok(r.raw_data[-8:] == b"\0" * 8, "short cell untouched")


# ------------------------------------------------------------------ set_via_fn
def check_set_via_fn():
    for (lines, tracks), attached in product(SHAPES, (False, True)):
        project, p = make_pattern(lines, tracks, attached)
        seed(p)
        before = snapshot(p)
        calls = []
        made = {}

        def fn(pattern, l, t):
            ok(pattern is p, "fn receives the pattern")
            ok(unchanged(p, before), "old data visible while fn runs")
            calls.append((l, t))
            made[l, t] = fresh_note(l, t)
            return made[l, t]

        ok(p.set_via_fn(fn) is p, "set_via_fn returns self")
        ok(calls == [(l, t) for l in range(lines) for t in range(tracks)],
           "row-major call order, one call per cell")
        d = p.data
        ok(d is not before["outer"], "new outer list")
        ok(all(a is not b for a, b in zip(d, before["rows"])), "new rows")
        ok(len(d) == lines and all(len(r) == tracks for r in d), "shape kept")
        ok(all(d[l][t] is made[l, t] for l, t in made), "exactly the supplied notes")
        ok(all_owned(p), "ownership after set_via_fn")
        ok(p.project is project, "pattern.project kept")
        ok(all(n.project is project for r in d for n in r), "note.project is the real project")
        # the previous list is left alone
        ok([[id(n) for n in r] for r in before["outer"]] == before["ids"], "old list intact")
        ok(b"".join(n.raw_data for r in before["outer"] for n in r) == before["raw"],
           "old notes intact")
        if attached:
            ok(len(project.modules) == 3 and len(project.patterns) == 1, "project untouched")
            for r in d:
                for n in r:
                    ok(n.mod is project.modules[n.module - 1], "note.mod works")
        else:
            ok(raises(PatternOwnershipError, lambda: d[0][0].mod), "mod needs a project")

        # failure injected at every cell
        for fl, ft in product(range(lines), range(tracks)):
            snap = snapshot(p)
            handed = []

            def bad(pattern, l, t):
                if (l, t) == (fl, ft):
                    raise Boom((l, t))
                n = fresh_note(l, t)
                handed.append(n)
                return n

            ok(raises(Boom, lambda: p.set_via_fn(bad)), "fn error propagates")
            ok(unchanged(p, snap), "contents kept after failure at %r" % ((fl, ft),))
            ok(len(handed) == fl * tracks + ft, "fn stops being called after failure")
            ok(all(n.pattern is None for n in handed), "abandoned notes are not adopted")

        # a non-Note result is noticed only while adopting, before installing
        for fl, ft in product(range(lines), range(tracks)):
            snap = snapshot(p)
            handed = []

            def odd(pattern, l, t):
                if (l, t) == (fl, ft):
                    return None
                n = fresh_note(l, t)
                handed.append(((l, t), n))
                return n

            ok(raises(AttributeError, lambda: p.set_via_fn(odd)), "None result")
            ok(unchanged(p, snap), "contents kept after None result")
            ok(len(handed) == lines * tracks - 1, "fn was called for every cell")
            for pos, n in handed:
                ok((n.pattern is p) == (pos < (fl, ft)), "adoption is row-major")

        # successive edits
        for k in range(3):
            p.set_via_fn(lambda pattern, l, t: Note(vel=k + 1, val=l * 8 + t))
            ok(all(p.data[l][t].vel == k + 1 and p.data[l][t].val == l * 8 + t
                   for l in range(lines) for t in range(tracks)), "edit %d" % k)
            ok(all_owned(p), "ownership after edit %d" % k)

    # first use on a pattern whose data was never touched
    p = Pattern(lines=2, tracks=2)
    p.set_via_fn(lambda pattern, l, t: Note(vel=5))
    ok(p.raw_data == Note(vel=5).raw_data * 4 and all_owned(p), "lazy data + set_via_fn")
    p = Pattern(lines=2, tracks=2)
    ok(raises(Boom, lambda: p.set_via_fn(lambda *a: (_ for _ in ()).throw(Boom()))), "boom")
    ok(p.raw_data == b"\0" * 32 and all_owned(p), "lazy data + failing fn")

    # dimensions are read while iterating: lines once, tracks once per line
    p = Pattern(lines=3, tracks=2)
    calls = []

    def shrink(pattern, l, t):
        calls.append((l, t))
        if (l, t) == (0, 0):
            pattern.tracks = 1
            pattern.lines = 1
        return Note(vel=9)

    p.set_via_fn(shrink)
    ok(calls == [(0, 0), (0, 1), (1, 0), (2, 0)], "dimension evaluation order: %r" % calls)
    ok([[n.vel for n in r] for r in p.data] == [[9, 9], [9, 0], [9, 0]], "partial overwrite")
    ok(all_owned(p), "ownership incl. untouched copies")

    # fn may clear the pattern; the staged result still wins
    p = Pattern(lines=2, tracks=1)
    p.set_via_fn(lambda pattern, l, t: (pattern.clear(), Note(vel=3 + l))[1])
    ok([n.vel for r in p.data for n in r] == [3, 4] and all_owned(p), "fn clearing")

    # data shorter than the declared size: fn runs once, then IndexError
    p = Pattern(lines=1, tracks=1)
    seed(p)
    snap = snapshot(p)
    p.lines = 2
    calls = []
    ok(raises(IndexError,
              lambda: p.set_via_fn(lambda pattern, l, t: calls.append((l, t)) or Note())),
       "IndexError for missing row")
    ok(calls == [(0, 0), (1, 0)], "fn called before the store fails")
    ok(p.data is snap["outer"] and p.data[0][0] is snap["notes"][0][0], "kept (IndexError)")

    # the same note object in two cells is allowed
    shared = Note(vel=7)
    p = Pattern(lines=2, tracks=2)
    p.set_via_fn(lambda *a: shared)
    ok(all(n is shared for r in p.data for n in r) and shared.pattern is p, "shared note")


# ----------------------------------------------------------------- set_via_gen
class CountingIter:
    def __init__(self, items, fail_at=None):
        self.items = list(items)
        self.i = 0
        self.fail_at = fail_at
        self.iter_calls = 0

    def __iter__(self):
        self.iter_calls += 1
        return self

    def __next__(self):
        if self.i == self.fail_at:
            raise Boom(self.i)
        if self.i >= len(self.items):
            raise StopIteration
        self.i += 1
        return self.items[self.i - 1]


def check_set_via_gen():
    for (lines, tracks), attached in product(SHAPES, (False, True)):
        project, p = make_pattern(lines, tracks, attached)
        seed(p)
        cells = [(l, t) for l in range(lines) for t in range(tracks)]
        # edit every other cell, in reverse order
        chosen = cells[::-2]
        before = snapshot(p)
        made = {}
        seen = {}

        def gen(pattern, new):
            ok(pattern is p, "gen receives the pattern")
            seen["new"] = new
            ok(new is not before["outer"], "staging list is separate")
            ok(all(a is not b for a, b in zip(new, before["rows"])), "staging rows separate")
            ok(all(new[l][t] is not before["notes"][l][t] for l, t in cells), "staging notes copied")
            ok(b"".join(n.raw_data for r in new for n in r) == before["raw"], "staging content equal")
            for l, t in chosen:
                made[l, t] = fresh_note(l, t)
                yield l, t, made[l, t]
                ok(new[l][t] is made[l, t], "intermediate state visible")
                ok(made[l, t].pattern is None, "not adopted until the end")
                ok(unchanged(p, before), "old data visible while gen runs")

        ok(p.set_via_gen(gen) is p, "set_via_gen returns self")
        d = p.data
        ok(d is seen["new"], "staging list is installed")
        ok(d is not before["outer"], "new outer list")
        ok(len(d) == lines and all(len(r) == tracks for r in d), "shape kept")
        for l, t in cells:
            if (l, t) in made:
                ok(d[l][t] is made[l, t], "supplied note installed")
            else:
                ok(d[l][t] is not before["notes"][l][t], "untouched cell is a copy")
                ok(d[l][t].raw_data == before["notes"][l][t].raw_data, "untouched content kept")
        ok(all_owned(p), "ownership after set_via_gen")
        ok(p.project is project, "pattern.project kept")
        ok(all(n.project is project for r in d for n in r), "note.project is the real project")
        ok([[id(n) for n in r] for r in before["outer"]] == before["ids"], "old list intact")
        ok(all(n.pattern is p for r in before["outer"] for n in r), "old notes still point here")
        if attached:
            ok(len(project.modules) == 3 and project.patterns == [p], "project untouched")
            for r in d:
                for n in r:
                    ok(n.mod is project.modules[n.module - 1], "note.mod works")
        else:
            ok(raises(PatternOwnershipError, lambda: d[0][0].mod), "mod needs a project")

        # failure injected at every yield index (including "after the last")
        for k in range(len(cells) + 1):
            snap = snapshot(p)
            handed = []

            def bad(pattern, new):
                for i, (l, t) in enumerate(cells):
                    if i == k:
                        raise Boom(i)
                    n = fresh_note(l, t)
                    handed.append(n)
                    yield l, t, n
                raise Boom("end")

            ok(raises(Boom, lambda: p.set_via_gen(bad)), "gen error propagates")
            ok(unchanged(p, snap), "contents kept after failure at yield %d" % k)
            ok(len(handed) == k, "generator not advanced after failure")
            ok(all(n.pattern is None for n in handed), "abandoned notes not adopted")

        # plain iterables and hand-written iterators are accepted
        snap = snapshot(p)
        triples = [(l, t, fresh_note(l, t)) for l, t in cells]
        p.set_via_gen(lambda pattern, new: triples)
        ok(all(p.data[l][t] is n for l, t, n in triples) and all_owned(p), "list result")
        it = CountingIter([(l, t, Note(vel=3)) for l, t in cells])
        p.set_via_gen(lambda pattern, new: it)
        ok(it.iter_calls == 1 and it.i == len(cells), "iterator protocol used once")
        ok(all(n.vel == 3 for r in p.data for n in r) and all_owned(p), "iterator result")
        for k in range(len(cells) + 1):
            snap = snapshot(p)
            it = CountingIter([(l, t, Note(vel=4)) for l, t in cells], fail_at=k)
            ok(raises(Boom, lambda: p.set_via_gen(lambda pattern, new: it)), "iterator error")
            ok(unchanged(p, snap) and it.i == k, "kept after iterator failure %d" % k)

        # malformed items
        for item, exc in (((0, 0), ValueError), ((0, 0, Note(), 1), ValueError),
                          (5, TypeError), ((lines, 0, Note()), IndexError),
                          ((0, tracks, Note()), IndexError), (("a", 0, Note()), TypeError)):
            snap = snapshot(p)
            first = Note(vel=11)
            ok(raises(exc, lambda: p.set_via_gen(lambda pattern, new: [(0, 0, first), item])),
               "malformed item %r" % (item,))
            ok(unchanged(p, snap) and first.pattern is None, "kept after malformed item")
        snap = snapshot(p)
        ok(raises(TypeError, lambda: p.set_via_gen(lambda pattern, new: None)), "non-iterable")
        ok(unchanged(p, snap), "kept after non-iterable")
        snap = snapshot(p)
        ok(raises(Boom, lambda: p.set_via_gen(lambda pattern, new: (_ for _ in ()).throw(Boom()))),
           "callable itself fails")
        ok(unchanged(p, snap), "kept after failing callable")

        # non-Note payload: discovered while adopting (row-major), nothing installed
        snap = snapshot(p)
        fl, ft = cells[-1]
        ok(raises(AttributeError, lambda: p.set_via_gen(lambda pattern, new: [(fl, ft, None)])),
           "None payload")
        ok(unchanged(p, snap), "kept after None payload")

        # negative indices address from the end; later yields win
        a, b = Note(vel=21), Note(vel=22)
        p.set_via_gen(lambda pattern, new: [(-1, -1, a), (lines - 1, tracks - 1, b)])
        ok(p.data[-1][-1] is b and a.pattern is None and b.pattern is p, "last write wins")

        # empty generator: everything is a copy
        snap = snapshot(p)
        p.set_via_gen(lambda pattern, new: iter(()))
        ok(p.data is not snap["outer"] and p.raw_data == snap["raw"], "empty gen keeps content")
        ok(all(p.data[l][t] is not snap["notes"][l][t] for l, t in cells), "empty gen copies")
        ok(all_owned(p), "ownership after empty gen")

        # successive mixed edits
        for k in range(3):
            p.set_via_gen(lambda pattern, new: ((l, t, Note(vel=k + 1)) for l, t in cells[k::3]))
            p.set_via_fn(lambda pattern, l, t: pattern.data[l][t].clone())
            ok(all_owned(p), "ownership in mixed history %d" % k)
            ok(all(n.project is project for r in p.data for n in r), "project in mixed history")

        # direct edits of the staging array are kept too
        direct = Note(vel=33)

        def direct_gen(pattern, new):
            new[0][0] = direct
            return
            yield

        p.set_via_gen(direct_gen)
        ok(p.data[0][0] is direct and direct.pattern is p, "direct staging edit adopted")

    p = Pattern(lines=2, tracks=2)
    p.set_via_gen(lambda pattern, new: [(1, 1, Note(vel=5))])
    ok([n.vel for r in p.data for n in r] == [0, 0, 0, 5] and all_owned(p), "lazy data + gen")


# ------------------------------------------------------------- Note accessors
def check_note_accessors():
    project, p = make_pattern(2, 2, True)
    n = p.data[0][0]
    ok(n.project is project, "project via pattern")
    ok(n.module_index is None and n.mod is None, "module 0 -> None")
    n.module = 1
    ok(n.module_index == 0 and n.mod is project.output, "module 1 -> output")
    n.module = 3
    ok(n.mod is project.modules[2], "module 3")
    n.module = 4
    ok(n.mod is None, "out of range -> None")
    n.module = 0xFFFF
    ok(n.mod is None, "far out of range -> None")
    n.module = -1
    ok(n.module_index == -2 and n.mod is project.modules[-2], "negative index wraps")
    project.modules.append(None)
    n.module = 4
    ok(n.mod is None, "empty slot -> None")
    n.mod = project.modules[1]
    ok(n.module == 2, "mod setter")
    ok(raises(ModuleOwnershipError, lambda: setattr(n, "mod", m.Generator())), "unattached module")
    ok(n.module == 2, "module kept after failed mod setter")
    loose = Note(module=1)
    ok(loose.pattern is None, "loose note")
    ok(raises(AttributeError, lambda: loose.project), "loose note has no project")
    ok(raises(AttributeError, lambda: loose.mod), "loose note has no mod")
    loose.mod = project.modules[2]
    ok(loose.module == 3, "mod setter on loose note")
    _, q = make_pattern(1, 1, False)
    ok(q.data[0][0].project is None, "unattached pattern -> project None")
    for module in (0, 1, 9):
        q.data[0][0].module = module
        ok(raises(PatternOwnershipError, lambda: q.data[0][0].mod), "unattached -> error first")
    try:
        q.data[0][0].mod
    except PatternOwnershipError as e:
        ok(str(e) == "Pattern not owned by a project", "error message")
    ok(isinstance(type(n).project, property) and isinstance(type(n).mod, property), "properties")
    ok(type(n).project.fset is None, "project is read-only")
    ok(not hasattr(n, "__dict__"), "Note keeps slots")


def check_file_round_trip():
    from io import BytesIO

    from rv.api import read_sunvox_file

    project, p = make_pattern(3, 2, True)
    p.set_via_fn(lambda pattern, l, t: fresh_note(l, t))
    p.set_via_gen(lambda pattern, new: [(1, 1, Note(note=NOTECMD.NOTE_OFF))])
    buf = BytesIO()
    project.write_to(buf)
    buf.seek(0)
    loaded = read_sunvox_file(buf)
    ok(loaded.patterns[0].raw_data == p.raw_data, "file round trip")
    ok(all(n.pattern is loaded.patterns[0] for r in loaded.patterns[0].data for n in r),
       "loaded notes owned")
    ok(loaded.patterns[0].tabular_repr() == p.tabular_repr(), "tabular repr")


check_data_and_clear()
check_raw_data()
check_set_via_fn()
check_set_via_gen()
check_note_accessors()
check_file_round_trip()
print("PASS (%d checks)" % CHECKS)
