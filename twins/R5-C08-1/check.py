"""Behaviour check for Project.chunks() (the .sunvox writer), with the focus
on the per-module link chunks: SLNK is always written, SLnK only when some
slot is neither 0 nor -1.

Run from the repository root:
    PYTHONPATH=<root>/src/python python check.py
"""
import random
import struct
import sys
from io import BytesIO
from struct import pack

from rv.api import Project, Pattern, m, read_sunvox_file
from rv.lib.iff import write_chunk
from rv.pattern import PatternClone

FAILURES = []


def check(cond, msg):
    if not cond:
        FAILURES.append(msg)


def strip(values):
    values = list(values)
    while values[-1:] == [-1]:
        values.pop()
    return values


# --------------------------------------------------------------------------
# reference model of the writer's link chunks
# --------------------------------------------------------------------------
def ref_link_chunks(in_links, in_link_slots):
    if len(in_links) == 0:
        return [(b"SLNK", b"")]
    fmt = "<" + "i" * len(in_links)
    out = [(b"SLNK", pack(fmt, *in_links))]
    packed_slots = pack(fmt, *in_link_slots)
    if any(s not in (-1, 0) for s in in_link_slots):
        out.append((b"SLnK", packed_slots))
    return out


def module_chunk_groups(project):
    """Split the module part of project.chunks() into one list per module."""
    all_chunks = [c for c in project.chunks()]
    first = next(
        (i for i, (name, _) in enumerate(all_chunks) if name in (b"SFFF", b"SEND")),
        len(all_chunks),
    )
    # SEND can only come from the module section; patterns end with PEND.
    groups, current = [], []
    for name, data in all_chunks[first:]:
        current.append((name, data))
        if name == b"SEND":
            groups.append(current)
            current = []
    check(current == [], "chunks after last SEND")
    return all_chunks[:first], groups


def link_chunks_of(group):
    return [(n, d) for n, d in group if n in (b"SLNK", b"SLnK")]


def new_project(n, kinds=None):
    project = Project()
    kinds = kinds or [m.Amplifier, m.MultiCtl, m.Reverb, m.Generator, m.Delay]
    mods = [project.output]
    for i in range(n):
        mods.append(project.new_module(kinds[i % len(kinds)]))
    return project, mods


# --------------------------------------------------------------------------
# 1. header / overall chunk order
# --------------------------------------------------------------------------
def test_header_order():
    project = Project()
    names = [name for name, _ in project.chunks()]
    expected_header = [
        b"SVOX", b"VERS", b"BVER", b"FLGS", b"SFGS", b"BPM ", b"SPED", b"TGRD",
        b"TGD2", b"GVOL", b"NAME", b"MSCL", b"MZOO", b"MXOF", b"MYOF", b"LMSK",
        b"CURL", b"SELS", b"LGEN", b"PATN", b"PATT", b"PATL",
    ]
    check(names[: len(expected_header)] == expected_header, "header order (default)")
    check(names[len(expected_header)] == b"SFFF", "first module follows header")
    check(names[-1] == b"SEND", "file ends with SEND")

    project.timeline_position = 7
    names = [name for name, _ in project.chunks()]
    check(names[17:19] == [b"TIME", b"SELS"], "TIME only")
    project.restart_position = -3
    chunks = list(project.chunks())
    names = [name for name, _ in chunks]
    check(names[17:20] == [b"TIME", b"REPS", b"SELS"], "TIME+REPS")
    check(chunks[17][1] == pack("<i", 7) and chunks[18][1] == pack("<i", -3), "TIME/REPS data")
    project.timeline_position = 0
    names = [name for name, _ in project.chunks()]
    check(names[17:19] == [b"REPS", b"SELS"], "REPS only")

    project = Project()
    project.sunvox_version = (1, 9, 6, 1)
    project.based_on_version = (1, 9, 5, 0)
    project.flags = 3
    project.receive_sync_midi = 5
    project.receive_sync_other = 6
    project.name = "héllo"
    project.modules_x_offset = -12
    project.modules_y_offset = 99
    data = dict(project.chunks())
    check(data[b"VERS"] == bytes([1, 6, 9, 1]), "VERS")
    check(data[b"BVER"] == bytes([0, 5, 9, 1]), "BVER")
    check(data[b"FLGS"] == pack("<I", 3), "FLGS")
    check(data[b"SFGS"] == pack("<I", 5 | (6 << 3)), "SFGS")
    check(data[b"NAME"] == "héllo".encode("cp1251", "replace") + b"\0"
          or data[b"NAME"].endswith(b"\0"), "NAME")
    check(data[b"MXOF"] == pack("<i", -12) and data[b"MYOF"] == pack("<i", 99), "MXOF/MYOF")


def test_patterns_and_empty_modules():
    project, mods = new_project(3)
    project.attach_pattern(Pattern(tracks=2, lines=4))
    project.attach_pattern(None)
    project.attach_pattern(PatternClone(source=0, x=8))
    project.modules[2] = None  # hole in the module list
    header, groups = module_chunk_groups(project)
    names = [n for n, _ in header]
    pat_names = [n for n in names[names.index(b"PATL") + 1:]]
    check(pat_names.count(b"PEND") == 3, "three PEND chunks %r" % pat_names)
    check(pat_names[-1] == b"PEND", "patterns end with PEND")
    # the empty pattern contributes nothing but PEND
    idx = [i for i, n in enumerate(pat_names) if n == b"PEND"]
    check(idx[1] == idx[0] + 1, "empty pattern is a bare PEND")
    check(len(groups) == 4, "4 module groups")
    check(groups[2] == [(b"SEND", b"")], "empty module is a bare SEND")
    for g in (groups[0], groups[1], groups[3]):
        check(g[0][0] == b"SFFF" and g[-1] == (b"SEND", b""), "module framing")
        check(link_chunks_of(g) == [(b"SLNK", b"")], "no links -> empty SLNK")


# --------------------------------------------------------------------------
# 2. link chunks for hand-set tables
# --------------------------------------------------------------------------
def test_link_chunks_explicit():
    cases = [
        ([], []),
        ([1], [0]),
        ([1], [-1]),
        ([-1], [-1]),
        ([1, 2], [0, 0]),
        ([1, 2], [0, 1]),
        ([1, -1, 2], [0, -1, 0]),
        ([1, -1, 2], [0, -1, 3]),
        ([-1, -1, 3], [-1, -1, 0]),
        ([3, 2, 1], [2, 1, 0]),
        ([1, 1], [0, -2]),
        ([2], [1]),
        ([1, 2, 3, -1, -1], [0, 0, 0, -1, -1]),
    ]
    for links, slots in cases:
        project, mods = new_project(3)
        target = mods[1]
        target.in_links[:] = links
        target.in_link_slots[:] = slots
        _, groups = module_chunk_groups(project)
        got = link_chunks_of(groups[1])
        check(got == ref_link_chunks(links, slots), "link chunks for %r/%r: %r" % (links, slots, got))
        has_slnk2 = any(n == b"SLnK" for n, _ in got)
        check(has_slnk2 == any(s not in (0, -1) for s in slots), "SLnK presence %r" % (slots,))
        # position: SLNK directly after the standard module chunks, before CVAL
        names = [n for n, _ in groups[1]]
        check(names.index(b"SLNK") < names.index(b"CVAL"), "SLNK before CVAL")
        check(names[names.index(b"SLNK") - 1] == b"SMIP", "SLNK follows SMIP")
        if has_slnk2:
            check(names[names.index(b"SLNK") + 1] == b"SLnK", "SLnK follows SLNK")
        # other modules unaffected
        check(link_chunks_of(groups[0]) == [(b"SLNK", b"")], "output untouched")
        check(link_chunks_of(groups[2]) == [(b"SLNK", b"")], "neighbour untouched")


def test_link_chunks_mismatched_lengths():
    # in_link_slots shorter/longer than in_links: packing fails, and it fails
    # before the module's SLNK chunk is produced.
    for links, slots in [([1, 2], [0]), ([1], [0, 1]), ([1, 2], [])]:
        project, mods = new_project(2)
        mods[2].in_links[:] = links
        mods[2].in_link_slots[:] = slots
        seen = []
        try:
            for chunk in project.chunks():
                seen.append(chunk)
        except struct.error:
            pass
        else:
            check(False, "expected struct.error for %r/%r" % (links, slots))
        slnk_count = sum(1 for n, _ in seen if n == b"SLNK")
        check(slnk_count == 2, "error raised before 3rd SLNK (%d seen)" % slnk_count)
        check(seen[-1][0] == b"SMIP", "last chunk before error is SMIP, got %r" % (seen[-1][0],))


def test_link_chunks_random():
    rng = random.Random(808)
    for _ in range(150):
        n = rng.randint(1, 6)
        project, mods = new_project(n)
        tables = []
        for mod in mods:
            k = rng.choice([0, 0, 1, 2, 3, 5])
            links = [rng.choice([-1] + list(range(n + 1))) for _ in range(k)]
            slots = [rng.choice([-1, 0, 0, 0, 1, 2, 3]) for _ in range(k)]
            mod.in_links[:] = links
            mod.in_link_slots[:] = slots
            tables.append((links, slots))
        _, groups = module_chunk_groups(project)
        check(len(groups) == len(mods), "group count")
        for (links, slots), group in zip(tables, groups):
            check(link_chunks_of(group) == ref_link_chunks(links, slots), "random link chunks")


# --------------------------------------------------------------------------
# 3. controller / CHNK chunks following the link chunks
# --------------------------------------------------------------------------
def test_controller_chunks():
    project, mods = new_project(0)
    amp = project.new_module(m.Amplifier, volume=300, balance=-5)
    mc = project.new_module(m.MultiCtl)
    mc >> amp
    _, groups = module_chunk_groups(project)
    for mod, group in zip(project.modules, groups):
        names = [n for n, _ in group]
        ctl_names = [n for n, c in mod.controllers.items() if c.attached(mod)]
        cvals = [struct.unpack("<i", d)[0] for n, d in group if n == b"CVAL"]
        check(cvals == [mod.get_raw(n) for n in ctl_names], "CVAL values for %s" % mod.mtype)
        if ctl_names:
            check(names.count(b"CMID") == 1, "one CMID")
            cmid = dict((n, d) for n, d in group if n == b"CMID")[b"CMID"]
            check(cmid == b"".join(mod.controller_midi_maps[n].cmid_data for n in ctl_names), "CMID data")
            last_cval = max(i for i, n in enumerate(names) if n == b"CVAL")
            check(names[last_cval + 1] == b"CMID", "CMID after last CVAL")
        else:
            check(b"CMID" not in names and b"CVAL" not in names, "no controllers -> no CVAL/CMID")
        if mod.chnk:
            i = names.index(b"CHNK")
            check(group[i][1] == pack("<I", mod.chnk), "CHNK value")
            check(list(group[i + 1:-1]) == list(mod.specialized_iff_chunks()), "specialised chunks follow CHNK")
        else:
            check(b"CHNK" not in names, "no CHNK")
        check(names[-1] == b"SEND", "SEND last")


# --------------------------------------------------------------------------
# 4. graphs built through the API survive save/load
# --------------------------------------------------------------------------
def tables(project):
    return [
        None if mod is None else (
            strip(mod.in_links), strip(mod.in_link_slots),
            strip(mod.out_links), strip(mod.out_link_slots),
        )
        for mod in project.modules
    ]


def consistent(project):
    for mod in project.modules:
        if mod is None:
            continue
        for i, src in enumerate(mod.in_links):
            if src == -1:
                if mod.in_link_slots[i] != -1:
                    return False
                continue
            other = project.modules[src]
            j = mod.in_link_slots[i]
            if other.out_links[j] != mod.index or other.out_link_slots[j] != i:
                return False
        for j, dst in enumerate(mod.out_links):
            if dst == -1:
                if mod.out_link_slots[j] != -1:
                    return False
                continue
            other = project.modules[dst]
            i = mod.out_link_slots[j]
            if other.in_links[i] != mod.index or other.in_link_slots[i] != j:
                return False
    return True


def roundtrip(project):
    return read_sunvox_file(BytesIO(project.read()))


def test_api_graphs():
    # fan-out from a MultiCtl, with a freed slot in the middle
    project, mods = new_project(0)
    mc = project.new_module(m.MultiCtl)
    amps = [project.new_module(m.Amplifier) for _ in range(4)]
    mc >> amps
    for a in amps:
        a >> project.output
    project.connect(mc, ~amps[1])
    check(mc.out_links == [2, -1, 4, 5], "MultiCtl out_links before save %r" % mc.out_links)
    loaded = roundtrip(project)
    check(tables(loaded) == tables(project), "fan-out with hole")
    check(loaded.modules[1].out_links == [2, -1, 4, 5], "hole kept in the middle")
    check(consistent(loaded), "fan-out consistent")
    # all slots of the output are 0 -> no SLnK for the output, yet some for amps? no
    _, groups = module_chunk_groups(project)
    check([n for n, _ in link_chunks_of(groups[0])] == [b"SLNK"], "output: SLNK only")
    check([n for n, _ in link_chunks_of(groups[4])] == [b"SLNK", b"SLnK"], "amp 3 needs SLnK (slot 2)")
    check([n for n, _ in link_chunks_of(groups[2])] == [b"SLNK"], "amp 0: slot 0 -> no SLnK")

    # cycle + self loop + fan-in
    project, mods = new_project(4)
    a, b, c, d = mods[1:]
    a >> b >> c >> a
    d >> d
    project.connect([a, b, c, d], project.output)
    loaded = roundtrip(project)
    check(tables(loaded) == tables(project), "cycle/self-loop/fan-in")
    check(consistent(loaded), "cycle consistent")

    # trailing freed slots vanish, inner ones stay
    project, mods = new_project(4)
    a, b, c, d = mods[1:]
    project.connect([a, b, c], d)
    project.connect(~c, d)
    project.connect(~a, d)
    check(d.in_links == [-1, 2, -1], "in_links before save")
    loaded = roundtrip(project)
    check(loaded.modules[4].in_links == [-1, 2], "trailing -1 stripped on load")
    check(tables(loaded) == tables(project), "freed slots")
    check(consistent(loaded), "freed consistent")


def test_api_random():
    rng = random.Random(2024)
    for _ in range(120):
        n = rng.randint(2, 7)
        project, mods = new_project(n)
        for _ in range(rng.randint(0, 25)):
            src = rng.choice(mods[1:])
            dst = rng.choice(mods)
            if rng.random() < 0.3:
                project.connect(~src, dst)
            else:
                project.connect(src, dst)
        loaded = roundtrip(project)
        check(tables(loaded) == tables(project), "random history roundtrip")
        check(consistent(loaded), "random history consistent")
        # a second generation is byte-identical
        check(loaded.read() == roundtrip(loaded).read(), "stable second generation")


def main():
    test_header_order()
    test_patterns_and_empty_modules()
    test_link_chunks_explicit()
    test_link_chunks_mismatched_lengths()
    test_link_chunks_random()
    test_controller_chunks()
    test_api_graphs()
    test_api_random()
    if FAILURES:
        for f in FAILURES[:30]:
            print("FAIL:", f)
        print("%d failure(s)" % len(FAILURES))
        sys.exit(1)
    print("PASS")


if __name__ == "__main__":
    main()
