"""Behaviour check for the Sampler envelope codec, legacy-envelope upgrade,
sample "type" byte and the private struct reader/writer helpers.

Run from the repository root:
    PYTHONPATH=<root>/src/python python check.py
"""
import hashlib
import itertools
import logging
import os
import struct
import sys
from io import BytesIO
from struct import pack, unpack

from rv.api import read_sunvox_file
from rv.modules.module import Chunk
from rv.modules import sampler as sampler_mod
from rv.modules.sampler import Sampler

logging.disable(logging.CRITICAL)

FIXTURE = os.path.join(os.getcwd(), "tests", "files", "sampler.sunsynth")
failures = []


def expect(cond, label):
    if not cond:
        failures.append(label)


def raises(exc, fn, label):
    try:
        fn()
    except exc:
        return True
    except Exception as e:  # noqa
        failures.append("%s: raised %r instead of %s" % (label, e, exc.__name__))
        return False
    failures.append("%s: did not raise %s" % (label, exc.__name__))
    return False


def mk(chnm, chdt=b"", chff=0, chfr=44100):
    c = Chunk()
    c.chnm, c.chdt, c.chff, c.chfr = chnm, chdt, chff, chfr
    return c


def save(obj):
    f = BytesIO()
    obj.write_to(f)
    return f.getvalue()


ENV_CLASSES = [
    lambda: Sampler.VolumeEnvelope(),
    lambda: Sampler.PanningEnvelope(),
    lambda: Sampler.PitchEnvelope(),
    lambda: Sampler.EffectControlEnvelope(0x107),
]

# ------------------------------------------------------------------ bitmask
for enable, sustain, loop in itertools.product([False, True], repeat=3):
    env = Sampler.VolumeEnvelope()
    env.enable, env.sustain, env.loop = enable, sustain, loop
    want = int(enable) + 2 * int(sustain) + 4 * int(loop)
    expect(env.bitmask == want, "bitmask get %r" % ((enable, sustain, loop),))
    expect(type(env.bitmask + 0) is int, "bitmask is int-like")
    env2 = Sampler.PanningEnvelope()
    env2.bitmask = want | 0xF8  # high bits are ignored
    expect(
        (env2.enable, env2.sustain, env2.loop) == (enable, sustain, loop)
        and all(type(v) is bool for v in (env2.enable, env2.sustain, env2.loop)),
        "bitmask set %d" % want,
    )
env = Sampler.VolumeEnvelope()
env.enable, env.sustain, env.loop = 1, 1, 0
expect(env.bitmask == 3, "bitmask with int flags")
before = (env.enable, env.sustain, env.loop)
raises(TypeError, lambda: setattr(env, "bitmask", None), "bitmask None")
expect((env.enable, env.sustain, env.loop) == before, "failed bitmask set changes nothing")

# ------------------------------------------------------------------ point_bytes
def expected_point_bytes(env):
    xs = [x for x, y in env.points][:12]
    ys = [y // 0x200 for x, y in env.points][:12]
    xs += [0] * (12 - len(xs))
    ys += [0] * (12 - len(ys))
    off = env.range[0] // 0x200
    out = b""
    for x, y in zip(xs, ys):
        out += pack("<H", x) + pack("<H", y - off)
    return out


POINT_SETS = {
    (0, 0x8000): [
        [],
        [(0, 0)],
        [(0, 0x8000), (8, 0), (0x80, 0), (0x100, 0)],
        [(i * 3, (i * 0x7FF) % 0x8001) for i in range(12)],
        [(i * 5, 0x8000 - i * 0x123) for i in range(17)],
        [(0xFFFF, 0x1FF), (1, 0x200), (2, 0x3FF)],
    ],
    (-0x4000, 0x4000): [
        [],
        [(0, -0x4000)],
        [(0, 0), (0x40, -0x2000), (0x80, 0x2000), (0xB4, 0)],
        [(i, -0x4000 + i * 0x555) for i in range(12)],
        [(i * 2, 0x4000 - i * 0x3A1) for i in range(20)],
        [(3, -1), (4, -0x1FF), (5, -0x200), (6, -0x201), (7, 0x3FFF)],
    ],
}
for make in ENV_CLASSES:
    for pts in POINT_SETS[make().range]:
        env = make()
        env.points = list(pts)
        pb = env.point_bytes
        expect(len(pb) == 48, "point_bytes length")
        expect(pb == expected_point_bytes(env), "point_bytes %s %r" % (type(env).__name__, pts))
        expect(env.points == list(pts), "point_bytes leaves points alone")
        expect(len(env._x_values) == 12 and len(env._y_values) == 12, "legacy columns have 12 slots")
        expect(env._x_values[: len(pts)] == [x for x, _ in pts][:12], "x column")
env = Sampler.VolumeEnvelope()
env.points = [(0, -0x200)]  # below the range -> does not fit an unsigned short
raises(struct.error, lambda: env.point_bytes, "point_bytes out of range")
env.points = [(0x10000, 0)]
raises(struct.error, lambda: env.point_bytes, "point_bytes x out of range")

# ------------------------------------------------------------------ chunks / load_chdt
def expected_chdt(env):
    out = pack("<H", env.bitmask) + bytes([env.ctl_index, env.gain_pct, env.velocity])
    out += b"\0\0\0"
    out += pack("<H", len(env.points)) + pack("<H", env.sustain_point)
    out += pack("<H", env.loop_start_point) + pack("<H", env.loop_end_point)
    out += b"\0\0\0\0"
    for x, y in env.points:
        out += pack("<H", x) + pack("<H", y - env.range[0])
    return out


variant = 0
for make in ENV_CLASSES:
    for pts in POINT_SETS[make().range]:
        variant += 1
        env = make()
        env.points = list(pts)
        env.bitmask = variant % 8
        env.ctl_index = variant % 256
        env.gain_pct = (variant * 37) % 256
        env.velocity = variant % 2
        env.sustain_point = variant
        env.loop_start_point = variant * 2
        env.loop_end_point = 0xFFFF - variant
        ok_range = all(0 <= y - env.range[0] <= 0xFFFF for _, y in pts)
        if not ok_range:
            continue
        gen = env.chunks()
        first = next(gen)
        expect(first == (b"CHNM", pack("<I", env.chnm)), "envelope chnm")
        name, chdt = next(gen)
        expect(name == b"CHDT" and chdt == expected_chdt(env), "envelope chdt %d" % variant)
        expect(list(gen) == [], "envelope yields two chunks")
        expect(len(chdt) == 0x14 + 4 * len(pts), "envelope chdt length")
        other = make()
        other.load_chdt(chdt + b"trailing bytes are ignored")
        expect(other.loaded is True, "loaded flag")
        expect(
            (other.points, other.bitmask, other.ctl_index, other.gain_pct, other.velocity,
             other.sustain_point, other.loop_start_point, other.loop_end_point)
            == (list(pts), env.bitmask, env.ctl_index, env.gain_pct, env.velocity,
                env.sustain_point, env.loop_start_point, env.loop_end_point),
            "load_chdt round trip %d" % variant,
        )
        expect(all(type(p) is tuple for p in other.points), "points are tuples")

# header too short -> struct.error, nothing changed
env = Sampler.VolumeEnvelope()
snapshot = dict(vars(env))
for n in (0, 1, 15):
    raises(struct.error, lambda: env.load_chdt(b"\x07" * n), "short header %d" % n)
expect(vars(env) == snapshot, "short header leaves envelope untouched")
# exactly the header, no points (padding missing) is fine when count == 0
env.load_chdt(pack("<HBBBBBBHHHH", 5, 1, 2, 3, 9, 9, 9, 0, 4, 5, 6))
expect(
    (env.points, env.enable, env.sustain, env.loop, env.ctl_index, env.gain_pct,
     env.velocity, env.sustain_point, env.loop_start_point, env.loop_end_point, env.loaded)
    == ([], True, False, True, 1, 2, 3, 4, 5, 6, True),
    "header-only chdt",
)
# point data cut short -> struct.error, header fields and complete points were taken
env = Sampler.PanningEnvelope()
good = pack("<HBBBBBBHHHH", 2, 0, 100, 0, 0, 0, 0, 3, 1, 0, 2) + b"\0\0\0\0"
good += pack("<HH", 1, 0x10) + pack("<HH", 2, 0x20) + pack("<HH", 3, 0x30)
for cut in (1, 2, 3, 4):
    env = Sampler.PanningEnvelope()
    raises(struct.error, lambda: env.load_chdt(good[:-cut]), "cut points %d" % cut)
    expect(env.points == [(1, 0x10 - 0x4000), (2, 0x20 - 0x4000)], "partial points kept (%d)" % cut)
    expect(env.loaded is False and env.sustain_point == 1 and env.loop_end_point == 2, "partial header kept")
# range errors while writing
env = Sampler.VolumeEnvelope()
env.gain_pct = 256
gen = env.chunks()
next(gen)
raises(struct.error, lambda: next(gen), "gain_pct out of range")
env = Sampler.VolumeEnvelope()
env.points = [(0, 0), (1, -1)]
gen = env.chunks()
next(gen)
raises(struct.error, lambda: next(gen), "point below range")

# ------------------------------------------------------------------ legacy upgrade
synth = read_sunvox_file(FIXTURE)
raw = {}
for name, data in synth.module.specialized_iff_chunks():
    if name == b"CHNM":
        cur = unpack("<I", data)[0]
    elif name == b"CHDT":
        raw[cur] = data
ins = raw[0]
POINTS_AT = 0x24 + 96
expect(ins[POINTS_AT : POINTS_AT + 48] == synth.module.volume_envelope.point_bytes, "record holds vol points")
expect(ins[POINTS_AT + 48 : POINTS_AT + 96] == synth.module.panning_envelope.point_bytes, "record holds pan points")


def legacy_record(vol_pts, pan_pts, vol_n, pan_n, marks):
    vb = b"".join(pack("<HH", x, y) for x, y in vol_pts).ljust(48, b"\0")[:48]
    pb = b"".join(pack("<HH", x, y) for x, y in pan_pts).ljust(48, b"\0")[:48]
    tail = bytes([vol_n, pan_n]) + bytes(marks)
    return ins[:POINTS_AT] + vb + pb + tail + ins[POINTS_AT + 96 + 10 :]


def upgraded(record, index=None):
    smp = Sampler()
    smp.index = index
    smp.load_chunk(mk(0, record))
    smp.finalize_load()
    return smp


vol_pts = [(0, 64), (10, 32), (20, 0), (300, 17)]
pan_pts = [(0, 32), (5, 0), (9, 64)]
marks = [2, 1, 3, 1, 0, 2, 0b101, 0b010]
smp = upgraded(legacy_record(vol_pts, pan_pts, 4, 3, marks), index=3)
vol, pan = smp.volume_envelope, smp.panning_envelope
expect(vol.points == [(x, y * 0x200) for x, y in vol_pts], "upgraded vol points %r" % (vol.points,))
expect(pan.points == [(x, y * 0x200 - 0x4000) for x, y in pan_pts], "upgraded pan points %r" % (pan.points,))
expect((vol.sustain_point, vol.loop_start_point, vol.loop_end_point) == (2, 1, 3), "vol markers")
expect((pan.sustain_point, pan.loop_start_point, pan.loop_end_point) == (1, 0, 2), "pan markers")
expect((vol.enable, vol.sustain, vol.loop) == (True, False, True), "vol flags")
expect((pan.enable, pan.sustain, pan.loop) == (False, True, False), "pan flags")
expect(vol.loaded is False and pan.loaded is False, "upgrade does not mark loaded")
# upgraded envelopes are what gets written next
expect(vol.point_bytes == legacy_record(vol_pts, pan_pts, 4, 3, marks)[POINTS_AT : POINTS_AT + 48], "upgrade then point_bytes")
# fewer active points than stored, zero active points, all twelve
smp = upgraded(legacy_record(vol_pts, pan_pts, 2, 0, marks))
expect(smp.volume_envelope.points == [(0, 64 * 0x200), (10, 32 * 0x200)], "active count limits vol")
expect(smp.panning_envelope.points == [], "zero active pan points")
twelve = [(i, i * 5) for i in range(12)]
smp = upgraded(legacy_record(twelve, twelve, 12, 12, marks))
expect(smp.volume_envelope.points == [(i, i * 5 * 0x200) for i in range(12)], "twelve vol points")
expect(smp.panning_envelope.points == [(i, i * 5 * 0x200 - 0x4000) for i in range(12)], "twelve pan points")
# more active points than slots -> struct.error, markers adopted, points untouched
smp = Sampler()
smp.load_chunk(mk(0, legacy_record(vol_pts, twelve, 4, 13, marks)))
raises(struct.error, smp.finalize_load, "too many active points")
expect(smp.volume_envelope.points == Sampler.VolumeEnvelope.initial_points, "vol points untouched on error")
expect(smp.panning_envelope.points == Sampler.PanningEnvelope.initial_points, "pan points untouched on error")
expect(smp.volume_envelope.sustain_point == 2 and smp.panning_envelope.loop_end_point == 2, "markers adopted before error")
# no instrument record at all -> TypeError from the missing bitmask
smp = Sampler()
raises(TypeError, smp.finalize_load, "upgrade without record")
# envelope chunk present -> no upgrade
smp = Sampler()
smp.load_chunk(mk(0, legacy_record(vol_pts, pan_pts, 4, 3, marks)))
smp.load_chunk(mk(0x102, raw[0x102]))
smp.finalize_load()
expect(smp.volume_envelope.points == synth.module.volume_envelope.points, "no upgrade when loaded")
expect(smp.panning_envelope.points == Sampler.PanningEnvelope.initial_points, "pan untouched when vol loaded")

# ------------------------------------------------------------------ sample type byte
LoopType, Format, Channels = Sampler.LoopType, Sampler.Format, Sampler.Channels
FMT_BITS = {Format.int8: 0x00, Format.int16: 0x10, Format.float32: 0x20}
for lt, fmt, ch, sus in itertools.product(LoopType, Format, Channels, [False, True]):
    smp = Sampler()
    sample = Sampler.Sample()
    sample.loop_type, sample.format, sample.channels, sample.loop_sustain = lt, fmt, ch, sus
    sample.data = bytes(range(48))
    sample.panning = -3
    sample.name = b"n" * 30
    sample.finetune = -100
    sample.relative_note = -12
    sample.start_pos = 77
    sample.rate = 8000
    smp.samples[9] = sample
    chunks = list(smp.sample_chunks(9, sample))
    expect([c[0] for c in chunks] == [b"CHNM", b"CHDT", b"CHNM", b"CHDT", b"CHFF", b"CHFR"], "sample chunk names")
    expect(chunks[0][1] == pack("<I", 19) and chunks[2][1] == pack("<I", 20), "sample chnm")
    meta = chunks[1][1]
    want_type = lt.value | FMT_BITS[fmt] | (0x40 if ch is Channels.stereo else 0) | (4 if sus else 0)
    frame = {Format.int8: 1, Format.int16: 2, Format.float32: 4}[fmt] * (2 if ch is Channels.stereo else 1)
    expect(sample.frame_size == frame and sample.frames == 48 // frame, "frame size")
    want_meta = pack("<IIIBbBBbB", 48 // frame, 0, 0, 64, -100, want_type, 0x80 - 3, -12, 0)
    want_meta += b"n" * 22 + pack("<I", 77)
    expect(meta == want_meta, "sample meta bytes %r" % ((lt, fmt, ch, sus),))
    expect(chunks[3][1] == sample.data, "sample data chunk")
    expect(chunks[4][1] == pack("<I", fmt.value | ch.value), "CHFF")
    expect(chunks[5][1] == pack("<I", 8000), "CHFR")
    back = Sampler()
    back.load_chunk(mk(19, meta))
    got = back.samples[9]
    expect(
        (got.loop_type, got.format, got.channels, got.loop_sustain) == (lt, fmt, ch, sus)
        and type(got.loop_sustain) is bool and got.loop_type is lt and got.format is fmt and got.channels is ch,
        "type byte decode %r" % ((lt, fmt, ch, sus),),
    )
    expect((got.panning, got.name, got.finetune, got.relative_note, got.start_pos, got._length)
           == (-3, b"n" * 22, -100, -12, 77, 48 // frame), "meta fields decode")
    back.load_chunk(mk(20, sample.data, chff=fmt.value | ch.value, chfr=8000))
    expect((got.data, got.format, got.channels, got.rate) == (sample.data, fmt, ch, 8000), "data chunk decode")
    # plain ints work as format / channels keys too
    sample.format, sample.channels = fmt.value, ch.value
    expect(list(itertools.islice(smp.sample_chunks(9, sample), 2))[1][1] == want_meta, "int keyed format/channels")
    raises(AttributeError, lambda: list(smp.sample_chunks(9, sample)), "int format has no .value for CHFF")


def meta_with_type(type_byte):
    return pack("<IIIBbBBbB", 1, 0, 0, 64, 0, type_byte, 0x80, 0, 0) + b"\0" * 22 + pack("<I", 0)


back = Sampler()
raises(ValueError, lambda: back.load_chunk(mk(1, meta_with_type(0x03))), "loop type 3")
back = Sampler()
raises(KeyError, lambda: back.load_chunk(mk(1, meta_with_type(0x30))), "format bits 0x30")
expect(back.samples[0] is not None and back.samples[0].loop_type is LoopType.off, "loop type set before format fails")
back = Sampler()
back.load_chunk(mk(1, meta_with_type(0x80 | 0x08 | 0x12)))
got = back.samples[0]
expect((got.loop_type, got.format, got.channels, got.loop_sustain)
       == (LoopType.ping_pong, Format.int16, Channels.mono, False), "unused type bits ignored")
# start_pos is optional in old records
back = Sampler()
back.load_chunk(mk(3, meta_with_type(0x21)[:-4]))
expect(back.samples[1].start_pos == 0, "default start_pos")
back = Sampler()
raises(RuntimeError, lambda: back.load_chunk(mk(3, meta_with_type(0x21)[:10])), "truncated meta")
# slot addressing
back = Sampler()
back.load_chunk(mk(255, meta_with_type(0x20)))
back.load_chunk(mk(256, b"abcd" * 2, chff=4, chfr=1))
expect(back.samples[127] is not None and back.samples[127].data == b"abcd" * 2, "slot 127")
bad = Sampler.Sample()
bad.format = 3
raises(KeyError, lambda: bad.frame_size, "frame_size bad format")
raises(KeyError, lambda: list(Sampler().sample_chunks(0, bad)), "sample_chunks bad format")
bad = Sampler.Sample()
bad.channels = 1
raises(KeyError, lambda: list(Sampler().sample_chunks(0, bad)), "sample_chunks bad channels")

# ------------------------------------------------------------------ struct helpers
W, R = sampler_mod._StructWriter, sampler_mod._StructReader
f = BytesIO()
w = W(f)
w.int8(-128); w.uint8(255); w.int16(-2); w.uint16(65535); w.int32(-3); w.uint32(0xFFFFFFFF)
w.char(b"abc", 5); w.char(b"abcdefgh", 4); w.char(b"", 2)
blob = f.getvalue()
expect(blob == b"\x80\xff\xfe\xff\xff\xff\xfd\xff\xff\xff\xff\xff\xff\xffabc\0\0abcd\0\0", "writer bytes %r" % blob)
for meth, val in [("int8", 128), ("uint8", -1), ("int16", 1 << 15), ("uint16", -1), ("int32", 1 << 31), ("uint32", -1)]:
    raises(struct.error, lambda: getattr(W(BytesIO()), meth)(val), "writer range " + meth)
r = R(blob)
vals = [r.int8(), r.uint8(), r.int16(), r.uint16(), r.int32(), r.uint32(), r.char(5), r.bytes(4), r.bytes(5)]
expect(vals == [-128, 255, -2, 65535, -3, 0xFFFFFFFF, b"abc", b"abcd", b"\0\0"], "reader values %r" % vals)
expect(r.uint8(7) == 7 and r.int32(-1) == -1, "reader defaults at end")
raises(RuntimeError, r.uint8, "reader end without default")
r = R(b"\x01\x02\x03")
expect(r.uint16() == 0x0201, "reader u16")
expect(r.uint16(9) == 9, "short read uses default")
expect(r.uint8() == 3, "short read did not advance")
expect(r.uint32(0) == 0 and r.bytes(2) == b"" and r.char(1) == b"", "reads past the end")
r = R(b"\x01\x02\x03\x04")
r.skip(2)
expect(r.int16() == 0x0403, "skip")
r = R(b"ab\0\0cd")
expect(r.char(4) == b"ab" and r.bytes(10) == b"cd", "char strips, bytes clips")
expect(r.uint8(5) == 5, "index moved past the end by bytes()")

# ------------------------------------------------------------------ whole-file behaviour
synth = read_sunvox_file(FIXTURE)
blob = save(synth)
expect(hashlib.sha256(blob).hexdigest() == "3b0f2915c2ec0456c0932e701153dc1fe981399cffe9631e080af6bc8b9736a0", "saved fixture bytes unchanged: " + hashlib.sha256(blob).hexdigest())
m = synth.module
m.volume_envelope.points = [(0, 0x1234), (7, 0x8000), (99, 0)]
m.volume_envelope.loop = True
m.panning_envelope.points = [(0, -0x4000), (3, 0x3FFF)]
m.pitch_envelope.enable = True
m.effect_control_envelopes[2].points = [(0, 1), (2, 3), (4, 5)]
m.effect_control_envelopes[2].gain_pct = 33
first = next(i for i, x in enumerate(m.samples) if x is not None)
m.samples[first].loop_type = Sampler.LoopType.ping_pong
m.samples[first].loop_sustain = True
m.samples[first].panning = 12
untouched = [(i, x.data, x.format, x.channels) for i, x in enumerate(m.samples) if x is not None and i != first]
m2 = read_sunvox_file(BytesIO(save(synth))).module
expect(m2.volume_envelope.points == [(0, 0x1234), (7, 0x8000), (99, 0)] and m2.volume_envelope.loop is True, "vol edit saved")
expect(m2.panning_envelope.points == [(0, -0x4000), (3, 0x3FFF)], "pan edit saved")
expect(m2.pitch_envelope.enable is True, "pitch edit saved")
expect(m2.effect_control_envelopes[2].points == [(0, 1), (2, 3), (4, 5)] and m2.effect_control_envelopes[2].gain_pct == 33, "fx edit saved")
s2 = m2.samples[first]
expect((s2.loop_type, s2.loop_sustain, s2.panning) == (Sampler.LoopType.ping_pong, True, 12), "sample edit saved")
expect([(i, x.data, x.format, x.channels) for i, x in enumerate(m2.samples) if x is not None and i != first] == untouched, "other samples untouched")

if failures:
    print("FAIL")
    for f_ in failures:
        print(" -", f_)
    sys.exit(1)
print("PASS")
