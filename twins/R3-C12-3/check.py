"""Behaviour check for Pattern.raw_data (get/set) and SMII / SFGS packing.

* A pattern byte image made of valid cells loads cell by cell at
  (line * tracks + track) * 8 and saves back byte-identically, for many shapes
  and buffer types; short / long images and shape mismatches behave as before.
* SMII (MIDI-in "always" flag + channel) and SFGS (two 3-bit sync sets) are
  decoded and encoded bit-exactly, checked on the reader methods, the chunk
  generators and through a full write/read of a project.
"""
import io
import random
import struct
import sys
from struct import pack, unpack
from types import SimpleNamespace

import rv.api  # noqa: F401  (import order)
from rv.api import NOTECMD, Note, Pattern, Project, m, read_sunvox_file
from rv.readers.module import ModuleReader
from rv.readers.sunvox import SunVoxReader

FAILS = []
rnd = random.Random(3012)


def fail(msg):
    FAILS.append(msg)
    if len(FAILS) < 20:
        print("FAIL:", msg)


def outcome(fn):
    try:
        return ("ok", fn())
    except Exception as e:  # noqa
        return ("err", type(e))


CMDS = [int(c) for c in NOTECMD]


def random_cell():
    kind = rnd.random()
    if kind < 0.15:
        return bytes(8)
    return pack(
        "<BBHHH",
        rnd.choice(CMDS),
        rnd.randrange(130),
        rnd.choice([0, 1, 0xFFFF, rnd.randrange(0x10000)]),
        rnd.choice([0, 0xFF, 0xFF00, 0xFFFF, rnd.randrange(0x10000)]),
        rnd.choice([0, 0xFF, 0xFF00, 0xFFFF, rnd.randrange(0x10000)]),
    )


def random_image(tracks, lines):
    return b"".join(random_cell() for _ in range(tracks * lines))


# ---- Pattern.raw_data: shapes -------------------------------------------------
shapes = [(t, l) for t in (1, 2, 3, 4, 5, 7, 8, 16, 31, 32) for l in (1, 2, 3, 5, 16, 33)]
shapes += [(4, 256), (32, 128), (1, 1000)]
for tracks, lines in shapes:
    pat = Pattern(tracks=tracks, lines=lines)
    blank = pat.raw_data
    if blank != bytes(8 * tracks * lines):
        fail("blank %dx%d pattern image" % (tracks, lines))
    image = random_image(tracks, lines)
    pat.raw_data = image
    if pat.raw_data != image:
        fail("%dx%d image not saved back identically" % (tracks, lines))
    if type(pat.raw_data) is not bytes:
        fail("raw_data type %r" % type(pat.raw_data))
    if len(pat.data) != lines or any(len(row) != tracks for row in pat.data):
        fail("%dx%d data shape" % (tracks, lines))
    for line_no in range(lines):
        for track_no in range(tracks):
            off = (line_no * tracks + track_no) * 8
            cell = pat.data[line_no][track_no]
            want = unpack("<BBHHH", image[off : off + 8])
            got = (cell.note, cell.vel, cell.module, cell.ctl, cell.val)
            if got != want:
                fail("%dx%d cell (%d,%d): %r != %r" % (tracks, lines, line_no, track_no, got, want))
            if cell.raw_data != image[off : off + 8]:
                fail("%dx%d cell (%d,%d) raw" % (tracks, lines, line_no, track_no))
            if cell.pattern is not pat:
                fail("cell lost its pattern")
    # overwriting non-blank content with a second image, other buffer types
    image2 = random_image(tracks, lines)
    pat.raw_data = bytearray(image2)
    if pat.raw_data != image2:
        fail("%dx%d bytearray image" % (tracks, lines))
    pat.raw_data = memoryview(image)
    if pat.raw_data != image:
        fail("%dx%d memoryview image" % (tracks, lines))
    # row-major join of cells
    if pat.raw_data != b"".join(n.raw_data for row in pat.data for n in row):
        fail("%dx%d not row-major" % (tracks, lines))
    # via the PDTA chunk
    chunks = dict(pat.iff_chunks())
    if chunks[b"PDTA"] != image:
        fail("PDTA chunk")

# ---- long, short and empty images -------------------------------------------------------
for tracks, lines in [(1, 1), (3, 4), (4, 32)]:
    total = tracks * lines * 8
    image = random_image(tracks, lines)
    pat = Pattern(tracks=tracks, lines=lines)
    pat.raw_data = image + b"\xAA" * 13  # surplus is ignored
    if pat.raw_data != image:
        fail("surplus bytes not ignored")
    for cut in sorted({0, 1, 7, 8, 9, total // 2, total - 8, total - 1}):
        if cut >= total or cut < 0:
            continue
        pat = Pattern(tracks=tracks, lines=lines)
        base = random_image(tracks, lines)
        pat.raw_data = base
        res = outcome(lambda: setattr(pat, "raw_data", image[:cut]))
        if res != ("err", struct.error):
            fail("short image (%d of %d): %r" % (cut, total, res))
        whole = cut // 8  # complete cells were applied, the rest kept
        want = image[: whole * 8] + base[whole * 8 :]
        if pat.raw_data != want:
            fail("short image (%d of %d) partial state" % (cut, total))
    for bad in (None, 5):
        pat = Pattern(tracks=tracks, lines=lines)
        if outcome(lambda: setattr(pat, "raw_data", bad)) != ("err", TypeError):
            fail("raw_data=%r" % (bad,))

# ---- shape changed after the cells were created ---------------------------------------
pat = Pattern(tracks=2, lines=4)
pat.raw_data = random_image(2, 4)
before = pat.raw_data
pat.lines = 2  # fewer lines than rows held: only the first rows are loaded
image = random_image(2, 2)
pat.raw_data = image
if pat.raw_data != image + before[len(image) :]:
    fail("fewer lines than rows")
pat.lines = 6  # more lines than rows held
image = random_image(2, 6)
if outcome(lambda: setattr(pat, "raw_data", image)) != ("err", IndexError):
    fail("more lines than rows -> IndexError expected")
if pat.raw_data != image[: 2 * 4 * 8]:
    fail("more lines than rows: rows held should have been loaded")
pat = Pattern(tracks=4, lines=2)
pat.raw_data = random_image(4, 2)
before = pat.raw_data
pat.tracks = 2  # narrower stride than the rows held
image = random_image(2, 2)
pat.raw_data = image
want = image[0:16] + before[16:32] + image[16:32] + before[48:64]
if pat.raw_data != want:
    fail("narrower tracks than rows held")
pat.tracks = 5
if outcome(lambda: setattr(pat, "raw_data", random_image(5, 2))) != ("err", IndexError):
    fail("wider tracks than rows held -> IndexError expected")

# set_via_fn / raw_data interplay
pat = Pattern(tracks=3, lines=3)
pat.set_via_fn(lambda p, line, track: Note(note=1 + line * 3 + track, vel=track, ctl=line << 8, val=0x0102))
want = b"".join(pack("<BBHHH", 1 + c, c % 3, 0, (c // 3) << 8, 0x0102) for c in range(9))
if pat.raw_data != want:
    fail("set_via_fn image")

# ---- SMII reader ------------------------------------------------------------------------
words = list(range(0, 1 << 12)) + [rnd.randrange(1 << 32) for _ in range(3000)]
words += [0xFFFFFFFF, 0xFFFFFFFE, 0x80000000, 0x80000001, 0x7FFFFFFF, 1 << 16, (1 << 16) + 1]
for w in words:
    stub = SimpleNamespace(object=SimpleNamespace())
    ModuleReader.process_SMII(stub, pack("<I", w))
    always, channel = stub.object.midi_in_always, stub.object.midi_in_channel
    if always is not bool(w & 1) or channel != w >> 1 or type(channel) is not int:
        fail("SMII %#x -> %r, %r" % (w, always, channel))
for bad in (b"", b"\0\0\0", b"\0" * 5):
    stub = SimpleNamespace(object=SimpleNamespace())
    if outcome(lambda: ModuleReader.process_SMII(stub, bad)) != ("err", struct.error):
        fail("SMII bad data %r" % bad)
    if vars(stub.object):
        fail("SMII bad data set attributes")

# ---- SFGS reader ------------------------------------------------------------------------
for w in list(range(0, 1 << 12)) + words:
    stub = SimpleNamespace(object=SimpleNamespace())
    SunVoxReader.process_SFGS(stub, pack("<I", w))
    a, b = stub.object.receive_sync_midi, stub.object.receive_sync_other
    if (a, b) != (w & 7, (w >> 3) & 7) or type(a) is not int or type(b) is not int:
        fail("SFGS %#x -> %r, %r" % (w, a, b))
for bad in (b"", b"\0\0\0", b"\0" * 5):
    stub = SimpleNamespace(object=SimpleNamespace())
    if outcome(lambda: SunVoxReader.process_SFGS(stub, bad)) != ("err", struct.error):
        fail("SFGS bad data %r" % bad)
    if vars(stub.object):
        fail("SFGS bad data set attributes")


# ---- writers --------------------------------------------------------------------------
def chunk_of(gen, key):
    found = [v for k, v in gen if k == key]
    if len(found) != 1:
        fail("%r chunk count %d" % (key, len(found)))
    return found[0]


proj = Project()
mod = proj.new_module(m.Generator)
for always in (False, True, 0, 1):
    for channel in list(range(0, 40)) + [0x7FFF, 0x7FFFFFFF]:
        mod.midi_in_always = always
        mod.midi_in_channel = channel
        got = chunk_of(mod.iff_chunks(), b"SMII")
        if got != pack("<I", int(always) + channel * 2):
            fail("SMII write always=%r channel=%r: %r" % (always, channel, got))
        # sub-field independence through a decode
        stub = SimpleNamespace(object=SimpleNamespace())
        ModuleReader.process_SMII(stub, got)
        if (stub.object.midi_in_always, stub.object.midi_in_channel) != (bool(always), channel):
            fail("SMII decode of own encoding")
mod.midi_in_always, mod.midi_in_channel = True, 0x80000000
if outcome(lambda: list(mod.iff_chunks())) != ("err", struct.error):
    fail("SMII overflow should be struct.error")
mod.midi_in_always, mod.midi_in_channel = True, None
if outcome(lambda: list(mod.iff_chunks())) != ("err", TypeError):
    fail("SMII channel None should be TypeError")
mod.midi_in_always, mod.midi_in_channel = False, 0
# the SMII expression is only evaluated when the generator reaches it
mod.midi_in_channel = None
gen = mod.iff_chunks()
first = next(gen)
if first[0] != b"SFFF":
    fail("first module chunk %r" % (first,))
mod.midi_in_channel = 3
if chunk_of(gen, b"SMII") != pack("<I", 6):
    fail("SMII evaluated too early")
mod.midi_in_channel = 0

SC = Project.SyncCommand
for a in range(8):
    for b in range(8):
        for wrap in (int, lambda x: x):
            proj.receive_sync_midi = wrap(a)
            proj.receive_sync_other = wrap(b)
            got = chunk_of(proj.chunks(), b"SFGS")
            if got != pack("<I", a | b << 3):
                fail("SFGS write %r %r: %r" % (a, b, got))
for a, b in [(SC.start_stop, SC.tempo), (SC.position, SC.position), (SC.tempo | SC.position, SC.start_stop)]:
    proj.receive_sync_midi, proj.receive_sync_other = a, b
    if chunk_of(proj.chunks(), b"SFGS") != pack("<I", int(a) | int(b) << 3):
        fail("SFGS write enum %r %r" % (a, b))
proj.receive_sync_midi, proj.receive_sync_other = 0x105, 9  # beyond 3 bits: written as is
if chunk_of(proj.chunks(), b"SFGS") != pack("<I", 0x105 | 9 << 3):
    fail("SFGS write wide values")
proj.receive_sync_midi, proj.receive_sync_other = 1, None
if outcome(lambda: list(proj.chunks())) != ("err", TypeError):
    fail("SFGS other None should be TypeError")
proj.receive_sync_midi, proj.receive_sync_other = -1, 0
if outcome(lambda: list(proj.chunks())) != ("err", struct.error):
    fail("SFGS negative should be struct.error")

# ---- whole-file round trip ------------------------------------------------------------
for trial in range(12):
    proj = Project()
    proj.receive_sync_midi = rnd.randrange(8)
    proj.receive_sync_other = rnd.randrange(8)
    mods = []
    for cls in (m.Generator, m.Amplifier, m.Echo):
        mod = proj.new_module(cls)
        mod.midi_in_always = rnd.random() < 0.5
        mod.midi_in_channel = rnd.randrange(17)
        mods.append(mod)
    images = []
    for _ in range(3):
        tracks, lines = rnd.randrange(1, 9), rnd.randrange(1, 40)
        pat = Pattern(tracks=tracks, lines=lines)
        image = random_image(tracks, lines)
        pat.raw_data = image
        images.append((tracks, lines, image))
        proj.attach_pattern(pat) if hasattr(proj, "attach_pattern") else proj.patterns.append(pat)
    buf = io.BytesIO()
    proj.write_to(buf)
    first = buf.getvalue()
    back = read_sunvox_file(io.BytesIO(first))
    if (back.receive_sync_midi, back.receive_sync_other) != (proj.receive_sync_midi, proj.receive_sync_other):
        fail("SFGS round trip")
    for mod in mods:
        twin = back.modules[mod.index]
        if (twin.midi_in_always, twin.midi_in_channel) != (bool(mod.midi_in_always), mod.midi_in_channel):
            fail("SMII round trip")
        if type(twin.midi_in_always) is not bool:
            fail("midi_in_always type")
    for pat, (tracks, lines, image) in zip(back.patterns, images):
        if (pat.tracks, pat.lines) != (tracks, lines) or pat.raw_data != image:
            fail("pattern round trip")
    buf2 = io.BytesIO()
    back.write_to(buf2)
    if buf2.getvalue() != first:
        fail("file not byte-identical after read + write")

if FAILS:
    print("FAILED (%d)" % len(FAILS))
    sys.exit(1)
print("PASS")
