"""Behaviour check for Sampler chunk dispatch / legacy replay / chunk writer layout.

Run from the repository root:
    PYTHONPATH=<root>/src/python python check.py
"""
import hashlib
import logging
import os
import sys
from io import BytesIO
from struct import pack, unpack

from rv.api import read_sunvox_file
from rv.modules.module import Chunk
from rv.modules.sampler import Sampler
from rv.synth import Synth

logging.disable(logging.CRITICAL)

ROOT = os.getcwd()
FIXTURE = os.path.join(ROOT, "tests", "files", "sampler.sunsynth")
failures = []


def expect(cond, label):
    if not cond:
        failures.append(label)


def mk(chnm, chdt=b"", chff=0, chfr=44100):
    c = Chunk()
    c.chnm, c.chdt, c.chff, c.chfr = chnm, chdt, chff, chfr
    return c


def save(obj):
    f = BytesIO()
    obj.write_to(f)
    return f.getvalue()


def chnms(mod):
    out = []
    for name, data in mod.specialized_iff_chunks():
        if name == b"CHNM":
            out.append(unpack("<I", data)[0])
    return out


def load_fixture():
    return read_sunvox_file(FIXTURE)


# ---------------------------------------------------------------- fixture basics
synth = load_fixture()
m = synth.module
expect(isinstance(m, Sampler), "fixture is sampler")
expect(m.is_legacy is False and m.legacy_chunks is None, "fixture not legacy")
orig_bytes = save(synth)
expect(
    hashlib.sha256(orig_bytes).hexdigest() == hashlib.sha256(save(load_fixture())).hexdigest(),
    "deterministic save",
)
again = read_sunvox_file(BytesIO(orig_bytes))
expect(save(again) == orig_bytes, "write-read-write is a fixed point")

# chunk order in current-format writer
occupied = [i for i, s in enumerate(m.samples) if s is not None]
expected_order = [0]
for i in occupied:
    expected_order += [i * 2 + 1, i * 2 + 2]
expected_order += [0x101, 0x102, 0x103, 0x104, 0x105, 0x106, 0x107, 0x108]
if m.effect:
    expected_order.append(0x10A)
expect(chnms(m) == expected_order, "chunk order %r" % (chnms(m),))

# specialized_iff_chunks stays lazy: state is looked at on first next()
gen = m.specialized_iff_chunks()
expect(hasattr(gen, "__next__"), "specialized_iff_chunks is an iterator")
first = next(gen)
expect(first == (b"CHNM", pack("<I", 0)), "first chunk is CHNM 0")
gen.close()

# ------------------------------------------------- edits are what gets saved (C06)
def roundtrip_edit(edit, probe, label):
    s = load_fixture()
    before = probe(s.module)
    edit(s.module)
    after = probe(s.module)
    s2 = read_sunvox_file(BytesIO(save(s)))
    got = probe(s2.module)
    expect(got == after, "%s: saved %r expected %r" % (label, got, after))
    expect(after != before, "%s: edit was a no-op" % label)
    return s2


def set_vol_points(mod):
    mod.volume_envelope.points = [(0, 0x1000), (5, 0x8000), (9, 0x200), (300, 0)]
    mod.volume_envelope.sustain_point = 2
    mod.volume_envelope.loop = True


roundtrip_edit(
    set_vol_points,
    lambda mod: (
        list(mod.volume_envelope.points),
        mod.volume_envelope.sustain_point,
        mod.volume_envelope.loop,
    ),
    "volume envelope",
)


def set_fx_env(mod):
    for k, env in enumerate(mod.effect_control_envelopes):
        env.points = [(0, 0x100 * (k + 1)), (10 + k, 0x8000)]
        env.enable = True
        env.ctl_index = k + 1
        env.gain_pct = 50 + k
        env.velocity = 1


roundtrip_edit(
    set_fx_env,
    lambda mod: [
        (list(e.points), e.enable, e.ctl_index, e.gain_pct, e.velocity)
        for e in mod.effect_control_envelopes
    ],
    "effect control envelopes",
)


def set_pitch_pan(mod):
    mod.pitch_envelope.points = [(0, -0x4000), (7, 0x3FFF), (20, 0)]
    mod.pitch_envelope.enable = True
    mod.panning_envelope.points = [(0, -0x2000), (4, 0x2000)]
    mod.panning_envelope.loop_end_point = 1


roundtrip_edit(
    set_pitch_pan,
    lambda mod: (
        list(mod.pitch_envelope.points),
        mod.pitch_envelope.enable,
        list(mod.panning_envelope.points),
        mod.panning_envelope.loop_end_point,
    ),
    "pitch/pan envelopes",
)


def set_sample_fields(mod):
    i = occupied[0]
    smp = mod.samples[i]
    smp.data = bytes(range(64)) * smp.frame_size
    smp.volume = 17
    smp.panning = -5
    smp.rate = 22050
    smp.name = b"edited"
    smp.loop_start = 3
    smp.loop_len = 9


def probe_sample(mod):
    smp = mod.samples[occupied[0]]
    return (smp.data, smp.volume, smp.panning, smp.rate, smp.name, smp.loop_start, smp.loop_len)


roundtrip_edit(set_sample_fields, probe_sample, "sample fields")


def edit_options(mod):
    names = sorted(mod.options)
    for n in names:
        v = getattr(mod, n)
        if isinstance(v, bool):
            setattr(mod, n, not v)


roundtrip_edit(
    edit_options,
    lambda mod: {n: getattr(mod, n) for n in sorted(mod.options)},
    "options",
)


def edit_instrument(mod):
    mod.instrument_name = b"my instrument"
    mod.vibrato_depth = 11
    mod.vibrato_rate = 9
    mod.volume_fadeout = 1234
    mod.editor_cursor = -7
    mod.ins_finetune = -3
    n = next(iter(mod.note_samples))
    for k in list(mod.note_samples)[:8]:
        mod.note_samples[k] = 2


roundtrip_edit(
    edit_instrument,
    lambda mod: (
        mod.instrument_name,
        mod.vibrato_depth,
        mod.vibrato_rate,
        mod.volume_fadeout,
        mod.editor_cursor,
        mod.ins_finetune,
        mod.note_samples.bytes,
    ),
    "instrument record",
)


# removing / adding samples moves samples_num and the set of sample chunks
def samples_num_of(mod):
    chunks = list(mod.global_config_chunks())
    expect(chunks[0] == (b"CHNM", pack("<I", 0)), "global config chnm")
    return unpack("<H", chunks[1][1][0x1C:0x1E])[0]


s = load_fixture()
mod = s.module
expect(samples_num_of(mod) == occupied[-1] + 1, "samples_num from fixture")
template = mod.samples[occupied[0]]
mod.samples = [None] * 128
expect(samples_num_of(mod) == 0, "samples_num all empty")
expect(list(mod.sample_data_chunks()) == [], "no sample chunks when empty")
mod.samples[127] = template
expect(samples_num_of(mod) == 128, "samples_num last slot")
expect([c for c in chnms(mod) if c < 0x101 and c] == [255, 256], "sample chunk ids slot 127")
mod.samples[127] = None
mod.samples[0] = template
mod.samples[5] = template
expect(samples_num_of(mod) == 6, "samples_num gap")
expect(
    [c for c in chnms(mod) if c < 0x101 and c] == [1, 2, 11, 12], "sample chunk ids gap"
)
mod.samples = []
expect(samples_num_of(mod) == 0, "samples_num of empty list")
mod.samples = [None, template, None, None]
expect(samples_num_of(mod) == 2, "samples_num short list")
expect(mod.samples == [None, template, None, None], "samples list untouched by writer")
s2 = read_sunvox_file(BytesIO(save(s)))
expect(
    [i for i, x in enumerate(s2.module.samples) if x is not None] == [1],
    "only slot 1 saved",
)
expect(s2.module.samples[1].data == template.data, "slot 1 data saved")

# effect removed / replaced
s = load_fixture()
had_effect = s.module.effect is not None
s.module.effect = None
expect(0x10A not in chnms(s.module), "no effect chunk when effect is None")
s2 = read_sunvox_file(BytesIO(save(s)))
expect(s2.module.effect is None, "effect removal saved")
if had_effect:
    s = load_fixture()
    eff_bytes = save(s.module.effect)
    chunks = list(s.module.specialized_iff_chunks())
    expect(chunks[-2] == (b"CHNM", b"\x0a\x01\x00\x00"), "effect chnm bytes")
    expect(chunks[-1] == (b"CHDT", eff_bytes), "effect chdt bytes")

# too few effect control envelopes: error before anything is produced
s = load_fixture()
s.module.effect_control_envelopes = s.module.effect_control_envelopes[:2]
gen = s.module.specialized_iff_chunks()
try:
    next(gen)
except IndexError:
    pass
else:
    failures.append("short effect_control_envelopes should raise IndexError at first chunk")

# ---------------------------------------------------------------- load_chunk dispatch
class Spy(Sampler):
    def __init__(self, **kw):
        super().__init__(**kw)
        self.calls = []

    def load_options(self, chunk):
        self.calls.append(("options", chunk.chnm))

    def load_instrument(self, chunk):
        self.calls.append(("instrument", chunk.chnm))

    def load_sample_meta(self, chunk):
        self.calls.append(("meta", chunk.chnm))

    def load_sample_data(self, chunk):
        self.calls.append(("data", chunk.chnm))


class EnvSpy:
    def __init__(self, tag, log):
        self.tag, self.log = tag, log

    def load_chdt(self, chdt):
        self.log.append((self.tag, chdt))


spy = Spy()
env_log = []
spy.volume_envelope = EnvSpy("vol", env_log)
spy.panning_envelope = EnvSpy("pan", env_log)
spy.pitch_envelope = EnvSpy("pitch", env_log)
spy.effect_control_envelopes = [EnvSpy("fx%d" % k, env_log) for k in range(4)]
for chnm in [0, 1, 2, 3, 254, 255, 256, 0x101, 0x102, 0x103, 0x104, 0x105, 0x106, 0x107,
             0x108, 0x109, 0x10A + 1, 0x200, 0xFFFFFFFF]:
    spy.load_chunk(mk(chnm, b"d%d" % chnm))
expect(
    spy.calls
    == [("instrument", 0), ("meta", 1), ("data", 2), ("meta", 3), ("data", 254),
        ("meta", 255), ("data", 256), ("options", 0x101)],
    "dispatch calls %r" % (spy.calls,),
)
expect(
    env_log
    == [("vol", b"d258"), ("pan", b"d259"), ("pitch", b"d260"), ("fx0", b"d261"),
        ("fx1", b"d262"), ("fx2", b"d263"), ("fx3", b"d264")],
    "envelope dispatch %r" % (env_log,),
)
expect(spy.effect is None, "no effect loaded by unknown chunk ids")
expect(len(spy.legacy_chunks) == 19, "raw chunks captured while undecided")
expect(not hasattr(spy, "_unknown_0x101"), "0x101 goes to options first")


# 0x101 is only 'unknown' if options live elsewhere
class Moved(Spy):
    options_chnm = 0x300


mv = Moved()
mv.load_chunk(mk(0x101, b"xyz"))
mv.load_chunk(mk(0x300, b"\0"))
expect(mv._unknown_0x101 == b"xyz", "unknown 0x101 captured")
expect(mv.calls == [("options", 0x300)], "moved options dispatch")

# chnm None -> TypeError, but the chunk has already been captured
spy2 = Spy()
bad = mk(None, b"")
try:
    spy2.load_chunk(bad)
except TypeError:
    pass
else:
    failures.append("None chnm should raise TypeError")
expect(spy2.legacy_chunks == [bad], "chunk captured before dispatch")

# effect chunk (0x10A) loads an embedded synth
if had_effect:
    plain = Sampler()
    plain.load_chunk(mk(0x10A, eff_bytes))
    expect(isinstance(plain.effect, Synth), "effect loaded")
    expect(save(plain.effect) == eff_bytes, "effect bytes round trip")

# ------------------------------------------------------- legacy detection and replay
raw = {}
reader_synth = load_fixture()
for name, data in list(reader_synth.module.specialized_iff_chunks()):
    if name == b"CHNM":
        cur = unpack("<I", data)[0]
    elif name == b"CHDT":
        raw[cur] = data
ins = raw[0]
expect(len(ins) <= 0x190, "fixture instrument record is current-size")


def fresh_with(ins_data, pre=(), post=()):
    smp = Sampler()
    for c in pre:
        smp.load_chunk(c)
    c0 = mk(0, ins_data)
    smp.load_chunk(c0)
    for c in post:
        smp.load_chunk(c)
    return smp, c0


# current format: decided not-legacy, raw chunks dropped, later chunks not captured
pre = mk(0x102, raw[0x102])
smp, c0 = fresh_with(ins, pre=[pre], post=[mk(0x103, raw[0x103])])
expect(smp.is_legacy is False and smp.legacy_chunks is None, "current format state")
expect(smp.volume_envelope.loaded and smp.panning_envelope.loaded, "envelopes loaded")

# bad signature -> legacy, replay verbatim incl. chunks before and after
SIGN_AT = ins.index(b"PMAS")
expect(SIGN_AT == 0xFC, "signature offset")
bad_sign = ins[:SIGN_AT] + b"XXXX" + ins[SIGN_AT + 4 :]
post = mk(0x103, raw[0x103], chff=None, chfr=None)
smp, c0 = fresh_with(bad_sign, pre=[pre], post=[post])
expect(smp.is_legacy is True, "bad signature is legacy")
expect(smp.legacy_chunks == [pre, c0, post], "captured chunks in order")
expected = []
for c in (pre, c0, post):
    expected += list(c.chunks())
expect(list(smp.specialized_iff_chunks()) == expected, "legacy replay verbatim")
expect(
    [n for n, _ in expected]
    == [b"CHNM", b"CHDT", b"CHFF", b"CHFR", b"CHNM", b"CHDT", b"CHFF", b"CHFR", b"CHNM", b"CHDT"],
    "legacy replay chunk names",
)
smp.volume_envelope.points = [(0, 0)]
expect(list(smp.specialized_iff_chunks()) == expected, "legacy replay ignores live state")

# over-long record -> legacy
for extra, want in [(0x190 - len(ins), False), (0x191 - len(ins), True), (0x400, True)]:
    smp, c0 = fresh_with(ins + b"\0" * extra)
    expect(smp.is_legacy is want, "length rule extra=%d -> %r (got %r)" % (extra, want, smp.is_legacy))
    expect((smp.legacy_chunks is None) == (not want), "legacy_chunks for extra=%d" % extra)

# once legacy, a later good record does not undo it
smp, c0 = fresh_with(bad_sign)
good = mk(0, ins)
smp.load_chunk(good)
expect(smp.is_legacy is True and smp.legacy_chunks == [c0, good], "legacy is sticky")

# once decided current, a later bad record flips the flag but there is no capture list
smp, c0 = fresh_with(ins)
smp.load_chunk(mk(0, bad_sign))
expect(smp.is_legacy is True and smp.legacy_chunks is None, "late legacy flip state")
try:
    smp.load_chunk(mk(0x102, raw[0x102]))
except AttributeError:
    pass
else:
    failures.append("append to missing capture list should raise AttributeError")
try:
    list(smp.specialized_iff_chunks())
except TypeError:
    pass
else:
    failures.append("replay without capture list should raise TypeError")

# truncated record: signature is checked (flag set) before the version read fails
smp = Sampler()
try:
    smp.load_chunk(mk(0, ins[: SIGN_AT + 2]))
except RuntimeError:
    pass
else:
    failures.append("truncated record should raise RuntimeError")
expect(smp.is_legacy is True, "flag set before the failing read")

# a new (never loaded) sampler writes current format
new = Sampler()
expect(new.is_legacy is None and new.legacy_chunks == [], "fresh state")
expect(chnms(new) == [0, 0x101, 0x102, 0x103, 0x104, 0x105, 0x106, 0x107, 0x108], "fresh chunk ids")

# log messages of the legacy rules
logging.disable(logging.NOTSET)
records = []


class H(logging.Handler):
    def emit(self, record):
        records.append((record.levelname, record.getMessage()))


h = H()
lg = logging.getLogger("rv.modules.sampler")
lg.addHandler(h)
lg.setLevel(logging.DEBUG)
lg.propagate = False
fresh_with(bad_sign)
fresh_with(ins + b"\0" * (0x200 - len(ins)))
fresh_with(ins)
lg.removeHandler(h)
expect(
    records
    == [
        ("WARNING", "legacy signature b'XXXX' != b'PMAS'"),
        ("WARNING", "legacy instrument data of length 512"),
    ],
    "log records %r" % (records,),
)

if failures:
    print("FAIL")
    for f_ in failures:
        print(" -", f_)
    sys.exit(1)
print("PASS")
