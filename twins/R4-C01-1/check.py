"""Behaviour check for refactoring C01-1 (standalone; run with PYTHONPATH=<root>/src/python)."""
EXPECTED = "fa27f1e92c6873ac8707706e9eef9988b4443480e4560e4d8f7a61ab7b59ece5"
import hashlib
import io
import logging
import random
import struct
import sys
from enum import Enum

from rv.api import NOTECMD, Note, Pattern, PatternClone, Project, Synth, m, read_sunvox_file
from rv.controller import Range
from rv.lib.iff import chunks as iff_chunks
from rv.modules import MODULE_CLASSES

logging.disable(logging.CRITICAL)

TRANSCRIPT = []
FAILURES = []


def record(label, value):
    TRANSCRIPT.append("%s=%r" % (label, value))


def expect(cond, label):
    if not cond:
        FAILURES.append(label)


def digest(data):
    return hashlib.sha256(data).hexdigest()[:16]


def plain(value):
    """Reduce a value to something with a stable repr."""
    if isinstance(value, Enum):
        return "%s.%s" % (type(value).__name__, value.name)
    if isinstance(value, (list, tuple)):
        return [plain(v) for v in value]
    if isinstance(value, (set, frozenset)):
        return sorted(plain(v) for v in value)
    if isinstance(value, dict):
        return [(plain(k), plain(v)) for k, v in value.items()]
    if isinstance(value, (bytes, bytearray)):
        return "bytes:%d:%s" % (len(value), digest(bytes(value)))
    if isinstance(value, (int, str, bool, float)) or value is None:
        return value
    return "<%s>" % type(value).__name__


def module_snapshot(mod):
    if mod is None:
        return None
    snap = {
        "cls": type(mod).__name__,
        "mtype": mod.mtype,
        "index": mod.index,
        "name": mod.name,
        "flags": mod.flags,
        "xyz": (mod.x, mod.y, mod.layer),
        "scale": mod.mod_scale,
        "color": tuple(mod.color),
        "vis": int(mod.visualization),
        "fine": (mod.mod_finetune, mod.mod_relative_note),
        "midi": (
            mod.midi_in_always,
            mod.midi_in_channel,
            mod.midi_out_name,
            mod.midi_out_channel,
            mod.midi_out_bank,
            mod.midi_out_program,
        ),
        "ctl": plain(mod.controller_values),
        "opt": plain(mod.option_values),
        "cmid": [
            (name, mod.controller_midi_maps[name].cmid_data.hex())
            for name in mod.controllers
        ],
        "links": (
            list(mod.in_links),
            list(mod.in_link_slots),
            list(mod.out_links),
            list(mod.out_link_slots),
        ),
    }
    return plain(snap)


def pattern_snapshot(pat):
    if pat is None:
        return None
    if isinstance(pat, PatternClone):
        return ("clone", pat.source, pat.flags_PFFF, pat.x, pat.y)
    return (
        "pattern",
        pat.name,
        pat.tracks,
        pat.lines,
        pat.y_size,
        pat.flags_PFLG,
        plain(pat.icon),
        tuple(pat.fg_color),
        tuple(pat.bg_color),
        pat.flags_PFFF,
        pat.x,
        pat.y,
        pat.raw_data.hex(),
    )


PROJECT_FIELDS = [
    "sunvox_version",
    "based_on_version",
    "flags",
    "initial_bpm",
    "initial_tpl",
    "global_volume",
    "name",
    "time_grid",
    "time_grid2",
    "modules_scale",
    "modules_zoom",
    "modules_x_offset",
    "modules_y_offset",
    "modules_layer_mask",
    "modules_current_layer",
    "timeline_position",
    "restart_position",
    "selected_module",
    "selected_generator",
    "current_pattern",
    "current_track",
    "current_line",
]


def project_snapshot(project, skip=()):
    return {
        "fields": [
            (f, plain(getattr(project, f))) for f in PROJECT_FIELDS if f not in skip
        ],
        "sync": (int(project.receive_sync_midi), int(project.receive_sync_other)),
        "modules": [module_snapshot(mod) for mod in project.modules],
        "patterns": [pattern_snapshot(pat) for pat in project.patterns],
    }


def chunk_listing(data):
    return [(name, digest(body)) for name, body in iff_chunks(io.BytesIO(data))]


def random_controller_value(rng, mod, name):
    ctl = mod.controllers[name]
    t = ctl.instance_value_type(mod)
    if isinstance(t, Range):
        return rng.choice([t.min, t.max, rng.randint(t.min, t.max)])
    if isinstance(t, type) and issubclass(t, Enum):
        return rng.choice(list(t))
    if t is bool:
        return rng.choice([True, False])
    if t is int:
        return rng.randint(0, 255)
    return None


def randomize_module(rng, mod):
    for name, ctl in mod.controllers.items():
        if not ctl.attached(mod) or rng.random() < 0.3:
            continue
        value = random_controller_value(rng, mod, name)
        if value is None:
            continue
        try:
            setattr(mod, name, value)
        except Exception as e:  # recorded: must stay the same
            record("ctl-set-error %s.%s" % (mod.mtype, name), type(e).__name__)
    for name, opt in mod.options.items():
        if rng.random() < 0.5:
            try:
                if opt.size == 1:
                    setattr(mod, name, rng.choice([True, False]))
                else:
                    setattr(mod, name, rng.randrange(0, 2**opt.size))
            except Exception as e:
                record("opt-set-error %s.%s" % (mod.mtype, name), type(e).__name__)
    mod.x = rng.randint(-2000, 2000)
    mod.y = rng.randint(-2000, 2000)
    mod.layer = rng.randint(0, 7)
    mod.mod_scale = rng.randint(0, 1024)
    mod.color = (rng.randrange(256), rng.randrange(256), rng.randrange(256))
    mod.mod_finetune = rng.randint(-256, 256)
    mod.mod_relative_note = rng.randint(-64, 64)
    mod.midi_in_always = rng.choice([True, False])
    mod.midi_in_channel = rng.randint(0, 16)
    mod.midi_out_name = rng.choice([None, "", "port", "pört ♫"])
    mod.midi_out_channel = rng.randint(0, 16)
    mod.midi_out_bank = rng.randint(-1, 127)
    mod.midi_out_program = rng.randint(-1, 127)
    mod.visualization = rng.randrange(0, 2**28)
    names = list(mod.controllers)
    for name in rng.sample(names, min(len(names), 2)):
        mm = mod.controller_midi_maps[name]
        mm.channel = rng.randint(0, 16)
        mm.message_type = rng.choice(list(type(mm.message_type)))
        mm.message_parameter = rng.randint(0, 0xFFFF)
        mm.slope = rng.choice(list(type(mm.slope)))


NAMES = [
    "",
    "plain",
    "x" * 32,
    "y" * 33,
    "a" * 31 + "é",
    "a" * 30 + "éz",
    "♫" * 11,
    "\U0001f3b5" * 9,
    "tab\tnewline\n",
    "é" * 16 + "tail",
]

ATTACHABLE = sorted(k for k in MODULE_CLASSES if k != "Output")


def random_pattern(rng):
    tracks = rng.choice([1, 2, 4, 7, 32])
    lines = rng.choice([1, 3, 16, 33])
    pat = Pattern(
        name=rng.choice([None, "", "pat", "pättern"]),
        tracks=tracks,
        lines=lines,
        y_size=rng.randint(1, 64),
        flags_PFLG=rng.randrange(4),
        icon=bytes(rng.randrange(256) for _ in range(32)),
        fg_color=(rng.randrange(256), rng.randrange(256), rng.randrange(256)),
        bg_color=(rng.randrange(256), rng.randrange(256), rng.randrange(256)),
        flags_PFFF=rng.choice([0, 2, 8, 0x10]),
        x=rng.randint(-100, 1000),
        y=rng.randint(-100, 1000),
    )
    notecmds = list(NOTECMD)
    for line in pat.data:
        for note in line:
            if rng.random() < 0.4:
                note.note = rng.choice(notecmds)
                note.vel = rng.randint(0, 129)
                note.module = rng.choice([0, 1, 255, 256, 0xFFFF, rng.randint(0, 0xFFFF)])
                note.ctl = rng.randint(0, 0xFFFF)
                note.val = rng.randint(0, 0xFFFF)
    return pat


def random_project(seed, n_modules=8, types=None):
    rng = random.Random(seed)
    project = Project()
    project.name = rng.choice(["Project", "", "Pröject ♫", "n" * 100])
    project.flags = rng.randrange(2**32)
    project.initial_bpm = rng.randint(1, 16000)
    project.initial_tpl = rng.randint(1, 31)
    project.global_volume = rng.randint(0, 256)
    project.time_grid = rng.randint(1, 64)
    project.time_grid2 = rng.randint(1, 64)
    project.modules_scale = rng.randint(1, 1024)
    project.modules_zoom = rng.randint(1, 1024)
    project.modules_x_offset = rng.randint(-(2**31), 2**31 - 1)
    project.modules_y_offset = rng.randint(-(2**31), 2**31 - 1)
    project.modules_layer_mask = rng.randrange(2**32)
    project.modules_current_layer = rng.randint(0, 7)
    project.timeline_position = rng.choice([0, 0, 5, -3, 2**31 - 1])
    project.restart_position = rng.choice([0, 0, 7, -9, -(2**31)])
    project.selected_module = rng.randint(0, n_modules)
    project.selected_generator = rng.randint(-1, n_modules)
    project.current_pattern = rng.randint(0, 5)
    project.current_track = rng.randint(0, 31)
    project.current_line = rng.randint(0, 31)
    project.receive_sync_midi = rng.randrange(8)
    project.receive_sync_other = rng.randrange(8)
    project.output.name = rng.choice(["Output", "Out", "é" * 20])
    mods = [project.output]
    chosen = types if types is not None else [rng.choice(ATTACHABLE) for _ in range(n_modules)]
    for mtype in chosen:
        if mtype is None:
            project.attach_module(None)
            continue
        mod = MODULE_CLASSES[mtype](name=rng.choice(NAMES + [None]))
        project.attach_module(mod)
        randomize_module(rng, mod)
        mods.append(mod)
    for _ in range(len(mods) * 2):
        a, b = rng.choice(mods), rng.choice(mods)
        if rng.random() < 0.25:
            project.connect(~a, b)
        else:
            project.connect(a, b)
    n_patterns = rng.randint(0, 4)
    for _ in range(n_patterns):
        kind = rng.random()
        if kind < 0.15:
            project.attach_pattern(None)
        elif kind < 0.3 and project.patterns and project.patterns[0] is not None:
            project.attach_pattern(
                PatternClone(source=0, x=rng.randint(0, 99), y=rng.randint(0, 99))
            )
        else:
            project.attach_pattern(random_pattern(rng))
    return project


def save_bytes(project):
    f = io.BytesIO()
    project.write_to(f)
    return f.getvalue()


def roundtrip_outcome(label, project, strict=True):
    """Write, re-read, re-write; record digests and compare snapshots."""
    try:
        data = save_bytes(project)
    except Exception as e:
        record(label + " write-error", type(e).__name__)
        return None
    record(label + " bytes", (len(data), digest(data)))
    record(label + " chunks", chunk_listing(data))
    try:
        loaded = read_sunvox_file(io.BytesIO(data))
    except Exception as e:
        record(label + " read-error", type(e).__name__)
        return None
    before = project_snapshot(project)
    after = project_snapshot(loaded)
    record(label + " loaded", after)
    record(label + " same-as-original", before == after)
    try:
        data2 = save_bytes(loaded)
        record(label + " rewrite", (len(data2), digest(data2), data2 == data))
    except Exception as e:
        record(label + " rewrite-error", type(e).__name__)
    if strict:
        expect(loaded.modules.__len__() <= len(project.modules), label + " module count")
        expect(
            [pattern_snapshot(p) for p in loaded.patterns]
            == [pattern_snapshot(p) for p in project.patterns],
            label + " patterns preserved",
        )
    return loaded


def finish(expected):
    total = hashlib.sha256("\n".join(TRANSCRIPT).encode("utf8")).hexdigest()
    if "--print" in sys.argv:
        print(total)
        if FAILURES:
            print("FAILURES: " + "; ".join(FAILURES), file=sys.stderr)
        if "--dump" in sys.argv:
            print("\n".join(TRANSCRIPT))
        return
    if FAILURES:
        print("FAIL: " + "; ".join(FAILURES))
        sys.exit(1)
    if total != expected:
        print("FAIL: behaviour transcript digest %s != expected %s" % (total, expected))
        sys.exit(1)
    print("PASS (%d observations)" % len(TRANSCRIPT))


# ---------------------------------------------------------------------------
# C01-1: Project.chunks() / Project.connect()
# ---------------------------------------------------------------------------
from rv.errors import ModuleOwnershipError


def links_of(project):
    return [
        None
        if mod is None
        else (
            list(mod.in_links),
            list(mod.in_link_slots),
            list(mod.out_links),
            list(mod.out_link_slots),
        )
        for mod in project.modules
    ]


def check_default_project():
    project = Project()
    names = [name for name, _ in project.chunks()]
    expect(names[0] == b"SVOX" and names[-1] == b"SEND", "default chunk envelope")
    expect(b"TIME" not in names and b"REPS" not in names, "zero positions omitted")
    expect(
        names[:17]
        == [
            b"SVOX", b"VERS", b"BVER", b"FLGS", b"SFGS", b"BPM ", b"SPED", b"TGRD",
            b"TGD2", b"GVOL", b"NAME", b"MSCL", b"MZOO", b"MXOF", b"MYOF", b"LMSK",
            b"CURL",
        ],
        "settings chunk order",
    )
    record("default names", names)
    roundtrip_outcome("default", project)
    # chunks() is lazy: an unserialisable base Module only fails when reached.
    gen = project.chunks()
    expect(next(gen) == (b"SVOX", b""), "magic chunk first")
    project.timeline_position = 12
    project.restart_position = -4
    names = [name for name, _ in project.chunks()]
    i = names.index(b"CURL")
    expect(names[i : i + 4] == [b"CURL", b"TIME", b"REPS", b"SELS"], "TIME/REPS position")
    project.timeline_position = 0
    names = [name for name, _ in project.chunks()]
    expect(names[i : i + 3] == [b"CURL", b"REPS", b"SELS"], "REPS alone")
    loaded = roundtrip_outcome("positions", project)
    expect(loaded.restart_position == -4 and loaded.timeline_position == 0, "positions rt")
    for midi in range(8):
        for other in range(8):
            project.receive_sync_midi = midi
            project.receive_sync_other = other
            body = dict(project.chunks())[b"SFGS"]
            expect(body == struct.pack("<I", midi | other << 3), "SFGS %d %d" % (midi, other))
    project.sunvox_version = (1, 2, 3, 4)
    project.based_on_version = (9, 8, 7, 6)
    listing = dict(project.chunks())
    expect(listing[b"VERS"] == bytes([4, 3, 2, 1]), "VERS reversed")
    expect(listing[b"BVER"] == bytes([6, 7, 8, 9]), "BVER reversed")


def check_field_errors():
    for field, bad in [
        ("flags", -1),
        ("initial_bpm", 2**32),
        ("modules_x_offset", 2**31),
        ("timeline_position", 2**31),
        ("restart_position", -(2**31) - 1),
        ("selected_generator", 2**31),
        ("current_line", -1),
        ("sunvox_version", (1, 2, 3)),
        ("based_on_version", (1, 2, 3, 256)),
        ("name", None),
    ]:
        project = Project()
        setattr(project, field, bad)
        seen = []
        try:
            for name, _ in project.chunks():
                seen.append(name)
            outcome = "ok"
        except Exception as e:
            outcome = type(e).__name__
        record("bad %s" % field, (outcome, seen))
        expect(outcome != "ok", "bad %s must fail" % field)


def check_slots_and_links():
    project = Project()
    gen = project.new_module(m.Generator)
    amp = project.new_module(m.Amplifier)
    echo = project.new_module(m.Echo)
    project.attach_module(None)
    lfo = project.new_module(m.Lfo)
    gen >> amp >> project.output
    gen >> echo >> project.output
    lfo >> project.output
    record("links A", links_of(project))
    expect(
        project.output.in_links == [amp.index, echo.index, lfo.index], "output in_links"
    )
    names = [name for name, _ in project.chunks()]
    expect(names.count(b"SEND") == len(project.modules), "one SEND per slot")
    expect(names.count(b"SLnK") == 1, "SLnK only where slots are non-trivial")
    roundtrip_outcome("links A", project)
    # connecting twice is a no-op
    before = links_of(project)
    project.connect(gen, amp)
    project.connect([gen], [amp, echo])
    expect(links_of(project) == before, "reconnect no-op")
    # disconnect, both spellings, and disconnecting twice
    project.connect(~gen, amp)
    record("links B", links_of(project))
    expect(amp.in_links == [-1] and amp.in_link_slots == [-1], "amp side cleared")
    expect(gen.out_links == [-1, echo.index], "gen side cleared")
    after = links_of(project)
    project.connect(gen, ~amp)
    project.connect(~gen, ~amp)
    expect(links_of(project) == after, "second disconnect no-op")
    project.connect(echo, ~project.output)
    record("links C", links_of(project))
    roundtrip_outcome("links C", project)
    # reconnect after disconnect appends
    project.connect(gen, amp)
    project.connect([~lfo, gen], [project.output, echo])
    record("links D", links_of(project))
    roundtrip_outcome("links D", project)
    # self connection and list operands with operators
    project.connect(amp, amp)
    result = lfo >> [amp, echo] >> project.output
    expect(result is project.output, "rshift returns operand")
    echo << [gen, lfo] << amp
    record("links E", links_of(project))
    roundtrip_outcome("links E", project)
    # foreign module / None
    stranger = m.Generator()
    other_project = Project()
    foreign = other_project.new_module(m.Generator)
    for a, b in [
        (stranger, amp),
        (amp, stranger),
        (~stranger, amp),
        (foreign, project.output),
        ([gen, stranger], [amp]),
    ]:
        before = links_of(project)
        try:
            project.connect(a, b)
            outcome = "ok"
        except ModuleOwnershipError as e:
            outcome = ("ModuleOwnershipError", type(e.__context__).__name__, str(e))
        except Exception as e:
            outcome = type(e).__name__
        record("foreign connect", (outcome, links_of(project) == before))
        expect(outcome != "ok", "foreign connect rejected")
    # one-shot iterables as operands keep working as before
    project2 = Project()
    a = project2.new_module(m.Generator)
    b = project2.new_module(m.Generator)
    c = project2.new_module(m.Amplifier)
    d = project2.new_module(m.Amplifier)
    project2.connect(iter([a, b]), iter([c, d]))
    record("iter operands", links_of(project2))
    project2.connect((a, b), (c, ~d))
    record("tuple operands", links_of(project2))
    roundtrip_outcome("project2", project2)


def check_manual_link_tables():
    # in_links / in_link_slots set by hand: SLnK emitted only for non-trivial slots
    for slots in ([0, 0], [0, -1], [-1, -1], [0, 1], [2, 0], [True, False], [0], [0, 0, 0]):
        project = Project()
        a = project.new_module(m.Generator)
        b = project.new_module(m.Generator)
        amp = project.new_module(m.Amplifier)
        amp.in_links = [a.index, b.index]
        amp.in_link_slots = list(slots)
        seen = []
        try:
            for name, body in project.chunks():
                seen.append((name, body.hex()) if name in (b"SLNK", b"SLnK") else name)
            outcome = "ok"
        except Exception as e:
            outcome = type(e).__name__
        record("manual slots %r" % (slots,), (outcome, seen))
    project = Project()
    amp = project.new_module(m.Amplifier)
    amp.in_links = (0,)
    amp.in_link_slots = (0,)
    record("tuple tables", chunk_listing(save_bytes(project)))


def check_module_slot_chunks():
    project = Project()
    out_names = [n for n, _ in project.chunks()]
    expect(b"CVAL" not in out_names and b"CMID" not in out_names, "Output has no CVAL")
    expect(b"STYP" not in out_names, "Output has no STYP")
    for mtype in ATTACHABLE:
        project = Project()
        mod = project.attach_module(MODULE_CLASSES[mtype]())
        listing = list(project.chunks())
        names = [n for n, _ in listing]
        attached = [n for n, c in mod.controllers.items() if c.attached(mod)]
        expect(names.count(b"CVAL") == len(attached), mtype + " CVAL count")
        expect(names.count(b"CMID") == (1 if attached else 0), mtype + " CMID count")
        if attached:
            cmid = [body for n, body in listing if n == b"CMID"][0]
            expect(len(cmid) == 8 * len(attached), mtype + " CMID size")
            expect(
                names.index(b"CMID") == len(names) - 1 - names[::-1].index(b"CVAL") + 1,
                mtype + " CMID follows CVALs",
            )
        expect((b"CHNK" in names) == bool(mod.chnk), mtype + " CHNK presence")
        record("single " + mtype, [(n, digest(b)) for n, b in listing if n is not None])
    # base Module cannot be serialised; failure happens lazily at that slot
    project = Project()
    project.modules.append(m.Module())
    seen = []
    try:
        for name, _ in project.chunks():
            seen.append(name)
        outcome = "ok"
    except RuntimeError:
        outcome = "RuntimeError"
    record("base module", (outcome, seen))
    expect(outcome == "RuntimeError" and seen[-1] == b"SEND", "base module fails lazily")


def check_random_projects():
    for seed in range(40):
        project = random_project(seed)
        roundtrip_outcome("random %d" % seed, project)
    # every attachable type once, with empty slots in between
    types = []
    for i, mtype in enumerate(ATTACHABLE):
        types.append(mtype)
        if i % 7 == 3:
            types.append(None)
    roundtrip_outcome("all types", random_project(1234, types=types))
    empties = Project()
    empties.attach_module(None)
    empties.attach_module(None)
    empties.attach_pattern(None)
    empties.attach_pattern(Pattern(tracks=1, lines=1))
    empties.attach_pattern(None)
    loaded = roundtrip_outcome("empties", empties)
    expect(loaded.patterns[0] is None and loaded.patterns[2] is None, "empty patterns kept")
    expect(len(loaded.modules) == 1, "trailing empty modules dropped on load")


check_default_project()
check_field_errors()
check_slots_and_links()
check_manual_link_tables()
check_module_slot_chunks()
check_random_projects()
finish(EXPECTED)
