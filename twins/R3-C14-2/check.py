"""Behaviour check for Project.__iadd__, Project.attach_pattern, Project.new_module.

Run from the repository root with PYTHONPATH=<root>/src/python.
"""
import os
import sys
from io import BytesIO

from rv.api import Project, Pattern, PatternClone, read_sunvox_file, m
from rv.errors import ModuleOwnershipError, PatternOwnershipError
from rv.modules.module import Module

failures = []


def check(cond, msg):
    if not cond:
        failures.append(msg)


def raises(exc, fn):
    try:
        fn()
    except exc as e:
        return e
    except Exception as e:
        failures.append("expected %s got %r" % (exc.__name__, e))
        return None
    failures.append("expected %s, nothing raised" % exc.__name__)
    return None


def coherent(project, label):
    check(project.modules[0] is project.output, label + ": output at 0")
    for i, mod in enumerate(project.modules):
        if mod is not None:
            check(mod.index == i, "%s: index of %d" % (label, i))
            check(mod.parent is project, "%s: parent of %d" % (label, i))
    for pat in project.patterns:
        if pat is not None:
            check(pat.project is project, label + ": pattern owner")


def roundtrip(project):
    f = BytesIO()
    project.write_to(f)
    f.seek(0)
    return read_sunvox_file(f)


def iadd(project, item):
    project += item
    return project


# --- attach_pattern ----------------------------------------------------------
p = Project()
check(p.patterns == [], "starts without patterns")
pat0 = Pattern()
check(p.attach_pattern(pat0) == 0, "first pattern position")
check(pat0.project is p, "owner set")
check(p.attach_pattern(None) == 1, "empty slot position")
check(p.patterns[1] is None, "empty slot stored")
clone = PatternClone(source=0)
check(p.attach_pattern(clone) == 2, "clone position")
check(clone.project is p and clone.source_pattern is pat0, "clone owner")
check(p.attach_pattern(None) == 3 and p.attach_pattern(None) == 4, "more empty slots")
pat1 = Pattern(tracks=2, lines=8)
check(p.attach_pattern(pat1) == 5, "position after empties (no gap fill for patterns)")
check(p.patterns == [pat0, None, clone, None, None, pat1], "pattern list")

# refusing: same project again, and another project
snapshot = list(p.patterns)
for victim in (pat0, clone, pat1):
    e = raises(PatternOwnershipError, lambda: p.attach_pattern(victim))
    check(
        e is not None and str(e) == "Pattern already attached to a project",
        "ownership message",
    )
    check(p.patterns == snapshot, "refusal leaves list untouched")
    check(victim.project is p, "refusal leaves owner untouched")
q = Project()
for victim in (pat0, clone):
    raises(PatternOwnershipError, lambda: q.attach_pattern(victim))
    check(q.patterns == [], "other project untouched")
    check(victim.project is p, "owner still first project")
raises(PatternOwnershipError, lambda: iadd(q, pat1))
check(q.patterns == [] and pat1.project is p, "+= refusal")

# --- new_module --------------------------------------------------------------
g = p.new_module(m.Generator, name="gen", x=10, y=20)
check(isinstance(g, m.Generator) and g.name == "gen", "new_module returns instance")
check((g.x, g.y) == (10, 20), "kwargs passed through")
check(g.index == 1 and g.parent is p and p.modules[1] is g, "new_module attaches")
a = p.new_module(m.Amplifier)
r = p.new_module(m.Reverb)
check([a.index, r.index] == [2, 3], "appended in order")
raises(RuntimeError, lambda: p.new_module(Module))
check(len(p.modules) == 4, "base Module refused, nothing added")
# gap filling through new_module
p.modules[2] = None
p.modules[1] = None
d = p.new_module(m.Delay)
check(d.index == 1 and p.modules == [p.output, d, None, r], "lowest gap first")
e2 = p.new_module(m.Echo)
check(e2.index == 2 and p.modules == [p.output, d, e2, r], "next gap")
f2 = p.new_module(m.Filter)
check(f2.index == 4 and p.modules[-1] is f2, "then the end")
check(r.index == 3, "others not moved")
coherent(p, "after new_module")

# --- __iadd__ ----------------------------------------------------------------
s = Project()
mods = [m.Generator(), m.Amplifier(), m.Reverb(), m.Delay()]
pats = [Pattern(), Pattern(lines=4), PatternClone(source=0)]
ret = iadd(s, mods[0])
check(ret is s, "+= returns self")
check(s.modules == [s.output, mods[0]], "+= module")
s += pats[0]
check(s.patterns == [pats[0]], "+= pattern")
# nested lists, mixed content, ignored junk, order preserved
s += [mods[1], [pats[1], [mods[2], None, 3, "x"], pats[2]], [], mods[3]]
check(s.modules == [s.output] + mods, "nested modules in order")
check(s.patterns == pats, "nested patterns in order")
check(len(s.modules) == 5, "None inside a list is ignored by +=")
# ignored operands
before = (list(s.modules), list(s.patterns))
for junk in (None, 0, "abc", (mods[0],), {"a": 1}, []):
    s += junk
check((list(s.modules), list(s.patterns)) == before, "junk ignored")
# attaching the same module twice is a no-op
s += mods[1]
s += [mods[0], mods[3]]
s += s.modules
check((list(s.modules), list(s.patterns)) == before, "re-attach is a no-op")
coherent(s, "after +=")

# list subclass is treated as a list
class L(list):
    pass


t = Project()
tm = [m.Generator(), m.Amplifier()]
t += L([tm[0], L([tm[1]])])
check(t.modules == [t.output] + tm, "list subclass")

# failure part-way through a list keeps what was attached before it
foreign = mods[2]
fresh1, fresh2 = m.Lfo(), m.Flanger()
pfresh = Pattern()
raises(ModuleOwnershipError, lambda: iadd(t, [fresh1, [pfresh, foreign], fresh2]))
check(t.modules == [t.output] + tm + [fresh1], "items before failure attached")
check(t.patterns == [pfresh], "pattern before failure attached")
check(fresh2.parent is None and fresh2.index is None, "items after failure untouched")
check(foreign.parent is s and foreign.index == 3, "foreign module untouched")
check(s.modules == [s.output] + mods, "foreign project untouched")
raises(PatternOwnershipError, lambda: iadd(t, [fresh2, pats[0], m.Echo()]))
check(t.modules[-1] is fresh2 and len(t.patterns) == 1, "pattern failure part-way")
raises(RuntimeError, lambda: iadd(t, [Module()]))
coherent(t, "after failures")
coherent(s, "donor after failures")

# += fills gaps too
t.modules[1] = None
filler = m.Distortion()
t += [filler]
check(filler.index == 1 and t.modules[1] is filler, "+= fills gap")
coherent(t, "after gap fill")

# --- interleave with save / load ---------------------------------------------
s2 = roundtrip(s)
check(len(s2.modules) == len(s.modules), "reload module count")
check(len(s2.patterns) == 3, "reload pattern count")
check(isinstance(s2.patterns[2], PatternClone), "reload clone")
coherent(s2, "reloaded")
raises(ModuleOwnershipError, lambda: iadd(s2, mods[0]))
raises(PatternOwnershipError, lambda: iadd(s, s2.patterns[0]))
n = s2.new_module(m.Generator)
check(n.index == len(s.modules), "new module after reload goes to end")
check(s2.attach_pattern(Pattern()) == 3, "new pattern after reload")
coherent(s2, "reloaded + new")

path = os.path.join("tests", "files", "issue54", "test1.sunvox")
if os.path.exists(path):
    lp = read_sunvox_file(path)
    coherent(lp, "issue54")
    gaps = [i for i, x in enumerate(lp.modules) if x is None]
    size = len(lp.modules)
    added = [m.Amplifier() for _ in range(len(gaps) + 2)]
    lp += added
    check(
        [x.index for x in added] == gaps + [size, size + 1],
        "loaded project: gaps filled lowest first, then end",
    )
    coherent(lp, "issue54 after +=")
    lp2 = roundtrip(lp)
    coherent(lp2, "issue54 reloaded")
    check(None not in lp2.modules, "no gaps after reload")

if failures:
    print("FAIL")
    for f in failures:
        print(" -", f)
    sys.exit(1)
print("PASS")
