"""Behaviour check for Range.validate / WarnOnlyRange, the strict/lenient switch in
rv.errors, and the out-of-range reporting of Controller.set_initial / Module.set_raw."""
import logging
import sys

import rv.api  # noqa: F401
from rv import errors
from rv.controller import (
    CompactRange,
    Controller,
    DependentRange,
    NoOffsetRange,
    Range,
    WarnOnlyRange,
)
from rv.errors import (
    ControllerValueError,
    RadiantVoicesError,
    RangeValidationError,
    override_raise_controller_value_errors,
    raise_or_warn_controller_value_validation,
)
from rv.modules import MODULE_CLASSES

failures = []


def check(cond, msg):
    if not cond:
        failures.append(msg)


class Capture(logging.Handler):
    def __init__(self):
        super().__init__(level=logging.DEBUG)
        self.records = []

    def emit(self, record):
        self.records.append(record)


capture = Capture()
root = logging.getLogger("rv")
root.addHandler(capture)
root.setLevel(logging.DEBUG)
root.propagate = False


def drain():
    out, capture.records = capture.records, []
    return out


# ---- Range family -------------------------------------------------------------------
class LoudRange(WarnOnlyRange):
    pass


class TightRange(CompactRange):
    pass


for cls in (Range, CompactRange, NoOffsetRange, TightRange):
    for lo, hi in ((0, 256), (-128, 128), (1, 1), (-5, -2)):
        r = cls(lo, hi)
        for v in (lo, hi, (lo + hi) // 2):
            check(r(v) == v and r.validate(v) is None, f"{cls.__name__}({lo},{hi})({v})")
        check(r(float(lo)) == float(lo), "float in range passes through")
        for v in (lo - 1, hi + 1, lo - 1000, hi + 0.5):
            for fn in (r, r.validate):
                try:
                    fn(v)
                except RangeValidationError as e:
                    check(e.args == (v, lo, hi), f"{cls.__name__} error args {e.args}")
                    check(type(e) is RangeValidationError, "error type")
                    check(isinstance(e, RadiantVoicesError) and not isinstance(e, ValueError), "error bases")
                    check(e.__cause__ is None, "no cause on range error")
                else:
                    check(False, f"{cls.__name__}({lo},{hi}) accepted {v}")
        check(drain() == [], f"{cls.__name__}: nothing logged")

for cls in (WarnOnlyRange, LoudRange):
    r = cls(0, 256)
    check(r(0) == 0 and r(256) == 256 and drain() == [], f"{cls.__name__}: in range silent")
    for v in (-1, 257, 99999):
        check(r(v) == v, f"{cls.__name__}: out-of-range value passes through")
        check(r.validate(v) is None, f"{cls.__name__}: validate returns None")
        recs = drain()
        check(len(recs) == 2, f"{cls.__name__}: one warning per validation")
        for rec in recs:
            check(rec.levelno == logging.WARNING and rec.name == "rv.controller", "warn-only record origin")
            check(rec.getMessage() == str((v, 0, 256)), f"warn-only message {rec.getMessage()!r}")
            check(not rec.exc_info, "warn-only has no exc_info")

check(Range(0, 1) == Range(0, 1) and Range(0, 1) != WarnOnlyRange(0, 1), "Range equality by type")
check(repr(WarnOnlyRange(0, 4)) == "<WarnOnlyRange 0..4>", "repr")
check(WarnOnlyRange(-4, 4).to_raw_value(-4) == 0 and WarnOnlyRange(-4, 4).from_raw_value(0) == -4, "raw conv")


# ---- raise_or_warn_controller_value_validation ------------------------------------
class FakeLog:
    def __init__(self):
        self.calls = []

    def warning(self, *a, **k):
        self.calls.append((a, k))
        return "ignored"


cause = RangeValidationError(9, 0, 1)
fake = FakeLog()
check(errors.RAISE_CONTROLLER_VALUE_ERRORS is True, "strict by default")
for args in (("msg",), ("a %s", "b"), ()):
    try:
        raise_or_warn_controller_value_validation(cause, fake, *args)
    except ControllerValueError as e:
        check(e.args == args, "strict: args forwarded")
        check(e.__cause__ is cause and e.__suppress_context__, "strict: chained to cause")
        check(isinstance(e, ValueError) and isinstance(e, RadiantVoicesError), "strict: error bases")
    else:
        check(False, "strict mode did not raise")
check(fake.calls == [], "strict: nothing logged")
with override_raise_controller_value_errors(False):
    check(errors.RAISE_CONTROLLER_VALUE_ERRORS is False, "override off")
    res = raise_or_warn_controller_value_validation(cause, fake, "a %s", "b")
    check(res is None, "lenient returns None")
    with override_raise_controller_value_errors(True):
        try:
            raise_or_warn_controller_value_validation(cause, fake, "x")
        except ControllerValueError:
            pass
        else:
            check(False, "nested strict override did not raise")
    check(errors.RAISE_CONTROLLER_VALUE_ERRORS is False, "nested override restored")
check(errors.RAISE_CONTROLLER_VALUE_ERRORS is True, "override restored")
check(fake.calls == [(("a %s", "b"), {"exc_info": cause})], f"lenient log call {fake.calls}")
try:
    with override_raise_controller_value_errors(False):
        raise KeyError("boom")
except KeyError:
    pass
check(errors.RAISE_CONTROLLER_VALUE_ERRORS is True, "override restored after exception")

# ---- every fixed-range controller of every module -----------------------------------
n = 0
for mcls in sorted(set(MODULE_CLASSES.values()), key=lambda c: c.__name__):
    m = mcls(index=0x1F)
    for k, c in mcls.controllers.items():
        t = c.instance_value_type(m)
        if type(t) not in (Range, CompactRange, NoOffsetRange):
            continue
        inner = c.controller(m)
        if inner is not c:
            continue  # MetaModule user-defined proxies need a project to be assignable
        n += 1
        for v in (t.min, t.max):
            setattr(m, k, v)
            check(getattr(m, k) == v, f"{mcls.__name__}.{k}={v}")
        setattr(m, k, t.min)
        for v in (t.min - 1, t.max + 1):
            expected = "1f({}).{}={} is not within [{}, {}]".format(m.mtype, inner.name, v, t.min, t.max)
            try:
                setattr(m, k, v)
            except ControllerValueError as e:
                check(e.args == (expected,), f"{mcls.__name__}.{k}: message {e.args!r}")
                check(type(e.__cause__) is RangeValidationError and e.__cause__.args == (v, t.min, t.max),
                      f"{mcls.__name__}.{k}: cause")
            else:
                check(False, f"{mcls.__name__}.{k}={v} accepted in strict mode")
            check(getattr(m, k) == t.min, f"{mcls.__name__}.{k}: previous value kept")
            check(drain() == [], "strict: nothing logged")
            with override_raise_controller_value_errors(False):
                setattr(m, k, v)
            check(getattr(m, k) == v, f"{mcls.__name__}.{k}: lenient stores {v}")
            recs = drain()
            check(len(recs) == 1, f"{mcls.__name__}.{k}: lenient logs once")
            if recs:
                rec = recs[0]
                check(rec.name == "rv.controller" and rec.levelno == logging.WARNING, "lenient record origin")
                check(rec.getMessage() == expected, f"lenient message {rec.getMessage()!r}")
                check(rec.exc_info and rec.exc_info[0] is RangeValidationError, "lenient exc_info")
            setattr(m, k, t.min)
        # raw path (file loading)
        raw_bad = t.to_raw_value(t.max) + 1
        bad = t.from_raw_value(raw_bad)
        expected = "1f({}).{}={} is not within [{}, {}]".format(m.mtype, k, bad, t.min, t.max)
        try:
            m.set_raw(k, raw_bad)
        except ControllerValueError as e:
            check(e.args == (expected,), f"{mcls.__name__}.set_raw({k}) message {e.args!r}")
        else:
            check(False, f"{mcls.__name__}.set_raw({k}, {raw_bad}) accepted")
        check(m.controller_values[k] == t.min, "set_raw strict keeps previous")
        with override_raise_controller_value_errors(False):
            m.set_raw(k, raw_bad)
        check(m.controller_values[k] == bad, "set_raw lenient stores")
        recs = drain()
        check(len(recs) == 1 and recs[0].name == "rv.modules.module" and recs[0].getMessage() == expected,
              f"{mcls.__name__}.set_raw({k}) lenient log")
        m.set_raw(k, t.to_raw_value(t.max))
        check(m.controller_values[k] == t.max, "set_raw max")
check(n > 300, f"too few ranged controllers visited: {n}")

# index None formats as 0
from rv.modules.amplifier import Amplifier

try:
    Amplifier(volume=-1)
except ControllerValueError as e:
    check(e.args == ("0(Amplifier).volume=-1 is not within [0, 1024]",), f"message with no index: {e.args}")
else:
    check(False, "Amplifier(volume=-1) accepted")

# Warn-only dependent ranges (Delay): never raise, log plain tuple text
from rv.modules.delay import Delay

d = Delay()
d.delay_l = 300
check(d.delay_l == 300, "Delay warn-only stores")
recs = drain()
check(len(recs) == 1 and recs[0].getMessage() == "(300, 0, 256)", "Delay warn-only log")
d.delay_unit = Delay.DelayUnit.ms
d.delay_l = 300
check(drain() == [], "Delay: in range after unit change")
d.set_raw("delay_r", 5000)
check(d.delay_r == 5000 and [r.getMessage() for r in drain()] == ["(5000, 0, 4000)"], "Delay set_raw warn-only")

# enum / bool / names on the descriptor
from rv.modules.smooth import Smooth

s = Smooth()
s.mode = "lp_filter"
check(s.mode is Smooth.Mode.lp_filter, "enum by name")
s.mode = 0
check(s.mode is Smooth.Mode.linear, "enum by value")
for bad in ("nope", 5):
    try:
        s.mode = bad
    except (KeyError, ValueError) as e:
        check(not isinstance(e, ControllerValueError), "enum errors are not controller-value errors")
    else:
        check(False, f"Smooth.mode={bad!r} accepted")
    check(s.mode is Smooth.Mode.linear, "enum: previous kept")
s.fall_eq_rise = 1
check(s.fall_eq_rise is True, "bool")

if failures:
    print("FAIL")
    for f in failures[:40]:
        print("  ", f)
    sys.exit(1)
print("PASS")
