"""Behaviour check for Module.options_chunks / specialized_iff_chunks.

Compares the written options record (CHNM + CHDT) of every option-bearing
module type with an independent reference packer, for every single-option
value, every pair of options, random full assignments, raw (unmasked /
negative / bool) stored values and error cases; also checks the bytes that end
up in a written .sunsynth file.
"""
import io
import itertools
import random
import struct
import sys
import types

from rv.api import m
from rv.modules.module import Chunk, Module
from rv.option import Option
from rv.synth import Synth

failures = []


def check(cond, msg):
    if not cond:
        failures.append(msg)


CLASSES = [m.MetaModule, m.MultiSynth, m.AnalogGenerator, m.Sampler, m.Sound2Ctl]
EXPECTED_LEN = {"MetaModule": 8, "MultiSynth": 8, "AnalogGenerator": 14, "Sampler": 8, "Sound2Ctl": 2}
EXPECTED_CHNM = {"MetaModule": 2, "MultiSynth": 1, "AnalogGenerator": 1, "Sampler": 0x101, "Sound2Ctl": 0}


def reference_record(cls, stored):
    """Independent packer: place each masked value bit by bit."""
    length = 0
    bits = {}
    for opt in cls.options.values():
        length = max(length, opt.byte + 1)
        v = int(stored[opt.name])
        for i in range(opt.size):
            if (v >> i) & 1:
                bits[(opt.byte, opt.bit + i)] = 1
    out = bytearray(length)
    for (byte, bit) in bits:
        out[byte] |= 1 << bit
    return bytes(out)


def written(mod):
    chunks = list(mod.options_chunks())
    check(len(chunks) == 2, "two chunks")
    check(chunks[0][0] == b"CHNM" and chunks[1][0] == b"CHDT", "chunk order")
    check(type(chunks[0][1]) is bytes and type(chunks[1][1]) is bytes, "chunk payload types")
    check(list(mod.specialized_iff_chunks()) == chunks or type(mod).specialized_iff_chunks
          is not Module.specialized_iff_chunks, "specialized_iff_chunks delegates")
    return chunks[0][1], chunks[1][1]


# disjoint bits
for cls in CLASSES:
    seen = {}
    for opt in cls.options.values():
        for i in range(opt.size):
            key = (opt.byte, opt.bit + i)
            check(key not in seen, f"{cls.__name__}: {opt.name} overlaps {seen.get(key)}")
            check(opt.bit + i < 8, "option inside its byte")
            seen[key] = opt.name

# defaults
DEFAULTS = {
    "MetaModule": bytes(8),
    "MultiSynth": bytes(8),
    "AnalogGenerator": bytes(14),
    "Sampler": bytes(8),
    "Sound2Ctl": b"\x00\x01",
}
for cls in CLASSES:
    mod = cls()
    chnm, chdt = written(mod)
    check(chnm == struct.pack("<I", EXPECTED_CHNM[cls.__name__]), f"{cls.__name__} chnm")
    check(chdt == DEFAULTS[cls.__name__], f"{cls.__name__} default record {chdt!r}")
    check(len(chdt) == EXPECTED_LEN[cls.__name__], f"{cls.__name__} record length")
    check(chdt == reference_record(cls, mod.option_values), "reference agrees on defaults")

# every value of every option, alone
for cls in CLASSES:
    for name, opt in cls.options.items():
        for v in range(2 ** opt.size):
            mod = cls()
            setattr(mod, name, v)
            _, chdt = written(mod)
            check(chdt == reference_record(cls, mod.option_values), f"{cls.__name__}.{name}={v}")
            check(len(chdt) == EXPECTED_LEN[cls.__name__], "length constant")

# all pairs of options, extreme values
for cls in CLASSES:
    for (n1, o1), (n2, o2) in itertools.combinations(cls.options.items(), 2):
        for v1 in {0, 1, 2 ** o1.size - 1}:
            for v2 in {0, 1, 2 ** o2.size - 1}:
                mod = cls()
                setattr(mod, n1, v1)
                setattr(mod, n2, v2)
                _, chdt = written(mod)
                check(chdt == reference_record(cls, mod.option_values), f"{cls.__name__} pair {n1}={v1},{n2}={v2}")

# random full assignments + raw stored values that need masking
rng = random.Random(2011)
for cls in CLASSES:
    for _ in range(40):
        mod = cls()
        for name, opt in cls.options.items():
            setattr(mod, name, rng.randrange(2 ** opt.size))
        _, chdt = written(mod)
        check(chdt == reference_record(cls, mod.option_values), f"{cls.__name__} random")
    for _ in range(40):
        mod = cls()
        for name, opt in cls.options.items():
            mod.option_values[name] = rng.choice([True, False, 0, 1, -1, 255, 256, 1023, -7, rng.randrange(-4096, 4096)])
        _, chdt = written(mod)
        want = {k: (v & (2 ** cls.options[k].size - 1)) for k, v in mod.option_values.items()}
        check(chdt == reference_record(cls, want), f"{cls.__name__} raw masked")

# specific literal expectations
mm = m.MetaModule(user_defined_controllers=27, arpeggiator=True, event_output=False,
                  do_not_receive_notes_from_keyboard=True, auto_bpm_tpl=True,
                  jump_to_rl_pattern_after_last_note_off=True, dummy7=True)
# the constructor applies defaults in name order, so the (default False)
# receive_notes_from_keyboard assignment clears its exclusive partner again
check(written(mm)[1] == bytes([27, 1, 0, 1, 0b10100, 0, 0, 1]), "metamodule ctor literal")
mm.do_not_receive_notes_from_keyboard = True
check(written(mm) == (b"\x02\x00\x00\x00", bytes([27, 1, 0, 1, 0b10110, 0, 0, 1])), "metamodule literal")
mm.user_defined_controllers = 1000
mm.receive_notes_from_keyboard = True
check(written(mm)[1] == bytes([96, 1, 0, 1, 0b10101, 0, 0, 1]), "metamodule clamp+exclusive literal")
ms = m.MultiSynth(active_curve=2, out_port_mode=3, round_pitch_y=True, out_port_mode_random=True)
check(written(ms)[1] == bytes([0, 0, 2, 0, 0b11000100, 1, 0, 0]), "multisynth literal")
ms.active_curve = 7  # kept as 7 in memory, written as 3
check(ms.active_curve == 7 and written(ms)[1][2] == 3, "multisynth masks on write")
sm = m.Sampler(fit_to_pattern=0xA5, record_in_mono=True)
check(written(sm)[1] == bytes([0, 1, 0, 0, 0, 0, 0, 0xA5]), "sampler literal")
sm.fit_to_pattern = 0x1FF
check(written(sm)[1][7] == 0xFF, "sampler 8-bit mask")
ag = m.AnalogGenerator(smooth_frequency_change=False, increased_freq_computation_accuracy=True)
check(written(ag)[1] == bytes([0, 0, 0, 0, 0, 0, 1, 0, 0, 0, 0, 0, 0, 1]), "analog literal")
s2 = m.Sound2Ctl(record_values=True, send_only_changed_values=False)
check(written(s2)[1] == b"\x01\x00", "sound2ctl literal")

# options_chunks is lazy (a generator); nothing happens until iterated
mod = m.Sampler()
del mod.option_values["fit_to_pattern"]
gen = mod.options_chunks()
check(isinstance(gen, types.GeneratorType), "generator")
try:
    next(gen)
except TypeError:
    pass
else:
    check(False, "missing stored value -> TypeError")
mod = m.Sampler()
mod.option_values["record_in_mono"] = 1.5
try:
    list(mod.options_chunks())
except TypeError:
    pass
else:
    check(False, "float stored value -> TypeError")
mod = m.Sampler()
mod.option_values["record_in_mono"] = "x"
try:
    list(mod.specialized_iff_chunks())
except TypeError:
    pass
else:
    check(False, "str stored value -> TypeError")


# synthetic module types: no options, overflowing byte, high byte, byte out of map
class Bare(Module):
    mtype = None
    mgroup = "Test"
    flags = 0


check(list(Bare().specialized_iff_chunks()) == [(None, None)], "no options -> (None, None)")
check(list(Bare().options_chunks()) == [(b"CHNM", b"\0\0\0\0"), (b"CHDT", b"")], "empty record")
gen = Bare().specialized_iff_chunks()
check(isinstance(gen, types.GeneratorType), "specialized is generator")


class Odd(Module):
    mtype = None
    mgroup = "Test"
    flags = 0
    options_chnm = 9
    hi = Option(name="hi", byte=63, bit=7, size=1, default=True)
    mid = Option(name="mid", byte=20, bit=2, size=3, default=5)
    lo = Option(name="lo", byte=0, bit=4, size=4, default=9)


rec = bytearray(64)
rec[63] = 0x80
rec[20] = 5 << 2
rec[0] = 9 << 4
check(list(Odd().specialized_iff_chunks()) == [(b"CHNM", b"\x09\0\0\0"), (b"CHDT", bytes(rec))], "64 byte record")


class Spill(Module):
    mtype = None
    mgroup = "Test"
    flags = 0
    big = Option(name="big", byte=1, bit=6, size=4, default=0)


sp = Spill()
check(list(sp.options_chunks())[1][1] == b"\0\0", "spill zero ok")
sp.big = 3
check(list(sp.options_chunks())[1][1] == b"\0\xc0", "spill fits")
sp.big = 4
try:
    list(sp.options_chunks())
except struct.error:
    pass
else:
    check(False, "value spilling out of its byte -> struct.error")


class TooFar(Module):
    mtype = None
    mgroup = "Test"
    flags = 0
    far = Option(name="far", byte=64, bit=0, size=1, default=False)


try:
    list(TooFar().options_chunks())
except IndexError:
    pass
else:
    check(False, "byte outside map -> IndexError")

# the record as it appears in a written file
for cls in CLASSES:
    mod = cls()
    for name, opt in cls.options.items():
        setattr(mod, name, rng.randrange(2 ** opt.size))
    chnm, chdt = written(mod)
    f = io.BytesIO()
    Synth(mod).write_to(f)
    data = f.getvalue()
    needle = b"CHNM" + struct.pack("<I", 4) + chnm + b"CHDT" + struct.pack("<I", len(chdt)) + chdt
    check(needle in data, f"{cls.__name__} record present in file")

if failures:
    print("FAIL")
    for f_ in failures[:40]:
        print(" -", f_)
    sys.exit(1)
print("PASS")
