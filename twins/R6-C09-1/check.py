import hashlib
import logging
import sys
from enum import Enum

import rv.api  # noqa: F401  (registers every module class)
from rv import errors
from rv.controller import (
    CompactRange,
    Controller,
    DependentRange,
    NoOffsetRange,
    Range,
    WarnOnlyRange,
)
from rv.errors import (
    ControllerValueError,
    RangeValidationError,
    override_raise_controller_value_errors,
)
from rv.modules import MODULE_CLASSES
from rv.modules.module import Module

OBSERVATIONS = []
MISMATCH = set()


def note(*parts):
    OBSERVATIONS.append(" | ".join(str(p) for p in parts))


def check(cond, *msg):
    if not cond:
        print("FAIL:", *msg)
        sys.exit(1)


class Capture(logging.Handler):
    def __init__(self):
        super().__init__(level=logging.DEBUG)
        self.records = []

    def emit(self, record):
        self.records.append(record)

    def drain(self):
        out = [
            (r.name, r.levelname, r.getMessage(), bool(r.exc_info))
            for r in self.records
        ]
        self.records = []
        return out


CAPTURE = Capture()
for logger_name in ("rv.controller", "rv.modules.module"):
    lg = logging.getLogger(logger_name)
    lg.addHandler(CAPTURE)
    lg.setLevel(logging.DEBUG)
    lg.propagate = False


def attempt(fn):
    """Run fn, describe the outcome (value or exception) deterministically."""
    try:
        result = fn()
    except Exception as e:  # noqa: BLE001
        cause = e.__cause__
        return (
            "EXC",
            type(e).__name__,
            repr(e.args),
            type(cause).__name__ if cause is not None else None,
            repr(cause.args) if cause is not None else None,
        )
    return ("OK", repr(result))


EXPECTED_ERRORS = ("ControllerValueError", "KeyError", "ValueError")


def foreign(outcome):
    return outcome[0] == "EXC" and outcome[1] not in EXPECTED_ERRORS


def describe(value):
    return f"{type(value).__name__}:{value!r}"


def candidates(m, name, ctl):
    t = ctl.instance_value_type(m)
    if isinstance(t, Range):
        lo, hi = t.min, t.max
        mid = (lo + hi) // 2
        return t, [lo - 1, lo, lo + 1, mid, hi - 1, hi, hi + 1, lo - 1000, hi + 100000]
    if isinstance(t, type) and issubclass(t, Enum):
        values = []
        for member in t:
            values += [member, member.value, member.name]
        values += ["no_such_member", "", max(x.value for x in t) + 1, -1]
        return t, values
    if t is bool:
        return t, [True, False, 0, 1, 2, "x", ""]
    return t, [0, 1]


def exercise_module_type(mtype, cls):
    fresh = cls()
    check(fresh.controllers is cls.controllers, mtype, "controllers dict identity")
    check(list(fresh.controller_values) != [] or not cls.controllers, mtype)
    check(fresh.controllers_loaded == set(cls.controllers), mtype, "loaded set")
    dependent_seen = False
    order = list(fresh.controller_values)
    independent = [
        k
        for k, c in cls.controllers.items()
        if not isinstance(c.value_type, DependentRange)
    ]
    dependent = [
        k for k, c in cls.controllers.items() if isinstance(c.value_type, DependentRange)
    ]
    check(order == independent + dependent, mtype, "seeding order", order)
    for i, (name, ctl) in enumerate(cls.controllers.items(), 1):
        check(isinstance(ctl, Controller), mtype, name)
        check(ctl.name == name, mtype, name, "name")
        if not (name.startswith("user_defined_") and name != "user_defined_controllers"):
            check(ctl.number == i, mtype, name, "number", ctl.number, i)
            check(ctl.label == name.replace("_", " ").title(), mtype, name, "label")
        default = getattr(fresh, name)
        check(default == ctl.default, mtype, name, "default", default, ctl.default)
        check(fresh.controller_values[name] == ctl.default, mtype, name)
        note(mtype, i, name, ctl.number, repr(ctl.value_type), describe(default))
        if isinstance(ctl.value_type, DependentRange):
            dependent_seen = True
        t, values = candidates(fresh, name, ctl)
        proxy = name.startswith("user_defined_") and name != "user_defined_controllers"
        for strict in (True, False):
            for v in values:
                # attribute assignment
                m = cls()
                before = getattr(m, name)
                with override_raise_controller_value_errors(strict):
                    outcome = attempt(lambda: setattr(m, name, v))
                after = getattr(m, name)
                logs = CAPTURE.drain()
                note(mtype, name, "set", strict, describe(v), outcome, describe(after), logs)
                if proxy or foreign(outcome):
                    # MetaModule user-defined slots proxy to per-instance
                    # controllers; only record what happens.
                    pass
                elif outcome[0] == "EXC":
                    check(after == before and type(after) is type(before), mtype, name, v)
                    if isinstance(t, Range):
                        check(strict, mtype, name, v, "lenient must not raise")
                        check(outcome[1] == "ControllerValueError", mtype, name, outcome)
                        check(outcome[3] == "RangeValidationError", mtype, name, outcome)
                        check(not (t.min <= v <= t.max), mtype, name, v)
                        check(not isinstance(t, WarnOnlyRange), mtype, name, v)
                else:
                    if isinstance(t, Range):
                        check(after == v, mtype, name, v, after)
                        inside = t.min <= v <= t.max
                        if not inside:
                            check(
                                isinstance(t, WarnOnlyRange) or not strict,
                                mtype, name, v, "out-of-range accepted in strict mode",
                            )
                            check(len(logs) == 1 and logs[0][1] == "WARNING", mtype, name, logs)
                        else:
                            check(logs == [], mtype, name, v, logs)
                    elif isinstance(t, type) and issubclass(t, Enum):
                        check(isinstance(after, t), mtype, name, v, after)
                        if isinstance(v, str):
                            check(after is t[v], mtype, name, v)
                        else:
                            check(after == v, mtype, name, v)
                    elif t is bool:
                        check(after is bool(v), mtype, name, v, after)
                # constructor keyword
                with override_raise_controller_value_errors(strict):
                    outcome2 = attempt(lambda: getattr(cls(**{name: v}), name))
                logs2 = CAPTURE.drain()
                note(mtype, name, "kw", strict, describe(v), outcome2, logs2)
                if proxy or foreign(outcome) or foreign(outcome2):
                    # module-specific side effects (callbacks, array-backed
                    # controllers): recorded in the digest, not asserted here.
                    pass
                elif outcome2[0] != outcome[0]:
                    check(False, mtype, name, v, outcome, outcome2)
                elif outcome2[0] == "EXC":
                    check(outcome2[1:] == outcome[1:], mtype, name, v, outcome, outcome2)
                elif outcome2[1] != repr(after):
                    MISMATCH.add((mtype, name))
                # raw round trip
                with override_raise_controller_value_errors(strict):
                    m2 = cls()
                    if outcome[0] == "OK" and not isinstance(v, str):
                        setattr(m2, name, v)
                        CAPTURE.drain()
                        raw = attempt(lambda: m2.get_raw(name))
                        note(mtype, name, "get_raw", strict, describe(v), raw)
                    if isinstance(v, int) and not isinstance(v, (bool, Enum)):
                        m3 = cls()
                        res = attempt(lambda: m3.set_raw(name, v))
                        note(
                            mtype, name, "set_raw", strict, v, res,
                            describe(getattr(m3, name)), CAPTURE.drain(),
                        )
    return dependent_seen


def digest():
    h = hashlib.sha256()
    for line in OBSERVATIONS:
        h.update(line.encode("utf-8"))
        h.update(b"\n")
    return h.hexdigest()


def run_core():
    check(errors.RAISE_CONTROLLER_VALUE_ERRORS is True, "strict by default")
    check(len(MODULE_CLASSES) == 43, "43 module types", len(MODULE_CLASSES))
    total = 0
    any_dependent = False
    for mtype in sorted(MODULE_CLASSES):
        cls = MODULE_CLASSES[mtype]
        total += len(cls.controllers)
        any_dependent |= bool(exercise_module_type(mtype, cls))
    check(total == 603, "controller count", total)
    check(any_dependent, "dependent ranges visited")
    # SpectraVoice's per-harmonic controllers are views on its harmonic arrays,
    # so the constructor re-seeds them; every other pair behaves uniformly.
    check(
        sorted(MISMATCH)
        == [("SpectraVoice", n) for n in ("h_type", "h_volume", "h_width")],
        "constructor/assignment mismatch",
        sorted(MISMATCH),
    )
    check(errors.RAISE_CONTROLLER_VALUE_ERRORS is True, "strictness restored")
    # base Module has no controllers and constructs cleanly
    base = Module()
    check(base.controllers == {} and base.controller_values == {}, "base module")


# --------------------------------------------------------------------------
# Specific to this refactoring: ModuleMeta class set-up (controller numbering,
# options, generated docstrings) and Module.__init__ seeding / common attributes
# --------------------------------------------------------------------------
def run_specific():
    from enum import IntEnum

    from rv.modules.meta import ModuleMeta
    from rv.option import Option

    for mtype in sorted(MODULE_CLASSES):
        cls = MODULE_CLASSES[mtype]
        check(type(cls) is ModuleMeta, mtype)
        check(MODULE_CLASSES[cls.mtype] is cls, mtype)
        note("doc", mtype, hashlib.sha256(cls.__doc__.encode()).hexdigest())
        note("options", mtype, list(cls.options), [o.name for o in cls.options.values()])
        check(all(isinstance(o, Option) for o in cls.options.values()), mtype)
        note(
            "controllers", mtype,
            [(k, c.number, c.label, c._order > 0) for k, c in cls.controllers.items()],
        )
        orders = [c._order for k, c in cls.controllers.items() if not k.startswith("user_defined_")]
        check(orders == sorted(orders), mtype, "definition order")
        for k in dir(cls):
            e = getattr(cls, k)
            if isinstance(e, type) and issubclass(e, Enum):
                # (enums attached after class creation keep their own doc)
                note("enumdoc", mtype, k, hashlib.sha256(repr(e.__doc__).encode()).hexdigest())
                if e.__doc__ is not None:
                    check(e.__doc__.startswith("An enumeration.\n\n" + "=" * 40), mtype, k)
        m = cls()
        note("vars", mtype, list(vars(m)))
        note(
            "common", mtype, m.index, m.parent, m.x, m.y, m.layer, m.mod_scale, m.scale,
            m.color, m.midi_in_always, m.midi_in_channel, m.midi_out_name,
            m.midi_out_channel, m.midi_out_bank, m.midi_out_program, m.name,
            int(m.visualization), m.mod_finetune, m.mod_relative_note,
            m.in_links, m.in_link_slots, m.out_links, m.out_link_slots,
            dict(m.option_values),
        )
        default_name = cls.name if isinstance(cls.name, str) else "Output"  # property there
        check(m.name == default_name, mtype, "default name")
        check(("name" in vars(m)) == isinstance(cls.name, str), mtype, "default name stored")
        check(m.controller_midi_maps == {}, mtype)
        kw = dict(
            index=7, x=1, y=2, layer=3, scale=77, color=(1, 2, 3), name="custom",
            finetune=-5, relative_note=4, midi_in_always=True, midi_in_channel=3,
            midi_out_name="dev", midi_out_channel=2, midi_out_bank=5,
            midi_out_program=6, visualization=0x01020304,
        )
        outcome = attempt(lambda: cls(**kw))
        if outcome[0] == "OK":
            m = cls(**kw)
            note(
                "custom", mtype, m.index, m.x, m.y, m.layer, m.mod_scale, m.scale,
                m.color, m.name, m.mod_finetune, m.mod_relative_note,
                m.midi_in_always, m.midi_in_channel, m.midi_out_name,
                m.midi_out_channel, m.midi_out_bank, m.midi_out_program,
                int(m.visualization), dict(m.controller_values) == dict(cls().controller_values)
                or sorted(k for k in m.controller_values if m.controller_values[k] != cls().controller_values[k]),
            )
            if "scale" in cls.controllers:
                check(m.mod_scale == 256 and m.controller_values["scale"] == 77, mtype)
            else:
                check(m.mod_scale == 77, mtype, "scale kw")
        else:
            note("custom", mtype, outcome)
        m = cls(mod_scale=300, name=None)
        check(m.mod_scale == 300 and m.name == default_name, mtype)
        # option keywords go through the Option descriptor
        for oname, option in cls.options.items():
            for v in (True, False, 0, 1, 3):
                res = attempt(lambda: getattr(cls(**{oname: v}), oname))
                note("option", mtype, oname, v, res)

    # a class built on the fly: numbering follows definition order, not names
    class ScratchShape(IntEnum):
        round = 0
        square = 1

    Shape = ScratchShape

    class Scratch(Module):
        """Scratch doc."""

        mtype = "ScratchC09"
        mgroup = "Misc"
        behaviors = set()
        Shape = ScratchShape
        zeta = Controller((0, 10), 3)
        alpha = Controller(Shape, Shape.square)
        mid = Controller(bool, True)
        beta = Controller((-5, 5), -1)
        flag = Option(name="flag", byte=0, bit=0, size=1, default=False)

    try:
        check(list(Scratch.controllers) == ["zeta", "alpha", "mid", "beta"], "scratch order")
        check([c.number for c in Scratch.controllers.values()] == [1, 2, 3, 4], "numbers")
        check(Scratch.zeta.label == "Zeta" and Scratch.beta.name == "beta", "labels")
        check(list(Scratch.options) == ["flag"], "scratch options")
        check(MODULE_CLASSES["ScratchC09"] is Scratch, "registry")
        note("scratchdoc", Scratch.__doc__)
        note("scratchenum", Scratch.Shape.__doc__)
        s = Scratch(beta=5, alpha="round")
        check((s.zeta, s.alpha, s.mid, s.beta, s.flag) == (3, Shape.round, True, 5, False), "scratch values")
        check(attempt(lambda: Scratch(beta=6))[1] == "ControllerValueError", "scratch range")
        with override_raise_controller_value_errors(False):
            check(Scratch(beta=6).beta == 6, "scratch lenient")
        CAPTURE.drain()

        class ScratchChild(Scratch):
            mtype = "ScratchC09Child"
            extra = Controller((0, 1), 0)

        check(list(ScratchChild.controllers) == ["zeta", "alpha", "mid", "beta", "extra"], "child")
        check(ScratchChild.extra.number == 5, "child number")
        note("childdoc", ScratchChild.__doc__)
    finally:
        MODULE_CLASSES.pop("ScratchC09", None)
        MODULE_CLASSES.pop("ScratchC09Child", None)


EXPECTED_DIGEST = "8937143a85b598fa5db83e38f6198512d53398a41bab230c6143adce1500483a"

if __name__ == "__main__":
    run_core()
    run_specific()
    actual = digest()
    if "--print-digest" in sys.argv:
        print(len(OBSERVATIONS), actual)
        sys.exit(0)
    check(actual == EXPECTED_DIGEST, "observation digest changed", actual)
    print("PASS", len(OBSERVATIONS), "observations")
