"""Behaviour check for the MetaModule / Sampler.Envelope tidy-up (property C17).

Run from the repository root with PYTHONPATH=<root>/src/python.
Passes on the unchanged tree and with the patch applied.
"""
import logging
import struct
import sys
from io import BytesIO
from struct import pack

from rv.api import m
from rv.controller import Range
from rv.modules.metamodule import MetaModule, UserDefined, UserDefinedProxy
from rv.modules.module import Chunk
from rv.modules.sampler import Sampler
from rv.readers.reader import read_sunvox_file
from rv.synth import Synth

logging.disable(logging.CRITICAL)

failures = []


def check(cond, msg):
    if not cond:
        failures.append(msg)


def raises(exc, fn, msg):
    try:
        fn()
    except exc:
        return
    except Exception as e:  # noqa: BLE001
        check(False, f"{msg}: expected {exc.__name__}, got {type(e).__name__}: {e}")
        return
    check(False, f"{msg}: expected {exc.__name__}, nothing raised")


def synth_bytes(mod):
    f = BytesIO()
    Synth(mod).write_to(f)
    return f.getvalue()


def attach_flags(mm):
    return [c.attached(mm) for c in mm.user_defined]


# ================================================================ MetaModule
A, B = m.MetaModule(), m.MetaModule()
check(len(A.user_defined) == 96 and type(A.user_defined) is list, "96 user defined")
check(all(type(c) is UserDefined for c in A.user_defined), "UserDefined objects")
check(A.user_defined is not B.user_defined, "user_defined list shared")
check(not {id(c) for c in A.user_defined} & {id(c) for c in B.user_defined},
      "UserDefined objects shared between instances")
check([c.name for c in A.user_defined] == [f"user_defined_{i}" for i in range(1, 97)],
      "names")
check([c.number for c in A.user_defined] == list(range(6, 102)), "numbers")
check(all(c.default == 0 and c.value_type == Range(0, 44100) for c in A.user_defined),
      "defaults")
check(attach_flags(A) == [False] * 96, "nothing attached initially")
check(A.project is not B.project and A.project.metamodule is A, "own project")
check(A.mappings is not B.mappings and A.mappings.values is not B.mappings.values,
      "own mappings")
check(len({id(x) for x in A.mappings.values}) == 96, "96 distinct Mapping objects")
check(A.chnk == 104, "chnk")
orders = [c._order for c in A.user_defined]
check(orders == list(range(orders[0], orders[0] + 96)), "creation order consecutive")

# attachment is per instance
b_before = synth_bytes(B)
for count in (0, 1, 3, 95, 96, 2):
    A.user_defined_controllers = count
    check(attach_flags(A) == [True] * count + [False] * (96 - count), f"attach {count}")
    check(attach_flags(B) == [False] * 96, f"attach {count} leaked into B")
check(synth_bytes(B) == b_before, "B bytes changed by attaching on A")
# out of band counts
for raw, expect in ((-3, 0), (200, 96), (True, 1), (0, 0)):
    A.option_values["user_defined_controllers"] = raw
    A.recompute_controller_attachment()
    check(attach_flags(A) == [True] * expect + [False] * (96 - expect), f"raw count {raw}")
A.user_defined_controllers = 4
for bad in (2.5, None, "3"):
    A.option_values["user_defined_controllers"] = bad
    raises(TypeError, A.recompute_controller_attachment, f"count {bad!r}")
    check(attach_flags(A) == [True] * 4 + [False] * 92, "failed recompute changes nothing")
A.user_defined_controllers = 200  # option clamps to 96
check(A.user_defined_controllers == 96 and all(attach_flags(A)), "clamped to 96")
A.user_defined_controllers = 3

# Setting a user defined controller is forwarded to its mapped target, so
# give both metamodules an embedded Amplifier and map everything to "volume".
for mm in (A, B):
    target = mm.project.new_module(m.Amplifier)
    for mapping in mm.mappings.values:
        mapping.module, mapping.controller = target.index, 0

# attribute access: user_defined_N names
check(A.user_defined_1 == 0 and A.user_defined_96 == 0, "read user_defined_N")
A.user_defined_2 = 234
check(A.user_defined_2 == 234 and A.controller_values["user_defined_2"] == 234, "set N")
check(B.user_defined_2 == 0, "set N leaked into B")
check("user_defined_2" not in vars(A), "controller not stored in __dict__")
raises(KeyError, lambda: A.user_defined_97, "user_defined_97 read")
raises(KeyError, lambda: setattr(A, "user_defined_0", 1), "user_defined_0 write")
raises(KeyError, lambda: A.user_defined_1x, "prefix match read")
raises(AttributeError, lambda: A.nothing_here, "unknown attribute")
raises(AttributeError, lambda: A.user_defined_, "no digits")
check(isinstance(MetaModule.user_defined_1, UserDefinedProxy), "class access gives proxy")
A.plain = 5
check(vars(A)["plain"] == 5 and A.plain == 5, "plain attribute")

# aliases built from labels of attached controllers
check(A.user_defined_aliases == [None, None, None], "aliases without labels")
A.user_defined[0].label = "Cut Off"
A.user_defined[1].label = "2nd Thing"
A.user_defined[2].label = "???"
A.user_defined[5].label = "Detached"
check(A.user_defined_aliases == ["u_cut_off", "u__2nd_thing", "u__"], "aliases")
check(B.user_defined_aliases == [], "aliases leaked into B")
check(A.u_cut_off == 0 and A.u__2nd_thing == 234, "read through alias")
A.u_cut_off = 77
check(A.user_defined_1 == 77 and "u_cut_off" not in vars(A), "write through alias")
raises(AttributeError, lambda: A.u_detached, "detached alias")
raises(AttributeError, lambda: B.u_cut_off, "alias on other instance")
B.u_cut_off = 5  # no alias on B: an ordinary attribute
check(vars(B).get("u_cut_off") == 5 and B.user_defined_1 == 0, "plain attr on B")
check(A.user_defined_1 == 77, "B attribute leaked into A")
del B.__dict__["u_cut_off"]
A.user_defined_controllers = 6
check(A.user_defined_aliases
      == ["u_cut_off", "u__2nd_thing", "u__", None, None, "u_detached"], "aliases 6")
A.u_detached = 9
check(A.user_defined_6 == 9, "alias position maps to the right controller")
A.user_defined[3].label = "Cut Off"  # duplicate label: first one wins
A.u_cut_off = 78
check(A.user_defined_1 == 78 and A.user_defined_4 == 0, "duplicate alias")
A.user_defined[3].label = None
names = dir(A)
check(all(n in names for n in ("u_cut_off", "u__2nd_thing", "u__", "u_detached")), "dir")
check(None not in names and "mappings" in names, "dir filters None")
check("u_cut_off" not in dir(B), "dir of B")

# half constructed objects must not recurse
raw = object.__new__(MetaModule)
check(not hasattr(raw, "user_defined"), "hasattr on raw object")
check(raw.user_defined_aliases == [], "aliases on raw object")
raises(AttributeError, lambda: raw.whatever, "getattr on raw object")
raises(AttributeError, lambda: raw.user_defined_3, "user_defined_N on raw object")
raw.thing = 1
check(vars(raw) == {"thing": 1}, "setattr on raw object")

# labels: writing, loading
chunks = list(A.specialized_iff_chunks())
labels = [
    (struct.unpack("<I", chunks[i][1])[0], chunks[i + 1][1])
    for i in range(0, len(chunks) - 1, 2)
    if chunks[i][0] == b"CHNM" and struct.unpack("<I", chunks[i][1])[0] >= 8
]
check(labels == [(8, b"Cut Off\0"), (9, b"2nd Thing\0"), (10, b"???\0"),
                 (13, b"Detached\0")], f"label chunks {labels}")
for chnm, chdt, expect in (
    (8, b"Name\0", "Name"),
    (9, b"NoNul", "NoNul"),
    (10, b"A\0B\0C", "A"),
    (11, b"\0junk", ""),
    (12, b"", ""),
    (103, bytearray(b"last\0"), "last"),
):
    ch = Chunk()
    ch.chnm, ch.chdt = chnm, chdt
    B.load_chunk(ch)
    check(B.user_defined[chnm - 8].label == expect, f"load_label {chdt!r}")
    check(A.user_defined[chnm - 8].label != expect or expect in ("",), "label leak")
ch = Chunk()
ch.chnm, ch.chdt = 104, b"x\0"
raises(IndexError, lambda: B.load_chunk(ch), "label chnm beyond 96")
for c in B.user_defined:
    c.label = None

# mappings chunk: padding creates distinct objects, per instance
ch = Chunk()
ch.chnm, ch.chdt = 1, pack("<HHHH", 1, 2, 3, 4)
B.load_chunk(ch)
vals = B.mappings.values
check(len(vals) == 96 and (vals[0].module, vals[0].controller) == (1, 2), "mapping 0")
check((vals[1].module, vals[1].controller, vals[2].module) == (3, 4, 0), "mapping 1/2")
check(len({id(v) for v in vals}) == 96, "padded mappings are distinct objects")
vals[50].module = 9
check(vals[51].module == 0 and A.mappings.values[50].module == 1, "padding independent")
ch.chdt = b""
B.load_chunk(ch)
check(len(B.mappings.values) == 96 and B.mappings.values[0].module == 0, "empty mappings")
ch.chdt = pack("<200H", *range(200))  # 100 mappings: more than 96 are kept as is
B.load_chunk(ch)
check(len(B.mappings.values) == 100 and B.mappings.values[99].controller == 199,
      "long mappings")
B.mappings.reset()
check(len(B.mappings.values) == 96, "reset mappings")


# embedded project wiring
def build():
    mm = m.MetaModule()
    amp = mm.project.new_module(m.Amplifier, volume=300)
    lfo = mm.project.new_module(m.Lfo)
    mm.user_defined_controllers = 4
    mm.mappings.values[0] = MetaModule.Mapping((amp.index, 0))  # volume
    mm.mappings.values[1] = MetaModule.Mapping((lfo.index, 3))  # freq (dependent)
    mm.mappings.values[2] = MetaModule.Mapping((amp.index, 2))  # dc_offset -128..128
    mm.mappings.values[3] = MetaModule.Mapping((0, 0))  # output: skipped
    mm.mappings.values[4] = MetaModule.Mapping((amp.index, 1))  # beyond the count
    mm.user_defined[0].label = "Vol"
    return mm, amp, lfo


X, x_amp, x_lfo = build()
Y, y_amp, y_lfo = build()
y_before = synth_bytes(Y)
X.update_user_defined_controllers()
ud = X.user_defined
check(ud[0].value_type == Range(0, 1024) and ud[0].default == 256, "ud1 type/default")
check(X.user_defined_1 == 300, "ud1 value copied from target")
check(ud[1].value_type == m.Lfo.controllers["freq"].instance_value_type(x_lfo), "ud2 type")
check(X.user_defined_2 == 256, "ud2 value")
check(ud[2].value_type == Range(-128, 128) and X.user_defined_3 == 0, "ud3")
check(ud[3].value_type == Range(0, 44100) and ud[4].value_type == Range(0, 44100),
      "skipped mappings keep defaults")
check(all(c.value_type == Range(0, 44100) for c in Y.user_defined), "Y types untouched")
check(Y.user_defined_1 == 0 and synth_bytes(Y) == y_before, "Y untouched")
# invalid mappings are skipped silently
X.mappings.values[3] = MetaModule.Mapping((99, 0))  # no such module
X.update_user_defined_controllers()
check(ud[3].value_type == Range(0, 44100), "module out of range skipped")
X.mappings.values[3] = MetaModule.Mapping((x_amp.index, 50))  # no such controller
X.update_user_defined_controllers()
check(ud[3].value_type == Range(0, 44100), "controller out of range skipped")
X.project.modules.append(None)
X.mappings.values[3] = MetaModule.Mapping((len(X.project.modules) - 1, 0))
X.update_user_defined_controllers()
check(ud[3].value_type == Range(0, 44100), "empty module slot skipped")
X.project.modules.pop()
X.mappings.values[3] = MetaModule.Mapping((0, 0))
X.option_values["user_defined_controllers"] = 200  # never equals an index: all visited
X.update_user_defined_controllers()
check(ud[4].value_type == Range(-128, 128), "count beyond 96 visits all mappings")
ud[4].value_type = Range(0, 44100)
X.user_defined_controllers = 4

# embedded controller change travels up, user defined change travels down.
# NB: upwards a mapping is matched on the 1-based controller *number*, while
# downwards mapping.controller is used as a 0-based index.
x_amp.volume = 100  # number 1 -> mapping 5 (amp, 1) -> pushed down to balance
check(X.user_defined_5 == 100 and x_amp.balance == -28, "embedded volume change")
check(X.user_defined_1 == 300, "mapping (amp, 0) not matched by number 1")
check((Y.user_defined_5, y_amp.volume, y_amp.balance) == (0, 300, 0), "leak into Y")
x_amp.balance = 5  # number 2 -> mapping 3 (amp, 2) -> dc_offset
check(X.user_defined_3 == 5 and x_amp.dc_offset == -123, "embedded balance change")
x_lfo.amplitude = 7  # number 3 -> mapping 2 (lfo, 3) -> freq
check(X.user_defined_2 == 7 and x_lfo.freq == 8, "embedded lfo change")
x_lfo.waveform = "saw"  # number 5: not mapped
X.user_defined_1 = 100
check(x_amp.volume == 100 and y_amp.volume == 300, "metamodule change -> embedded")
X.user_defined_3 = 28  # Range with negative minimum: offset by min on the way down
check(x_amp.dc_offset == -100, "down propagation adds range minimum")
X.u_vol = 101
check(x_amp.volume == 101, "alias change -> embedded")
check(synth_bytes(Y) == y_before, "Y bytes changed by X traffic")
# duplicate mappings are all updated
X.mappings.values[3] = MetaModule.Mapping((x_amp.index, 1))
X.on_embedded_controller_changed(x_amp, m.Amplifier.controllers["volume"], 9)
check((X.user_defined_1, X.user_defined_4, X.user_defined_5) == (101, 9, 9),
      f"duplicate mappings {(X.user_defined_1, X.user_defined_4, X.user_defined_5)}")
check(x_amp.balance == -119, "duplicate mappings pushed down")
X.on_embedded_controller_changed(y_amp, m.Amplifier.controllers["volume"], 11)
check(X.user_defined_4 == 11, "match is by module index, not identity")
X.on_embedded_controller_changed(x_lfo, m.Amplifier.controllers["inverse"], 1)
check(X.user_defined_4 == 11 and X.user_defined_2 == 7, "no match, nothing set")
X.mappings.values[3] = MetaModule.Mapping((0, 0))
# a match beyond the 96 controllers is an error
X.mappings.values.extend(MetaModule.Mapping((x_lfo.index, 2)) for _ in range(2))
raises(IndexError,
       lambda: X.on_embedded_controller_changed(
           x_lfo, m.Lfo.controllers["type"], 1), "match beyond 96")
del X.mappings.values[96:]

# save / load / clone
xb = synth_bytes(X)
L1 = read_sunvox_file(BytesIO(xb)).module
L2 = read_sunvox_file(BytesIO(xb)).module
check(synth_bytes(L1) == xb and synth_bytes(L2) == xb, "reload is stable")
check(L1.user_defined[0].label == "Vol" and L1.u_vol == X.user_defined_1, "label loaded")
check(attach_flags(L1) == [True] * 4 + [False] * 92, "attachment loaded")
check(L1.user_defined[0].value_type == Range(0, 1024), "types loaded")
check(L1.user_defined[0] is not L2.user_defined[0], "loads share controllers")
L1.user_defined_controllers = 10
L1.user_defined[0].label = "Other"
L1.user_defined_1 = 1
L1.mappings.values[0].controller = 1
check(synth_bytes(L2) == xb and synth_bytes(X) == xb, "mutating one load leaked")
C = X.clone()
check(synth_bytes(C) == xb, "clone bytes")
C.user_defined_controllers = 1
C.user_defined[0].label = "Clone"
C.project.modules[1].volume = 1
check(synth_bytes(X) == xb and attach_flags(X) == [True] * 4 + [False] * 92,
      "clone -> original leak")
cb = synth_bytes(C)
X.user_defined_controllers = 7
X.user_defined[1].label = "More"
check(synth_bytes(C) == cb and C.user_defined_aliases == ["u_clone"],
      "original -> clone leak")
check(synth_bytes(m.MetaModule()) == b_before, "fresh metamodule bytes changed")

# ========================================================== Sampler.Envelope
ENVELOPES = (
    (Sampler.VolumeEnvelope, (), 0x102),
    (Sampler.PanningEnvelope, (), 0x103),
    (Sampler.PitchEnvelope, (), 0x104),
    (Sampler.EffectControlEnvelope, (0x105,), 0x105),
    (Sampler.EffectControlEnvelope, (0x108,), 0x108),
)
EXPECTED_STATE = {
    Sampler.VolumeEnvelope: (True, True, False, 3),
    Sampler.PanningEnvelope: (False, False, False, 0),
    Sampler.PitchEnvelope: (False, False, False, 0),
    Sampler.EffectControlEnvelope: (False, False, False, 0),
}


def expected_chdt(env):
    lo = env.range[0]
    out = pack("<HBBB", env.bitmask, env.ctl_index, env.gain_pct, env.velocity)
    out += b"\0\0\0"
    out += pack("<HHHH", len(env.points), env.sustain_point, env.loop_start_point,
                env.loop_end_point)
    out += b"\0\0\0\0"
    for x, y in env.points:
        out += pack("<HH", x, y - lo)
    return out


def expected_point_bytes(env):
    xs = [x for x, _ in env.points][:12]
    ys = [y // 0x200 for _, y in env.points][:12]
    xs += [0] * (12 - len(xs))
    ys += [0] * (12 - len(ys))
    off = env.range[0] // 0x200
    flat = []
    for x, y in zip(xs, ys):
        flat += [x, y - off]
    return pack("<24H", *flat)


for cls, args, chnm in ENVELOPES:
    name = cls.__name__
    initial = list(cls.initial_points)
    e1, e2 = cls(*args), cls(*args)
    check(e1.chnm == chnm, f"{name}: chnm")
    check(e1.points == initial and e1.points is not cls.initial_points, f"{name}: copy")
    check(e1.points is not e2.points, f"{name}: points shared")
    enable, sustain, loop, mask = EXPECTED_STATE[cls]
    check((e1.enable, e1.sustain, e1.loop) == (enable, sustain, loop), f"{name}: flags")
    check(e1.bitmask == mask and type(e1.bitmask) is int, f"{name}: bitmask")
    check((e1.sustain_point, e1.loop_start_point, e1.loop_end_point) == (0, 0, 0),
          f"{name}: point indexes")
    check((e1.ctl_index, e1.gain_pct, e1.velocity, e1.loaded) == (0, 100, 0, False),
          f"{name}: misc state")
    state = dict(vars(e1))
    state.pop("chnm", None)
    check(sorted(state) == sorted(
        ["points", "sustain_point", "loop_start_point", "loop_end_point", "enable",
         "sustain", "loop", "ctl_index", "gain_pct", "velocity", "loaded"]),
        f"{name}: instance attributes {sorted(state)}")
    chunks2 = list(e2.chunks())
    pb2 = e2.point_bytes
    check(chunks2 == [(b"CHNM", pack("<I", chnm)), (b"CHDT", expected_chdt(e2))],
          f"{name}: default chunks")
    check(pb2 == expected_point_bytes(e2) and len(pb2) == 48, f"{name}: point_bytes")
    # mutate e1 in place
    e1.points.append((0x200, e1.range[0] + 0x1234))
    e1.points[0] = (1, e1.range[0])
    e1.enable, e1.loop, e1.gain_pct, e1.sustain_point = True, True, 50, 2
    check(e2.points == initial and cls.initial_points == initial, f"{name}: leak")
    check(list(e2.chunks()) == chunks2 and e2.point_bytes == pb2, f"{name}: e2 bytes")
    check(cls(*args).points == initial, f"{name}: fresh instance")
    check(list(e1.chunks())[1][1] == expected_chdt(e1), f"{name}: mutated chunks")
    check(e1.point_bytes == expected_point_bytes(e1), f"{name}: mutated point_bytes")
    # more than 12 points: only the first 12 go into the legacy block
    e1.points = [(i, e1.range[0] + i * 0x200) for i in range(20)]
    check(e1.point_bytes == expected_point_bytes(e1), f"{name}: 20 points legacy")
    check(len(list(e1.chunks())[1][1]) == 0x14 + 80, f"{name}: 20 points chunk")
    e1.points = []
    check(e1.point_bytes == expected_point_bytes(e1), f"{name}: no points legacy")
    check(list(e1.chunks())[1][1] == expected_chdt(e1), f"{name}: no points chunk")
    e1.points = [(1, 2), (3,)]
    raises(ValueError, lambda: e1.point_bytes, f"{name}: malformed point")
    e1.points = [(i, e1.range[0]) for i in range(14)] + [(3,)]
    raises(ValueError, lambda: e1.point_bytes, f"{name}: malformed point beyond 12")
    e1.points = [(0, e1.range[0] - 1)]
    raises(struct.error, lambda: list(e1.chunks()), f"{name}: y below range")
    gen = e1.chunks()
    check(next(gen) == (b"CHNM", pack("<I", chnm)), f"{name}: CHNM before failure")
    # bitmask in all combinations
    for value in range(16):
        e1.bitmask = value
        check((e1.enable, e1.sustain, e1.loop)
              == (bool(value & 1), bool(value & 2), bool(value & 4)), f"{name}: set mask")
        check(e1.bitmask == value & 7 and type(e1.bitmask) is int, f"{name}: get mask")
    e1.enable, e1.sustain, e1.loop = 1, 0, 1
    check(e1.bitmask == 5, f"{name}: int flags")
    e1.enable = None
    raises(TypeError, lambda: e1.bitmask, f"{name}: None flag")
    # load_chdt round trip and failure state
    src = cls(*args)
    src.points = [(0, src.range[0]), (5, src.range[0] + 0x8000), (9, src.range[0] + 77)]
    src.bitmask, src.ctl_index, src.gain_pct, src.velocity = 6, 3, 42, 1
    src.sustain_point, src.loop_start_point, src.loop_end_point = 1, 0, 2
    chdt = list(src.chunks())[1][1]
    dst, other = cls(*args), cls(*args)
    dst.load_chdt(chdt)
    check(dst.loaded is True and dst.points == src.points, f"{name}: load points")
    check(dst.points is not src.points and type(dst.points[0]) is tuple, f"{name}: new list")
    check(list(dst.chunks())[1][1] == chdt, f"{name}: load roundtrip")
    check((dst.bitmask, dst.ctl_index, dst.gain_pct, dst.velocity, dst.sustain_point,
           dst.loop_start_point, dst.loop_end_point) == (6, 3, 42, 1, 1, 0, 2),
          f"{name}: load header")
    check(other.points == initial and other.loaded is False, f"{name}: load leaked")
    dst.load_chdt(chdt + b"trailing")
    check(dst.points == src.points, f"{name}: trailing bytes ignored")
    short = cls(*args)
    raises(struct.error, lambda: short.load_chdt(chdt[:-2]), f"{name}: truncated chdt")
    check(short.points == src.points[:2] and short.loaded is False,
          f"{name}: partial state after truncated load")
    hdr_only = cls(*args)
    raises(struct.error, lambda: hdr_only.load_chdt(chdt[:8]), f"{name}: short header")
    check(hdr_only.points == initial and hdr_only.bitmask == mask, f"{name}: header fail")
    zero = cls(*args)
    zero.load_chdt(pack("<HBBBBBBHHHH", 1, 0, 100, 0, 0, 0, 0, 0, 0, 0, 0))
    check(zero.points == [] and zero.loaded is True, f"{name}: zero points")

# through the Sampler module
S1, S2 = m.Sampler(), m.Sampler()
s2_before = synth_bytes(S2)
envs1 = [S1.volume_envelope, S1.panning_envelope, S1.pitch_envelope,
         *S1.effect_control_envelopes]
envs2 = [S2.volume_envelope, S2.panning_envelope, S2.pitch_envelope,
         *S2.effect_control_envelopes]
check(len({id(e.points) for e in envs1 + envs2}) == 14, "14 distinct point lists")
check([e.chnm for e in envs1] == [0x102, 0x103, 0x104, 0x105, 0x106, 0x107, 0x108], "chnm")
for e in envs1:
    e.points.append((0x300, e.range[0] + 5))
    e.points[0] = (0, e.range[0] + 1)
    e.bitmask = 7
check(synth_bytes(S2) == s2_before, "Sampler: S2 bytes changed")
check(synth_bytes(m.Sampler()) == s2_before, "Sampler: fresh bytes changed")
s1b = synth_bytes(S1)
SC = S1.clone()
check(synth_bytes(SC) == s1b, "Sampler clone bytes")
check(SC.volume_envelope.points == S1.volume_envelope.points
      and SC.volume_envelope.points is not S1.volume_envelope.points, "clone points")
SC.volume_envelope.points.pop()
SC.effect_control_envelopes[3].points[1] = (1, 1)
check(synth_bytes(S1) == s1b, "Sampler clone -> original leak")
scb = synth_bytes(SC)
S1.pitch_envelope.points.clear()
check(synth_bytes(SC) == scb, "Sampler original -> clone leak")
R1 = read_sunvox_file(BytesIO(s1b)).module
R2 = read_sunvox_file(BytesIO(s1b)).module
check(R1.volume_envelope.loaded and synth_bytes(R1) == s1b, "Sampler reload")
R1.panning_envelope.points.append((0x400, 0))
check(synth_bytes(R2) == s1b, "Sampler loads share state")
for cls, _, _ in ENVELOPES:
    check(len(cls.initial_points) in (2, 4), "class initial points intact")
check(Sampler.VolumeEnvelope.initial_points == [(0, 0x8000), (8, 0), (0x80, 0), (0x100, 0)],
      "volume initial points intact")

if failures:
    print("FAIL")
    for msg in failures[:40]:
        print(" -", msg)
    sys.exit(1)
print("PASS")
