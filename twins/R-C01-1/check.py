"""Behaviour check for the Project.chunks() refactoring (C01-1).

Builds several projects through the public API, serialises them and checks
 - the exact chunk sequence / bytes (golden SHA-256 digests and chunk-name lists
   recorded on the unchanged tree),
 - that the written file loads again and the loaded project compares equal
   field by field,
 - that chunks() stays a lazy generator yielding (name, data) pairs in the
   documented order (header, patterns + PEND, modules + SEND).
"""
import hashlib
import sys
from io import BytesIO
from struct import pack, unpack

from rv.api import NOTECMD, Pattern, PatternClone, Project, m, read_sunvox_file
from rv.cmidmap import MidiMessageType, Slope
from rv.lib.iff import chunks as iff_chunks
from rv.modules import MODULE_CLASSES

FAILURES = []


def expect(cond, msg):
    if not cond:
        FAILURES.append(msg)


def digest(data):
    return hashlib.sha256(data).hexdigest()


def write(project):
    f = BytesIO()
    project.write_to(f)
    return f.getvalue()


def load(data):
    return read_sunvox_file(BytesIO(data))


def chunk_names(data):
    return [name for name, _ in iff_chunks(BytesIO(data))]


PROJECT_FIELDS = [
    "flags",
    "initial_bpm",
    "initial_tpl",
    "global_volume",
    "name",
    "time_grid",
    "time_grid2",
    "modules_scale",
    "modules_zoom",
    "modules_x_offset",
    "modules_y_offset",
    "modules_layer_mask",
    "modules_current_layer",
    "timeline_position",
    "restart_position",
    "selected_module",
    "selected_generator",
    "current_pattern",
    "current_track",
    "current_line",
    "based_on_version",
]

MODULE_FIELDS = [
    "mtype",
    "name",
    "flags",
    "x",
    "y",
    "layer",
    "mod_scale",
    "mod_finetune",
    "mod_relative_note",
    "midi_in_always",
    "midi_in_channel",
    "midi_out_name",
    "midi_out_channel",
    "midi_out_bank",
    "midi_out_program",
    "in_links",
    "index",
]


def stored_name(name):
    return name.encode("utf-8")[:32].decode("utf-8", "ignore")


def trim(seq, filler):
    seq = list(seq)
    while seq and seq[-1] == filler:
        seq.pop()
    return seq


def compare_projects(tag, a, b):
    for field in PROJECT_FIELDS:
        expect(
            getattr(a, field) == getattr(b, field),
            f"{tag}: project.{field} {getattr(a, field)!r} != {getattr(b, field)!r}",
        )
    expect(int(a.receive_sync_midi) == int(b.receive_sync_midi), f"{tag}: sync midi")
    expect(int(a.receive_sync_other) == int(b.receive_sync_other), f"{tag}: sync other")
    # Documented normalisation on load: trailing empty module slots are dropped
    # and trailing -1 (disconnected) links are trimmed.
    a_modules, b_modules = trim(a.modules, None), trim(b.modules, None)
    expect(len(a_modules) == len(b_modules), f"{tag}: module count")
    for ma, mb in zip(a_modules, b_modules):
        if ma is None or mb is None:
            expect(ma is None and mb is None, f"{tag}: empty slot mismatch")
            continue
        expect(type(ma) is type(mb), f"{tag}: module type {ma!r} {mb!r}")
        for field in MODULE_FIELDS:
            va, vb = getattr(ma, field), getattr(mb, field)
            if field == "name":
                va = stored_name(va)
            if field == "in_links":
                va, vb = trim(va, -1), trim(vb, -1)
            expect(va == vb, f"{tag}: {ma!r}.{field} {va!r} != {vb!r}")
        expect(tuple(ma.color) == tuple(mb.color), f"{tag}: {ma!r}.color")
        expect(
            int(ma.visualization) == int(mb.visualization), f"{tag}: {ma!r}.visualization"
        )
        for cname, ctl in ma.controllers.items():
            if ctl.attached(ma):
                expect(
                    ma.get_raw(cname) == mb.get_raw(cname),
                    f"{tag}: {ma!r}.{cname} raw value",
                )
                expect(
                    ma.controller_midi_maps[cname].cmid_data
                    == mb.controller_midi_maps[cname].cmid_data,
                    f"{tag}: {ma!r}.{cname} midi map",
                )
        expect(ma.option_values == mb.option_values, f"{tag}: {ma!r}.option_values")
    expect(len(a.patterns) == len(b.patterns), f"{tag}: pattern count")
    for pa, pb in zip(a.patterns, b.patterns):
        if pa is None or pb is None:
            expect(pa is None and pb is None, f"{tag}: empty pattern slot mismatch")
            continue
        expect(type(pa) is type(pb), f"{tag}: pattern type")
        if isinstance(pa, Pattern):
            for field in (
                "name tracks lines y_size flags_PFLG icon flags_PFFF x y".split()
            ):
                expect(
                    getattr(pa, field) == getattr(pb, field), f"{tag}: pattern.{field}"
                )
            expect(tuple(pa.fg_color) == tuple(pb.fg_color), f"{tag}: pattern.fg_color")
            expect(tuple(pa.bg_color) == tuple(pb.bg_color), f"{tag}: pattern.bg_color")
            expect(pa.raw_data == pb.raw_data, f"{tag}: pattern note cells")
        else:
            for field in "source flags_PFFF x y".split():
                expect(
                    getattr(pa, field) == getattr(pb, field), f"{tag}: clone.{field}"
                )


# ---------------------------------------------------------------------------
# project builders


def build_default():
    return Project()


def build_settings():
    p = Project()
    p.name = "Projekt üñî ☃"
    p.flags = 0x1234
    p.initial_bpm = 777
    p.initial_tpl = 31
    p.global_volume = 256
    p.time_grid = 7
    p.time_grid2 = 3
    p.modules_scale = 300
    p.modules_zoom = 128
    p.modules_x_offset = -77
    p.modules_y_offset = 2**31 - 1
    p.modules_layer_mask = 0xFFFFFFFF
    p.modules_current_layer = 5
    p.timeline_position = -3
    p.restart_position = 16
    p.selected_module = 2
    p.selected_generator = 1
    p.current_pattern = 1
    p.current_track = 3
    p.current_line = 9
    p.receive_sync_midi = Project.SyncCommand.tempo | Project.SyncCommand.position
    p.receive_sync_other = 7
    p.sunvox_version = (2, 1, 2, 0)
    p.based_on_version = (1, 9, 6, 1)
    return p


def build_all_types():
    p = Project()
    for i, mtype in enumerate(sorted(MODULE_CLASSES)):
        if mtype == "Output":
            continue
        mod = p.new_module(MODULE_CLASSES[mtype], x=16 * i, y=-8 * i, layer=i % 8)
        mod.color = (i, 255 - i, (i * 7) % 256)
        mod.mod_finetune = i - 20
        mod.mod_relative_note = 20 - i
        if i % 3 == 0:
            mod.midi_out_name = f"midi-{i}"
            mod.midi_out_channel = i % 16
            mod.midi_out_bank = i
            mod.midi_out_program = i % 128
        if i % 4 == 0:
            mod.midi_in_always = True
            mod.midi_in_channel = i % 17
    return p


def build_links():
    p = Project()
    gen = p.new_module(m.Generator, name="gen")
    fm = p.new_module(m.Fm, name="fm")
    amp = p.new_module(m.Amplifier, name="amp", volume=300, balance=-5)
    rev = p.new_module(m.Reverb, name="rev")
    echo = p.new_module(m.Echo, name="echo")
    p.connect([gen, fm], amp)
    amp >> [rev, echo] >> p.output
    gen >> p.output
    amp >> ~rev  # rev.in_links becomes [-1]
    p.connect(~gen, amp)  # -1 in first position of amp.in_links
    fm >> echo
    echo >> gen  # feedback edge, produces non-trivial in_link_slots
    return p


def build_empty_slots_and_names():
    p = Project()
    names = [
        "",
        "a" * 31,
        "b" * 32,
        "c" * 40,
        "é" * 16,
        "x" + "é" * 16,  # 2-byte char straddles byte 32
        "☃" * 11,  # 33 bytes, 3-byte char straddles
        "\U0001f600" * 8 + "z",
        "xx" + "\U0001f600" * 8,  # 4-byte char straddles
    ]
    for i, name in enumerate(names):
        p.new_module(m.Amplifier, name=name, volume=i * 100)
    # punch holes: middle and last
    p.modules[3] = None
    p.modules[len(p.modules) - 1] = None
    p.new_module(m.Lfo, name="fills slot 3")
    p.attach_module(None)
    p.new_module(m.Filter, name="tail")
    return p


def build_patterns():
    p = Project()
    gen = p.new_module(m.Generator)
    gen >> p.output
    pat = Pattern(name="Intro ♫", tracks=3, lines=5, x=-32, y=64)
    pat.y_size = 48
    pat.flags_PFLG = 3
    pat.flags_PFFF = 0x18
    pat.icon = bytes(range(32))
    pat.fg_color = (1, 2, 3)
    pat.bg_color = (250, 251, 252)
    p.attach_pattern(pat)
    for line in range(5):
        for track in range(3):
            n = pat.data[line][track]
            n.note = (line * 3 + track) % 120 + 1
            n.vel = (line * 30 + track) % 130
            n.module = int(gen) if track else 0xFFFF
            n.ctl = (line << 8) | track
            n.val = 0xFFFF - line * 1000 - track
    pat.data[4][2].note = NOTECMD.NOTE_OFF
    p.attach_pattern(None)
    p.attach_pattern(PatternClone(source=0, x=100, y=-100))
    p.attach_pattern(Pattern(tracks=1, lines=1))
    p.attach_pattern(None)
    big = Pattern(tracks=32, lines=2)
    p.attach_pattern(big)
    big.data[1][31].val = 0xABCD
    clone2 = PatternClone(source=5, x=2**31 - 1, y=-(2**31))
    clone2.flags_PFFF = 0x1B
    p.attach_pattern(clone2)
    return p


def build_controllers_and_midi_maps():
    p = Project()
    gen = p.new_module(m.AnalogGenerator, volume=0, attack=256, polyphony=32)
    vol_map = gen.controller_midi_maps["volume"]
    vol_map.channel = 3
    vol_map.message_type = MidiMessageType.control_change
    vol_map.message_parameter = 0x1234
    vol_map.slope = Slope.s_curve
    rel_map = gen.controller_midi_maps["release"]
    rel_map.channel = 15
    rel_map.message_type = MidiMessageType.pitch_bend
    rel_map.slope = Slope.toggle
    dist = p.new_module(m.Distortion, volume=256, bit_depth=1)
    multi = p.new_module(m.MultiSynth)
    multi.static_note_c5 = True if "static_note_c5" in multi.options else None
    samp = p.new_module(m.Sampler)
    meta = p.new_module(m.MetaModule)
    ctl = p.new_module(m.MultiCtl, value=12345)
    gen >> dist >> p.output
    multi >> [gen, samp]
    samp >> p.output
    meta >> p.output
    ctl >> dist
    return p


BUILDERS = [
    build_default,
    build_settings,
    build_all_types,
    build_links,
    build_empty_slots_and_names,
    build_patterns,
    build_controllers_and_midi_maps,
]

GOLDEN = {
    "build_default": "406949941dae172bfd71f9013c6cb8c005715845af60d03e478800b54ccf4691",
    "build_settings": "5b405fc691eedddded12978ef04858650419550e4a4b02f75b3cf5e5174d3ddf",
    "build_all_types": "7751d44ba6cc6b3909fef5bf13aaa0170c99e147dd103234421dd23f8aba9f28",
    "build_links": "199b6b03b396fbec1148f0301bd60e8863e7f8883f34ae01df2bbc1a31f144fe",
    "build_empty_slots_and_names": "75132a1d8ab2dd0ed7670307ba0f66b7b9c8101ad8efdc6b45d11519a60ba047",
    "build_patterns": "c2dac9bc57106ce95732b4debb925b24dc6f8116e6019c7a772afaff50a89626",
    "build_controllers_and_midi_maps": "cd1e2c806ffc779c6a6ac361983b4d3597a11ccd13fe43b3cee7a09eb08078b8",
}

HEADER_NAMES = (
    "SVOX VERS BVER FLGS SFGS BPM  SPED TGRD TGD2 GVOL NAME MSCL MZOO MXOF MYOF "
    "LMSK CURL"
)


def header_prefix():
    return [HEADER_NAMES[i : i + 4].encode() for i in range(0, len(HEADER_NAMES), 5)]


def check_structure(tag, project, data):
    names = chunk_names(data)
    prefix = header_prefix()
    expect(names[: len(prefix)] == prefix, f"{tag}: header chunk order")
    rest = names[len(prefix) :]
    optional = []
    if project.timeline_position != 0:
        optional.append(b"TIME")
    if project.restart_position != 0:
        optional.append(b"REPS")
    tail = optional + [b"SELS", b"LGEN", b"PATN", b"PATT", b"PATL"]
    expect(rest[: len(tail)] == tail, f"{tag}: selection chunk order")
    expect(names.count(b"PEND") == len(project.patterns), f"{tag}: one PEND per slot")
    expect(names.count(b"SEND") == len(project.modules), f"{tag}: one SEND per slot")
    expect(
        names.count(b"SFFF") == sum(mod is not None for mod in project.modules),
        f"{tag}: one SFFF per module",
    )
    expect(names.count(b"SLNK") == names.count(b"SFFF"), f"{tag}: one SLNK per module")
    expect(names[-1] == b"SEND", f"{tag}: file ends with SEND")
    if b"PEND" in names and b"SFFF" in names:
        last_pend = len(names) - 1 - names[::-1].index(b"PEND")
        expect(last_pend < names.index(b"SFFF"), f"{tag}: patterns precede modules")


def check_lazy_generator():
    p = build_links()
    gen = p.chunks()
    expect(iter(gen) is gen, "chunks() returns an iterator")
    first = next(gen)
    expect(first == (b"SVOX", b""), "first chunk is the magic chunk")
    expect(first is Project.MAGIC_CHUNK, "magic chunk is the class constant")
    # Laziness: a change made after the header was consumed is still reflected
    # in chunks that have not been produced yet.
    for name, data in gen:
        if name == b"CURL":
            p.selected_module = 41
            p.modules[2].name = "renamed late"
            break
    remaining = list(gen)
    rest = dict((n, d) for n, d in remaining if n == b"SELS")
    expect(rest[b"SELS"] == pack("<I", 41), "chunks are produced lazily (SELS)")
    snams = [d for n, d in remaining if n == b"SNAM"]
    expect(snams[2] == b"renamed late".ljust(32, b"\0"), "modules serialised lazily")
    for name, data in remaining:
        expect(isinstance(name, bytes) and isinstance(data, bytes), "chunk types")


def check_slnk_encoding():
    p = build_links()
    data = write(p)
    slnk = [d for n, d in iff_chunks(BytesIO(data)) if n == b"SLNK"]
    expect(len(slnk) == len(p.modules), "SLNK per module")
    for mod, raw in zip(p.modules, slnk):
        links = list(unpack("<" + "i" * (len(raw) // 4), raw))
        expect(links == list(mod.in_links), f"SLNK payload for {mod!r}")
    slots = [d for n, d in iff_chunks(BytesIO(data)) if n == b"SLnK"]
    expected_slots = [
        pack("<" + "i" * len(mod.in_link_slots), *mod.in_link_slots)
        for mod in p.modules
        if any(s not in (-1, 0) for s in mod.in_link_slots)
    ]
    expect(slots == expected_slots, "SLnK only for modules with non-zero slots")
    expect(len(slots) >= 1, "test project exercises SLnK")


def check_errors():
    from rv.modules.module import Module

    p = Project()
    try:
        p.attach_module(Module())
    except RuntimeError:
        pass
    else:
        expect(False, "attaching base Module must raise RuntimeError")
    p2 = Project()
    p2.initial_bpm = -1
    try:
        write(p2)
    except Exception as e:  # struct.error
        expect(type(e).__name__ == "error", f"out of range bpm error type {type(e)}")
    else:
        expect(False, "negative bpm must fail to pack")


def main():
    record = "--record" in sys.argv
    for builder in BUILDERS:
        tag = builder.__name__
        project = builder()
        data = write(project)
        expect(data == project.read(), f"{tag}: read() == write_to() bytes")
        expect(data == write(project), f"{tag}: writing twice gives the same bytes")
        if record:
            print(f'    "{tag}": "{digest(data)}",')
        else:
            expect(digest(data) == GOLDEN[tag], f"{tag}: golden digest differs")
        check_structure(tag, project, data)
        loaded = load(data)
        compare_projects(tag, project, loaded)
        cloned = project.clone()
        compare_projects(tag + "/clone", project, cloned)
        # the loaded project can be written and loaded again
        data2 = write(loaded)
        compare_projects(tag + "/second", loaded, load(data2))
    check_lazy_generator()
    check_slnk_encoding()
    check_errors()
    if FAILURES:
        for failure in FAILURES:
            print("FAIL:", failure)
        sys.exit(1)
    print("PASS")


if __name__ == "__main__":
    main()
