import hashlib
import io
import logging
import random
import sys
from enum import Enum

logging.disable(logging.CRITICAL)

import rv.api  # noqa: E402  (registers every module class)
from rv.api import Project, Synth, m, read_sunvox_file  # noqa: E402
from rv.controller import DependentRange, Range  # noqa: E402
from rv.errors import EmptySynthError  # noqa: E402
from rv.modules import MODULE_CLASSES  # noqa: E402

FAILURES = []


def check(cond, msg):
    if not cond:
        FAILURES.append(msg)


def module_types():
    return sorted(k for k in MODULE_CLASSES if k != "Output")


def ends(t, which):
    """Return the low/high end value for controller value type t."""
    if isinstance(t, Range):
        return t.min if which == "min" else t.max
    if t is bool:
        return which == "max"
    if isinstance(t, type) and issubclass(t, Enum):
        members = list(t)
        return members[0] if which == "min" else members[-1]
    return None


def set_controllers(mod, which):
    """Set every controller of mod to its range end (parents before dependants)."""
    items = list(mod.controllers.items())
    plain = [(n, c) for n, c in items if not isinstance(c.value_type, DependentRange)]
    dependent = [(n, c) for n, c in items if isinstance(c.value_type, DependentRange)]
    for name, ctl in plain + dependent:
        if not ctl.attached(mod) or name == "user_defined_controllers":
            continue
        t = ctl.instance_value_type(mod)
        v = ends(t, which)
        if v is not None:
            mod.controller_values[name] = v


def set_options(mod, which):
    for name, option in mod.options.items():
        cur = mod.option_values[name]
        if name == "user_defined_controllers":
            # drives controller attachment; exercised separately
            mod.option_values[name] = {"min": 0, "max": 5}[which]
        elif option.size == 1:
            mod.option_values[name] = which == "max"
        elif isinstance(cur, Enum):
            members = list(type(cur))
            mod.option_values[name] = members[0] if which == "min" else members[-1]
        else:
            mod.option_values[name] = 0 if which == "min" else (1 << option.size) - 1


def set_midi(mod, seed):
    from rv.cmidmap import MidiMessageType, Slope

    rnd = random.Random(seed)
    for name in mod.controllers:
        if rnd.random() < 0.6:
            mm = mod.controller_midi_maps[name]
            mm.channel = rnd.randrange(0, 17)
            mm.message_type = rnd.choice(list(MidiMessageType))
            mm.message_parameter = rnd.randrange(0, 0x10000)
            mm.slope = rnd.choice(list(Slope))


def set_common(mod, seed):
    rnd = random.Random(seed)
    mod.mod_finetune = rnd.randrange(-256, 257)
    mod.mod_relative_note = rnd.randrange(-64, 65)
    mod.mod_scale = rnd.randrange(1, 1025)
    mod.color = (rnd.randrange(256), rnd.randrange(256), rnd.randrange(256))
    mod.midi_in_always = rnd.random() < 0.5
    mod.midi_in_channel = rnd.randrange(0, 17)
    mod.midi_out_name = rnd.choice([None, "out", "Some MIDI device"])
    mod.midi_out_channel = rnd.randrange(0, 17)
    mod.midi_out_bank = rnd.randrange(-1, 128)
    mod.midi_out_program = rnd.randrange(-1, 128)
    mod.name = rnd.choice([mod.name, "x", "A rather long module name over 32 chars", "été"])


def set_payload(mod, which, seed):
    """Fill type specific payload with boundary / random contents."""
    rnd = random.Random(seed)

    def fill(chunk, lo, hi, as_float=False):
        n = chunk.length
        if which == "min":
            chunk.values = [lo] * n
        elif which == "max":
            chunk.values = [hi] * n
        elif as_float:
            chunk.values = [rnd.randrange(-1024, 1025) / 1024.0 for _ in range(n)]
        else:
            chunk.values = [rnd.randrange(lo, hi + 1) for _ in range(n)]

    mt = mod.mtype
    if mt == "MultiSynth":
        fill(mod.nv_curve, 0, 255)
        fill(mod.vv_curve, 0, 255)
        fill(mod.np_curve, 0, 65535)
    elif mt == "WaveShaper":
        fill(mod.curve, 0, 65535)
    elif mt == "MultiCtl":
        fill(mod.curve, 0, 65535)
        top = 0xFFFFFFFF
        for i in range(16):
            if which == "min":
                vals = (0,) * 8
            elif which == "max":
                vals = (top,) * 8
            else:
                vals = tuple(rnd.randrange(0, top + 1) for _ in range(8))
            mod.mappings.values[i] = mod.Mapping(vals)
    elif mt == "FMX":
        fill(mod.custom_waveform, -1.0, 1.0, as_float=True)
    elif mt == "SpectraVoice":
        for h in mod.harmonics:
            if which == "min":
                h.freq_hz, h.volume, h.width, h.type = 0, 0, 0, list(mod.HarmonicType)[0]
            elif which == "max":
                h.freq_hz, h.volume, h.width, h.type = 65535, 255, 255, list(mod.HarmonicType)[-1]
            else:
                h.freq_hz = rnd.randrange(0, 65536)
                h.volume = rnd.randrange(0, 256)
                h.width = rnd.randrange(0, 256)
                h.type = rnd.choice(list(mod.HarmonicType))
    elif mt in ("Generator", "Analog generator"):
        if which == "min":
            mod.drawn_waveform.samples = [-128] * 32
        elif which == "max":
            mod.drawn_waveform.samples = [127] * 32
        else:
            mod.drawn_waveform.samples = [rnd.randrange(-128, 128) for _ in range(32)]
    elif mt == "Vorbis player":
        if which == "min":
            mod.data = b""
        elif which == "max":
            mod.data = bytes(range(256)) * 3
        else:
            mod.data = bytes(rnd.randrange(256) for _ in range(rnd.randrange(1, 200)))


def payload_state(mod):
    mt = mod.mtype
    if mt == "MultiSynth":
        return (mod.nv_curve.values, mod.vv_curve.values, mod.np_curve.values)
    if mt == "WaveShaper":
        return (mod.curve.values,)
    if mt == "MultiCtl":
        return (
            mod.curve.values,
            [
                (x.min, x.max, x.controller, x.flags, x.future_use2, x.future_use3,
                 x.future_use4, x.future_use5)
                for x in mod.mappings.values
            ],
        )
    if mt == "FMX":
        return (mod.custom_waveform.values,)
    if mt == "SpectraVoice":
        return (
            mod.harmonic_freqs.values,
            mod.harmonic_volumes.values,
            mod.harmonic_widths.values,
            [int(x) for x in mod.harmonic_types.values],
            [(h.freq_hz, h.volume, h.width, int(h.type)) for h in mod.harmonics],
        )
    if mt in ("Generator", "Analog generator"):
        dw = mod.drawn_waveform
        return (dw.samples, dw.format, dw.freq)
    if mt == "Vorbis player":
        return (mod.data or b"",)
    if mt == "MetaModule":
        return (mod.project.read(),)
    return ()


def state(mod):
    attached = [n for n, c in mod.controllers.items() if c.attached(mod)]
    return dict(
        type=type(mod),
        mtype=mod.mtype,
        name=mod.name.encode("utf8")[:32].decode("utf8", "ignore"),
        flags=mod.flags,
        controllers={n: mod.controller_values[n] for n in attached},
        raw={n: mod.get_raw(n) for n in attached},
        options=dict(mod.option_values),
        # (MIDI bindings of types with detached controllers are position-shifted on
        # load by the library as it stands, so only compare them when all attached)
        cmid={n: mod.controller_midi_maps[n].cmid_data for n in mod.controllers}
        if len(attached) == len(mod.controllers)
        else None,
        common=(
            mod.mod_finetune, mod.mod_relative_note, mod.mod_scale, tuple(mod.color),
            bool(mod.midi_in_always), mod.midi_in_channel, mod.midi_out_name or None,
            mod.midi_out_channel, mod.midi_out_bank, mod.midi_out_program,
        ),
        payload=payload_state(mod),
    )


def diff(a, b):
    return [k for k in a if a[k] != b[k]]


def unit_variants(cls):
    """For modules with unit-dependent ranges yield one kwargs dict per unit."""
    parents = []
    for name, ctl in cls.controllers.items():
        vt = ctl.value_type
        if isinstance(vt, DependentRange) and vt.ctl_name not in parents:
            parents.append(vt.ctl_name)
    if not parents:
        yield {}
        return
    for p in parents:
        for member in cls.controllers[p].value_type:
            yield {p: member}


def build_variants(mtype):
    cls = MODULE_CLASSES[mtype]
    n = 0
    for kw in unit_variants(cls):
        for which in ("default", "min", "max", "random"):
            mod = cls(**kw)
            if which != "default":
                ctl_which = which if which != "random" else "max"
                for p, v in kw.items():
                    mod.controller_values[p] = v
                set_controllers(mod, ctl_which)
                for p, v in kw.items():
                    mod.controller_values[p] = v
                # re-run dependants now that the unit is final
                for name, ctl in mod.controllers.items():
                    if isinstance(ctl.value_type, DependentRange):
                        v = ends(ctl.instance_value_type(mod), ctl_which)
                        if v is not None:
                            mod.controller_values[name] = v
                set_options(mod, "max" if which == "random" else which)
                if hasattr(mod, "recompute_controller_attachment"):
                    mod.recompute_controller_attachment()
                    set_controllers(mod, ctl_which)
                set_payload(mod, which, seed=f"{mtype}-{n}")
                set_midi(mod, seed=f"{mtype}-{n}")
                set_common(mod, seed=f"{mtype}-{n}")
            n += 1
            yield f"{mtype}[{kw}|{which}]", mod


def synth_bytes(mod):
    return Synth(mod).read()


def load_synth(data):
    return read_sunvox_file(io.BytesIO(data)).module


def project_roundtrip(mod):
    p = Project()
    p.attach_module(mod)
    data = p.read()
    p2 = read_sunvox_file(io.BytesIO(data))
    return data, p2.modules[mod.index]


def run_all(digest_expected=None, extra=None):
    h = hashlib.sha256()
    count = 0
    for mtype in module_types():
        for label, mod in build_variants(mtype):
            count += 1
            before = state(mod)
            data = synth_bytes(mod)
            h.update(data)
            check(data[:8] == b"SSYN\0\0\0\0", f"{label}: magic")
            check(data.endswith(b"SEND\0\0\0\0"), f"{label}: SEND")
            loaded = load_synth(data)
            d = diff(before, state(loaded))
            check(not d, f"{label}: synth round trip differs in {d}")
            check(synth_bytes(loaded) == data, f"{label}: second write differs")
            clone = mod.clone()
            check(clone is not mod, f"{label}: clone identity")
            d = diff(before, state(clone))
            check(not d, f"{label}: clone differs in {d}")
            check(diff(before, state(mod)) == [], f"{label}: source mutated")
            if extra:
                extra(label, mod, before)
            # in-project context (last, as attaching gives the module a parent)
            pdata, pmod = project_roundtrip(mod)
            h.update(pdata)
            d = diff(before, state(pmod))
            check(not d, f"{label}: project round trip differs in {d}")
            check(synth_bytes(pmod) == data, f"{label}: project->synth bytes differ")
    try:
        Synth().read()
        check(False, "empty synth serialized")
    except EmptySynthError:
        pass
    try:
        gen = Synth().chunks()
        next(gen)
        check(False, "empty synth yielded a chunk")
    except EmptySynthError:
        pass
    buf = io.BytesIO()
    try:
        Synth(None).write_to(buf)
        check(False, "empty synth wrote")
    except EmptySynthError:
        check(buf.getvalue() == b"", "empty synth wrote partial data")
    digest = h.hexdigest()
    if digest_expected is not None:
        check(digest == digest_expected, f"serialized bytes digest changed: {digest}")
    return count, digest


def finish(count):
    if FAILURES:
        for f in FAILURES[:40]:
            print("FAIL:", f)
        print(f"{len(FAILURES)} failures")
        sys.exit(1)
    print(f"PASS ({count} module variants)")

EXPECTED_DIGEST = "eea60413fa8c31d1406687427fa4e0f4cd97d181b1aac6c42e719434ae0096c0"


# ---------------------------------------------------------------------------
# Checks specific to this refactoring: ArrayChunk / WaveformChunk codecs and
# the drawn-waveform loaders of Generator / Analog generator.
# ---------------------------------------------------------------------------
import struct  # noqa: E402

from rv.chunks import ArrayChunk, DrawnWaveformChunk, WaveformChunk  # noqa: E402
from rv.modules import Chunk as RawChunk  # noqa: E402

SIZES = {"B": 1, "H": 2, "I": 4, "f": 4}
LIMITS = {"B": 255, "H": 65535, "I": 0xFFFFFFFF}


def array_chunks_of(mod):
    return [
        (k, v) for k, v in sorted(vars(mod).items()) if isinstance(v, ArrayChunk)
    ]


def ref_encode(chunk):
    out = b""
    for v in chunk.encoded_values:
        out += struct.pack("<" + chunk.type[0], v)
    return out


def ref_decode(chunk, data):
    n = len(data) // chunk.element_size
    fields = len(chunk.type)
    out = []
    for i in range(n):
        piece = data[i * chunk.element_size : (i + 1) * chunk.element_size]
        vals = [
            struct.unpack_from("<" + chunk.type[0], piece, j * SIZES[chunk.type[0]])[0]
            for j in range(fields)
        ]
        out.append(vals[0] if fields == 1 else tuple(vals))
    return out


def plain(chunk):
    """Values of a chunk as plain comparable python data."""
    out = []
    for v in chunk.values:
        if hasattr(v, "future_use5"):
            out.append((v.min, v.max, v.controller, v.flags, v.future_use2,
                        v.future_use3, v.future_use4, v.future_use5))
        elif hasattr(v, "module") and hasattr(v, "controller"):
            out.append((v.module, v.controller))
        else:
            out.append(v)
    return out


def array_checks(label, mod, before):
    rnd = random.Random(label)
    for attr, chunk in array_chunks_of(mod):
        tag = f"{label}.{attr}"
        data = chunk.bytes
        check(chunk.chdt() == data, f"{tag}: chdt is bytes")
        check(len(data) == chunk.length * chunk.element_size, f"{tag}: byte length")
        check(data == ref_encode(chunk), f"{tag}: reference encoding")
        check(
            list(chunk.chunks())[:2]
            == [(b"CHNM", struct.pack("<I", chunk.chnm)), (b"CHDT", data)],
            f"{tag}: chunks()",
        )
        fresh = type(chunk)()
        fresh.bytes = data
        check(plain(fresh) == plain(chunk), f"{tag}: decode(encode) identity")
        check(fresh.bytes == data, f"{tag}: re-encode")
        check(type(fresh.values) is list, f"{tag}: values is a list")
        # arbitrary byte strings, including ragged / short / over-long / empty ones
        es = chunk.element_size
        for nbytes in (0, 1, es - 1, es, es + 1, 3 * es + es // 2,
                       chunk.length * es - 1, chunk.length * es + es + 1):
            if nbytes < 0:
                continue
            if chunk.type[0] == "f":
                raw = b"".join(
                    struct.pack("<f", rnd.randrange(-4096, 4097) / 256.0)
                    for _ in range(nbytes // 4)
                ) + b"\x01" * (nbytes % 4)
            elif type(chunk).__name__ == "harmonic_types_chunk":
                raw = bytes(rnd.randrange(0, 19) for _ in range(nbytes))
            else:
                raw = bytes(rnd.randrange(256) for _ in range(nbytes))
            other = type(chunk)()
            old_list = other.values
            other.bytes = raw
            expect = ref_decode(chunk, raw)
            if type(chunk).__qualname__.startswith("MetaModule."):
                expect = expect + [(0, 0)] * (chunk.length - len(expect))
            check(plain(other) == expect, f"{tag}: decode of {nbytes} bytes")
            check(other.values is not old_list, f"{tag}: setter makes a new list")
            ptype = other.python_type
            check(
                all(type(v) is ptype or isinstance(v, ptype) for v in other.values),
                f"{tag}: element python type",
            )
        # reset() restores defaults and never aliases a list default
        probe = type(chunk)()
        first = plain(probe)
        probe.values = probe.values[:1]
        probe.reset()
        check(plain(probe) == first and len(probe.values) == chunk.length,
              f"{tag}: reset()")
        if isinstance(type(chunk).__dict__.get("default"), list):
            check(probe.values is not type(chunk).default, f"{tag}: default aliased")
            check(probe.values == type(chunk).default, f"{tag}: list default")
        # too few / too many / out of range values do not pack
        if chunk.type[0] in LIMITS and not hasattr(chunk.values[0], "controller"):
            bad = type(chunk)()
            for vals in (bad.values[:-1], bad.values + bad.values[:1]):
                bad.values = vals
                try:
                    bad.bytes
                    check(False, f"{tag}: wrong count packed")
                except struct.error:
                    pass
            if type(chunk).__name__ != "harmonic_types_chunk":
                for v in (-1, LIMITS[chunk.type[0]] + 1):
                    bad.values = [v] * chunk.length
                    try:
                        bad.bytes
                        check(False, f"{tag}: {v} packed")
                    except struct.error:
                        pass


def synthetic_array_checks():
    class Plain(ArrayChunk):
        chnm = 7
        length = 5
        type = "h"
        element_size = 2

    p = Plain()
    check(p.values == [0] * 5, "None default -> zeros")
    check(p.bytes == b"\0" * 10, "zeros encode")
    p.bytes = struct.pack("<5h", -32768, -1, 0, 1, 32767) + b"\xff"
    check(p.values == [-32768, -1, 0, 1, 32767], "signed decode, ragged tail ignored")
    p.bytes = b""
    check(p.values == [], "empty decode")

    class Scalar(Plain):
        default = 9

    check(Scalar().values == [9] * 5, "scalar default")

    class Clamped(Plain):
        min_value = 10
        max_value = 20

        def default(self, x):
            return x * 7

    check(Clamped().values == [10, 10, 14, 20, 20], "callable default is clamped")
    c = Clamped()
    c.set_via_fn(lambda x: 15 - x)
    check(c.values == [15, 14, 13, 12, 11], "set_via_fn in range")
    c.set_via_fn(lambda x: 100 * (x - 2))
    check(c.values == [10, 10, 10, 20, 20], "set_via_fn clamps both ends")
    before = c.values
    try:
        c.set_via_fn(lambda x: 1 // (3 - x))
        check(False, "set_via_fn swallowed error")
    except ZeroDivisionError:
        check(c.values is before, "failed set_via_fn leaves values")

    class ZeroMin(Plain):
        min_value = 0
        max_value = 255

    z = ZeroMin()
    z.set_via_fn(lambda x: (x - 2) * 200)
    # a zero bound is "not set": no clamping at the low end
    check(z.values == [-400, -200, 0, 200, 255], "zero min_value does not clamp")

    class ZeroMax(Plain):
        min_value = -5
        max_value = 0

    z = ZeroMax()
    z.set_via_fn(lambda x: (x - 2) * 4)
    check(z.values == [-5, -4, 0, 4, 8], "zero max_value does not clamp")

    class Pair(ArrayChunk):
        chnm = 1
        length = 3
        type = "Bh"
        element_size = 3

        class P:
            def __init__(self, v):
                self.a, self.b = v

        python_type = P

        def default(self, i):
            return self.P((i, -i))

        @property
        def encoded_values(self):
            return [f for v in self.values for f in (v.a, v.b)]

    pr = Pair()
    check([(v.a, v.b) for v in pr.values] == [(0, 0), (1, -1), (2, -2)], "pair default")
    check(pr.bytes == struct.pack("<BhBhBh", 0, 0, 1, -1, 2, -2), "pair encode")
    pr.bytes = struct.pack("<BhBh", 200, -300, 7, 9) + b"\x05\x06"
    check([(v.a, v.b) for v in pr.values] == [(200, -300), (7, 9)], "pair decode")

    class Untyped(ArrayChunk):
        length = 2
        element_size = 1

    u = Untyped()
    try:
        u.bytes
        check(False, "untyped packed")
    except TypeError:
        pass
    u.bytes = b""
    check(u.values == [], "untyped empty decode is fine")
    try:
        u.bytes = b"\1\2"
        check(False, "untyped decoded")
    except struct.error:
        check(u.values == [], "untyped failed decode leaves empty list")

    class Mismatch(Plain):
        element_size = 3

    mm = Mismatch()
    try:
        mm.bytes = b"\0" * 6
        check(False, "size mismatch decoded")
    except struct.error:
        pass

    class Picky(Plain):
        @staticmethod
        def python_type(v):
            if v == 3:
                raise ValueError("three")
            return v

    pk = Picky()
    try:
        pk.bytes = struct.pack("<5h", 1, 2, 3, 4, 5)
        check(False, "picky decoded")
    except ValueError:
        check(pk.values == [1, 2], "elements decoded before a failure are kept")

    class NoSize(Plain):
        element_size = None

    ns = NoSize()
    try:
        ns.bytes = b"\0\0"
        check(False, "no element size decoded")
    except TypeError:
        check(ns.values == [], "values cleared before size is looked at")


def waveform_checks():
    w = DrawnWaveformChunk()
    check(w.format is WaveformChunk.Format.mono_8bit and w.freq == 44100, "fixed attrs")
    check(w.samples == DrawnWaveformChunk.default, "default samples")
    check(w.samples is not DrawnWaveformChunk.default, "default samples copied")
    check(w.is_default and list(w.chunks()) == [], "default drawing is not written")
    check(len(w.bytes) == 32 and w.bytes[1] == 156 and w.bytes[5] == 137, "bytes")

    class Drawn(DrawnWaveformChunk):
        chnm = 0

    d = Drawn()
    d.samples = [-128, -1, 0, 1, 127, 128, 255, 256, -129, 1000]
    check(d.bytes == bytes([128, 255, 0, 1, 127, 128, 255, 0, 127, 232]), "masking")
    check(
        list(d.chunks())
        == [
            (b"CHNM", struct.pack("<I", 0)),
            (b"CHDT", d.bytes),
            (b"CHFR", struct.pack("<I", 44100)),
        ],
        "drawn waveform chunks",
    )
    check(d.chff() == struct.pack("<I", 1) and d.chfr() == struct.pack("<I", 44100), "chff")
    d.format = None
    check(d.bytes[:2] == b"\x80\xff", "format None still packs")
    for fmt in WaveformChunk.Format:
        d.format = fmt
        if fmt is WaveformChunk.Format.mono_8bit:
            check(d.chdt() == d.bytes, "chdt")
            continue
        try:
            d.bytes
            check(False, f"{fmt} packed")
        except NotImplementedError:
            pass
    d.format = 1  # a bare int is not the enum member
    try:
        d.bytes
        check(False, "int format packed")
    except NotImplementedError:
        pass
    d.format = WaveformChunk.Format.mono_8bit
    d.samples = [0.5]
    try:
        d.bytes
        check(False, "float sample packed")
    except TypeError:
        pass

    class Bare(WaveformChunk):
        pass

    b = Bare()
    check(b.samples == [] and b.format is None and b.freq is None, "bare waveform")
    check(b.bytes == b"", "bare bytes")

    class HalfFixed(WaveformChunk):
        fixed_freq = 8000
        default = [1, 2]

    hf = HalfFixed()
    check(hf.format is None and hf.freq == 8000 and hf.samples == [1, 2], "half fixed")
    check("format" not in vars(hf) and "freq" in vars(hf), "only fixed attrs are set")

    for cls in (m.Generator, m.AnalogGenerator):
        mod = cls()
        check(mod.drawn_waveform.is_default, f"{cls.__name__}: default drawing")
        if cls is m.Generator:
            check(mod.chnk is False, "Generator.chnk False by default")
        raw = RawChunk()
        raw.chnm = 0
        raw.chdt = bytes(range(256))
        raw.chff = 0
        raw.chfr = 22050
        mod.load_chunk(raw)
        dw = mod.drawn_waveform
        check(dw.samples == list(range(128)) + list(range(-128, 0)), f"{cls.__name__}: sign")
        check(dw.format is dw.Format.mono_8bit and dw.freq == 22050, f"{cls.__name__}: ff")
        check(all(type(s) is int for s in dw.samples), f"{cls.__name__}: ints")
        if cls is m.Generator:
            check(mod.chnk == 4, "Generator.chnk 4 when drawn")
        raw.chdt = [300, -1, 128, 127, 256 + 128, -129, True]
        raw.chff = 2
        raw.chfr = None
        mod.load_drawn_waveform(raw)
        check(dw.samples == [44, -1, -128, 127, -128, 127, 1], f"{cls.__name__}: wide ints")
        check(dw.format is dw.Format.mono_16bit and dw.freq is None, f"{cls.__name__}: 16")
        raw.chff = 3
        try:
            mod.load_drawn_waveform(raw)
            check(False, "bad format accepted")
        except ValueError:
            pass
        other = RawChunk()
        other.chnm = 5
        other.chdt = b"\1\2\3"
        keep = list(dw.samples)
        mod.load_chunk(other)
        check(dw.samples == keep, f"{cls.__name__}: unknown chunk ignored")


if __name__ == "__main__":
    count, digest = run_all(digest_expected=EXPECTED_DIGEST, extra=array_checks)
    synthetic_array_checks()
    waveform_checks()
    finish(count)
