"""Behaviour check for C18 refactoring 2 (rv/modules/metamodule.py).

Run from the repository root:
    PYTHONPATH=src/python python check.py
"""
import glob
import hashlib
import io
import logging
import os
import struct
import sys
from pathlib import Path

import rv.errors as errors
import rv.modules.metamodule as mm_mod
import rv.modules.sampler as smp_mod
import rv.readers.reader as reader_mod
from rv.api import read_sunvox_file

FIXTURE_DIR = os.path.join("tests", "files")
if not os.path.isdir(FIXTURE_DIR):
    sys.exit("run from the repository root (tests/files not found)")

FIXTURES = sorted(glob.glob(os.path.join(FIXTURE_DIR, "**", "*.sun*"), recursive=True))
assert len(FIXTURES) >= 50, FIXTURES
NESTED_FIXTURES = [
    p for p in FIXTURES if "metamodule" in p or os.path.basename(p) == "sampler.sunsynth"
]
assert len(NESTED_FIXTURES) >= 5, NESTED_FIXTURES

REAL_PATH_OPEN = Path.open
REAL_BYTESIO = io.BytesIO
CHECKS = 0

logging.disable(logging.CRITICAL)


def ok(cond, *msg):
    global CHECKS
    CHECKS += 1
    if not cond:
        print("FAIL:", *msg)
        sys.exit(1)


class Injected(OSError):
    pass


class State:
    def __init__(self):
        self.reset()

    def reset(self, fail_at=None, fail_at_offset=None, nested_limit=None):
        self.reads = 0
        self.fail_at = fail_at
        self.fail_at_offset = fail_at_offset
        self.nested_limit = nested_limit
        self.flags_seen = set()
        self.nested_made = 0
        self.opened = []

    def on_read(self, f, top_level):
        self.flags_seen.add(errors.RAISE_CONTROLLER_VALUE_ERRORS)
        index = self.reads
        self.reads += 1
        if self.fail_at is not None and index == self.fail_at:
            raise Injected("injected at read {}".format(index))
        if top_level and self.fail_at_offset is not None:
            if f.tell() == self.fail_at_offset:
                raise Injected("injected at offset {}".format(self.fail_at_offset))


STATE = State()
FAILED = object()


class NestedIO(REAL_BYTESIO):
    """Stands in for BytesIO inside the module classes, to watch nested loads."""

    def __init__(self, *args):
        if args and STATE.nested_limit is not None:
            args = (args[0][: STATE.nested_limit],) + args[1:]
        if args:
            STATE.nested_made += 1
        super().__init__(*args)

    def read(self, *args):
        STATE.on_read(self, False)
        return super().read(*args)


class TopIO(REAL_BYTESIO):
    def read(self, *args):
        STATE.on_read(self, True)
        return super().read(*args)


class FileProxy:
    """Wraps whatever Path.open returned; the library only sees this object."""

    def __init__(self, real):
        self._real = real
        self.close_calls = 0

    @property
    def closed(self):
        return self._real.closed

    def read(self, *args):
        STATE.on_read(self._real, True)
        return self._real.read(*args)

    def close(self):
        self.close_calls += 1
        return self._real.close()

    def __getattr__(self, name):
        return getattr(self._real, name)


VIRTUAL_FILES = {}


def patched_open(self, *args, **kwargs):
    key = str(self)
    if key in VIRTUAL_FILES:
        real = REAL_BYTESIO(VIRTUAL_FILES[key])
    else:
        real = REAL_PATH_OPEN(self, *args, **kwargs)
    proxy = FileProxy(real)
    STATE.opened.append(proxy)
    return proxy


def describe(obj):
    if obj is None:
        return "ok:None"
    try:
        data = obj.read()
    except Exception as e:
        return "ok:{}:unwritable:{}".format(type(obj).__name__, type(e).__name__)
    return "ok:{}:{}".format(type(obj).__name__, hashlib.sha1(data).hexdigest()[:12])


def run_load(source, initial, expect_opened=None, **plan):
    """Load once under observation; returns an outcome string."""
    STATE.reset(**plan)
    errors.RAISE_CONTROLLER_VALUE_ERRORS = initial
    Path.open = patched_open
    mm_mod.BytesIO = NestedIO
    smp_mod.BytesIO = NestedIO
    try:
        outcome = None
        try:
            obj = read_sunvox_file(source)
        except BaseException as e:  # noqa
            outcome = "exc:{}".format(type(e).__name__)
            if isinstance(e, Injected):
                outcome += ":" + str(e)
            obj = FAILED
        after = errors.RAISE_CONTROLLER_VALUE_ERRORS
        flags_seen = set(STATE.flags_seen)
        opened = list(STATE.opened)
        nested = STATE.nested_made
        reads = STATE.reads
    finally:
        Path.open = REAL_PATH_OPEN
        mm_mod.BytesIO = REAL_BYTESIO
        smp_mod.BytesIO = REAL_BYTESIO
        errors.RAISE_CONTROLLER_VALUE_ERRORS = True
    ok(after is initial, "flag not restored", source, initial, plan, after)
    ok(
        flags_seen <= {errors.RAISE_RANGE_ERRORS_ON_READ},
        "flag while loading",
        source,
        flags_seen,
    )
    if expect_opened is not None:
        ok(len(opened) == expect_opened, "opened count", source, len(opened))
    for proxy in opened:
        ok(proxy.closed, "file left open", source, initial, plan)
        ok(proxy.close_calls == 1, "close calls", source, proxy.close_calls)
    if obj is not FAILED:
        outcome = describe(obj)
    return outcome, (nested, reads)


def iff_boundaries(data):
    """Offsets at which a top-level chunk starts (plus the end of data)."""
    offsets = []
    pos = 0
    while pos + 8 <= len(data):
        offsets.append(pos)
        (size,) = struct.unpack("<I", data[pos + 4 : pos + 8])
        pos += 8 + size
    offsets.append(len(data))
    return sorted(set(o for o in offsets if o <= len(data)))


def sample_indices(n, limit):
    if n <= limit:
        return list(range(n))
    head = list(range(limit // 3))
    tail = list(range(n - limit // 3, n))
    step = max(1, (n - 2 * (limit // 3)) // (limit // 3))
    middle = list(range(limit // 3, n - limit // 3, step))
    return sorted(set(head + middle + tail))


OUTCOMES = []


def note(tag, outcome):
    OUTCOMES.append("{}={}".format(tag, outcome))


def core_property_sweep():
    for path in FIXTURES:
        with open(path, "rb") as f:
            data = f.read()
        name = os.path.relpath(path, FIXTURE_DIR)
        nested_fixture = path in NESTED_FIXTURES

        # --- clean loads, every kind of source, both initial settings
        baseline = None
        for initial in (True, False):
            out_str, (nested, total_reads) = run_load(path, initial, expect_opened=1)
            out_path, _ = run_load(Path(path), initial, expect_opened=1)
            out_mem, _ = run_load(TopIO(data), initial, expect_opened=0)
            with open(path, "rb") as own:
                out_own, _ = run_load(own, initial, expect_opened=0)
                ok(not own.closed, "caller's file was closed", path)
            ok(out_str.startswith("ok:"), "clean load failed", path, out_str)
            ok(out_str == out_path == out_mem == out_own, "sources differ", path)
            ok(baseline in (None, out_str), "initial setting changed result", path)
            baseline = out_str
            if nested_fixture:
                ok(nested >= 1, "no nested load seen", path)
        note(name, baseline)
        ok(total_reads > 3, "too few reads", path, total_reads)

        # --- a fault injected at individual read calls (nested reads included)
        limit = 400 if nested_fixture else 90
        for index in sample_indices(total_reads, limit):
            initial = bool(index % 2)
            expected = "exc:Injected:injected at read {}".format(index)
            out, _ = run_load(path, initial, expect_opened=1, fail_at=index)
            ok(out == expected, "fault at read", path, index, out)
            if nested_fixture or index % 5 == 0:
                out, _ = run_load(TopIO(data), not initial, fail_at=index)
                ok(out == expected, "fault at read (memory)", path, index, out)
        out, _ = run_load(path, True, expect_opened=1, fail_at=total_reads)
        ok(out == baseline, "fault past the end", path, out)

        # --- a fault at each chunk boundary, truncation at each boundary
        boundaries = iff_boundaries(data)
        virtual = os.path.join(FIXTURE_DIR, "virtual-" + os.path.basename(path))
        for n, offset in enumerate(boundaries):
            initial = bool(n % 2)
            out, _ = run_load(
                path, initial, expect_opened=1, fail_at_offset=offset
            )
            if offset < len(data):
                ok(
                    out == "exc:Injected:injected at offset {}".format(offset),
                    "fault at boundary",
                    path,
                    offset,
                    out,
                )
            VIRTUAL_FILES[virtual] = data[:offset]
            out_a, _ = run_load(virtual, initial, expect_opened=1)
            out_b, _ = run_load(TopIO(data[:offset]), not initial)
            ok(out_a == out_b, "truncated: path vs memory", path, offset)
            note("{}@{}".format(name, offset), out_a)
        ok(out_a == baseline, "untruncated virtual file", path)

        # --- truncation at sampled byte offsets (and next to the boundaries)
        step = max(1, len(data) // 24)
        offsets = set(range(0, len(data), step))
        for b in boundaries[:40]:
            offsets.update((b - 1, b + 1, b + 4, b + 7, b + 9))
        for n, offset in enumerate(sorted(o for o in offsets if 0 <= o < len(data))):
            initial = bool(n % 2)
            VIRTUAL_FILES[virtual] = data[:offset]
            out_a, _ = run_load(Path(virtual), initial, expect_opened=1)
            note("{}~{}".format(name, offset), out_a)
        VIRTUAL_FILES.clear()

        # --- nested data cut short while the outer file is intact
        if nested_fixture:
            for limit in list(range(0, 64)) + list(range(64, 4096, 97)):
                for initial in (True, False):
                    out, (made, _) = run_load(
                        path, initial, expect_opened=1, nested_limit=limit
                    )
                    ok(made >= 1, "nested load not reached", path)
                note("{}#{}".format(name, limit), out)

    # --- sources that cannot even be opened
    for initial in (True, False):
        for bad in ("tests/files/does-not-exist.sunvox", Path(FIXTURE_DIR), ""):
            out, _ = run_load(bad, initial)
            ok(out.startswith("exc:"), "bad path loaded?", bad, out)
            note("bad:{!r}".format(str(bad)), out)
        out, _ = run_load(TopIO(b""), initial)
        note("empty", out)
        out, _ = run_load(TopIO(b"JUNKJUNKJUNK"), initial)
        note("junk", out)
        for bad in (None, 17, b"tests/files/empty.sunvox"):
            out, _ = run_load(bad, initial)
            note("type:{}".format(type(bad).__name__), out)


def context_manager_checks():
    cm = errors.override_raise_controller_value_errors
    for initial in (True, False):
        for new in (True, False):
            errors.RAISE_CONTROLLER_VALUE_ERRORS = initial
            with cm(new):
                ok(errors.RAISE_CONTROLLER_VALUE_ERRORS is new, "cm enter")
                with cm(not new):
                    ok(errors.RAISE_CONTROLLER_VALUE_ERRORS is (not new), "cm nest")
                ok(errors.RAISE_CONTROLLER_VALUE_ERRORS is new, "cm nest exit")
            ok(errors.RAISE_CONTROLLER_VALUE_ERRORS is initial, "cm exit")
            try:
                with cm(new):
                    raise KeyError("boom")
            except KeyError:
                pass
            ok(errors.RAISE_CONTROLLER_VALUE_ERRORS is initial, "cm exit on error")
    errors.RAISE_CONTROLLER_VALUE_ERRORS = True

    # lenient mode is not left on after a load, so bad values raise again
    from rv.api import m

    read_sunvox_file(os.path.join(FIXTURE_DIR, "metamodule.sunsynth"))
    try:
        read_sunvox_file(TopIO(b"SSYN\0\0\0\0SFFF"))
    except Exception:
        pass
    amp = m.Amplifier()
    try:
        amp.volume = 99999
    except errors.ControllerValueError:
        raised = True
    else:
        raised = False
    ok(raised, "out-of-range value did not raise after loads")


def finish(golden):
    digest = hashlib.sha1("\n".join(OUTCOMES).encode("utf8")).hexdigest()
    if "--show" in sys.argv:
        print(len(OUTCOMES), "outcomes", digest)
        kinds = {}
        for o in OUTCOMES:
            k = o.split("=", 1)[1].split(":")[:2]
            kinds[tuple(k[:2] if k[0] == "exc" else k[:1])] = (
                kinds.get(tuple(k[:2] if k[0] == "exc" else k[:1]), 0) + 1
            )
        print(kinds)
    ok(digest == golden, "outcome digest changed", digest)
    ok(errors.RAISE_CONTROLLER_VALUE_ERRORS is True, "flag at end")
    print("PASS ({} checks, {} recorded outcomes)".format(CHECKS, len(OUTCOMES)))


# ---------------------------------------------------------------------------
# Checks specific to rv/modules/metamodule.py (load_chunk and its helpers)
# ---------------------------------------------------------------------------


class FakeChunk:
    """What the module reader hands to load_chunk (attributes set one by one)."""

    def __init__(self, chnm, chdt=None):
        self.chnm = chnm
        if chdt is not None:
            self.chdt = chdt

    def __getattr__(self, name):
        if name == "chdt":
            return self._no_chdt  # a bound method, as on rv's own Chunk class
        raise AttributeError(name)

    def _no_chdt(self):
        return b""


def outcome_of(fn, *args):
    try:
        return ("ok", fn(*args))
    except Exception as e:
        return ("exc", type(e).__name__)


def metamodule_dispatch_checks():
    from rv.api import Project, m

    mapping_bytes = struct.pack("<HHHH", 3, 4, 5, 6)
    numbers = list(range(0, 130)) + [0xFF, 0x100, 0x101, 0x10A, 0xFFFF, 0xFFFFFFFF]
    for chnm in numbers:
        mod = m.MetaModule()
        calls = []
        mod.load_options = lambda c: calls.append(("options", c))
        mod.load_project = lambda c: calls.append(("project", c))
        mod.load_label = lambda c: calls.append(("label", c))
        before = [(v.module, v.controller) for v in mod.mappings.values]
        chunk = FakeChunk(chnm, mapping_bytes)
        result = mod.load_chunk(chunk)
        ok(result is None, "load_chunk returns None", chnm)
        after = [(v.module, v.controller) for v in mod.mappings.values]
        if chnm == 2:
            expected = [("options", chunk)]
        elif chnm == 0:
            expected = [("project", chunk)]
        elif chnm >= 8:
            expected = [("label", chunk)]
        else:
            expected = []
        ok(calls == expected, "dispatch", chnm, calls)
        if chnm == 1:
            ok(after[:3] == [(3, 4), (5, 6), (0, 0)], "mappings loaded", after[:3])
            ok(len(after) == 96, "mappings padded", len(after))
        else:
            ok(after == before, "mappings untouched", chnm)

    # the options chunk number wins over the other meanings
    for options_chnm in (0, 1, 8, 50):
        mod = m.MetaModule()
        calls = []
        mod.options_chnm = options_chnm
        mod.load_options = lambda c: calls.append("options")
        mod.load_project = lambda c: calls.append("project")
        mod.load_label = lambda c: calls.append("label")
        mod.load_chunk(FakeChunk(options_chnm, mapping_bytes))
        ok(calls == ["options"], "options precedence", options_chnm, calls)
        ok(mod.mappings.values[0].module == 0, "mappings untouched by options")

    # real option loading through load_chunk
    for first_byte in (0, 1, 2, 4, 0xFF):
        data = bytes([first_byte]) + bytes(range(1, 64))
        via_chunk, direct = m.MetaModule(), m.MetaModule()
        via_chunk.load_chunk(FakeChunk(2, data))
        direct.load_options(FakeChunk(2, data))
        ok(via_chunk.option_values == direct.option_values, "options", first_byte)
    ok(via_chunk.option_values != m.MetaModule().option_values, "options changed")

    # numbers nobody handles; bad numbers
    mod = m.MetaModule()
    for chnm in range(3, 8):
        ok(outcome_of(mod.load_chunk, FakeChunk(chnm)) == ("ok", None), "unused", chnm)
    ok(outcome_of(mod.load_chunk, FakeChunk(None, b"")) == ("exc", "TypeError"), "None")
    ok(outcome_of(mod.load_chunk, FakeChunk("8", b"")) == ("exc", "TypeError"), "str")
    ok(mod.chnk == 104, "chnk", mod.chnk)
    ok(mod.MappingArray.chnm == 1 and mod.mappings.chnm == 1, "mappings chnm")
    ok(mod.options_chnm == 2, "options chnm")

    # a mappings chunk replaces (rather than extends) what was there
    mod = m.MetaModule()
    mod.load_chunk(FakeChunk(1, struct.pack("<HH", 9, 9) * 96))
    ok(all(v.module == 9 for v in mod.mappings.values), "all 96 loaded")
    mod.load_chunk(FakeChunk(1, struct.pack("<HH", 1, 2)))
    pairs = [(v.module, v.controller) for v in mod.mappings.values]
    ok(pairs == [(1, 2)] + [(0, 0)] * 95, "mappings were reset", pairs[:3])
    mod.load_chunk(FakeChunk(1, b""))
    ok(all(v.module == 0 for v in mod.mappings.values), "empty mappings")
    ok(len(mod.mappings.values) == 96, "empty mappings padded")
    ok(outcome_of(mod.load_chunk, FakeChunk(1))[0] == "exc", "mappings without data")


def metamodule_label_checks():
    from rv.api import m

    cases = [
        (b"abc\0", "abc"),
        (b"abc", "abc"),
        (b"", ""),
        (b"\0", ""),
        (b"\0\0\0", ""),
        (b"\0abc", ""),
        (b"ab\0cd\0", "ab"),
        (b"ab\0\xff\xfe", "ab"),
        ("héllo ♫\0".encode("utf8"), "héllo ♫"),
        (b"x" * 300 + b"\0", "x" * 300),
        (b"Volume 1", "Volume 1"),
    ]
    mod = m.MetaModule()
    for n, (raw, text) in enumerate(cases):
        for chnm in (8, 9 + n, 103):
            mod.load_chunk(FakeChunk(chnm, raw))
            ok(mod.user_defined[chnm - 8].label == text, "label", raw, chnm)
    ok(mod.user_defined[50].label is None, "other labels untouched")
    ok(outcome_of(mod.load_chunk, FakeChunk(8, b"\xff\0")) == ("exc", "UnicodeDecodeError"), "bad utf8")
    ok(outcome_of(mod.load_chunk, FakeChunk(8, b"ab\xff")) == ("exc", "UnicodeDecodeError"), "bad utf8 2")
    ok(outcome_of(mod.load_chunk, FakeChunk(104, b"a")) == ("exc", "IndexError"), "label 97")
    ok(outcome_of(mod.load_chunk, FakeChunk(0xFFFFFFFF, b"a")) == ("exc", "IndexError"), "huge")
    ok(outcome_of(mod.load_chunk, FakeChunk(8)) == ("exc", "TypeError"), "label without data")
    ok(outcome_of(mod.load_chunk, FakeChunk(104)) == ("exc", "IndexError"), "index checked first")
    ok(outcome_of(mod.load_label, FakeChunk(7, b"neg\0")) == ("ok", None), "direct call, -1")
    ok(mod.user_defined[95].label == "neg", "negative index wraps as before")
    ok(outcome_of(mod.load_chunk, FakeChunk(8, bytearray(b"ba\0x"))) == ("ok", None), "bytearray")
    ok(mod.user_defined[0].label == "ba", "bytearray label")


def build_nested(depth, labels):
    """A synth holding MetaModules nested `depth` deep, each with labels."""
    from rv.api import Project, Synth, m

    inner = Project()
    inner.attach_module(m.Amplifier(volume=300))
    for level in range(depth):
        mm = m.MetaModule(project=inner, user_defined_controllers=len(labels))
        mm.mappings.values[0] = mm.Mapping((1, 0))
        for i, label in enumerate(labels):
            mm.user_defined[i].label = label
        if level == depth - 1:
            return Synth(mm)
        inner = Project()
        inner.attach_module(mm)
        inner.attach_module(m.Generator())


def iff_numbers(data):
    """(name, number-or-length) for each chunk of some written file content."""
    from rv.lib.iff import chunks

    out = []
    for chunk_name, chunk_data in chunks(REAL_BYTESIO(data)):
        if chunk_name == b"CHNM":
            out.append(("CHNM", struct.unpack("<I", chunk_data)[0]))
        elif chunk_name in (b"CHDT", b"CHNK"):
            out.append((chunk_name.decode(), len(chunk_data)))
    return out


def metamodule_nested_checks():
    from rv.api import Project, Synth, m

    labels = ["Cutoff", None, "", "Réso", "5th"]
    for depth in (1, 2, 3, 4):
        synth = build_nested(depth, labels)
        data = synth.read()
        numbers = iff_numbers(data)
        chnm_seen = [v for k, v in numbers if k == "CHNM"]
        ok(chnm_seen == [0, 1, 2, 8, 10, 11, 12], "written chunk numbers", chnm_seen)
        ok(("CHNK", 4) in numbers, "CHNK present")

        for initial in (True, False):
            out, (nested, reads) = run_load(TopIO(data), initial)
            ok(out.startswith("ok:Synth:"), "nested load", depth, out)
            ok(nested == depth, "nested load count", depth, nested)
        VIRTUAL_FILES["nested.sunsynth"] = data
        out_path, _ = run_load("nested.sunsynth", True, expect_opened=1)
        ok(out_path == out, "nested via path")

        loaded = read_sunvox_file(REAL_BYTESIO(data))
        ok(loaded.read() == data, "write/read/write is stable", depth)
        level = loaded.module
        for _ in range(depth):
            ok(type(level).__name__ == "MetaModule", "level type")
            got = [c.label for c in level.user_defined[:6]]
            ok(got == ["Cutoff", None, "", "Réso", "5th", None], "labels", got)
            ok(level.user_defined_controllers == 5, "controller count")
            ok(isinstance(level.project, Project), "embedded project")
            m0 = level.mappings.values[0]
            ok((m0.module, m0.controller) == (1, 0), "mapping kept")
            level = level.project.modules[1]
        ok(type(level).__name__ == "Amplifier" and level.volume == 300, "innermost")

        # a fault at every single read of the nested structure
        for index in sample_indices(reads, 600):
            initial = bool(index % 2)
            expected = "exc:Injected:injected at read {}".format(index)
            out, _ = run_load("nested.sunsynth", initial, expect_opened=1, fail_at=index)
            ok(out == expected, "nested fault", depth, index, out)
        # embedded data cut short at every level at once
        for limit in list(range(0, 40)) + list(range(40, len(data), 61)):
            out_a, _ = run_load("nested.sunsynth", True, expect_opened=1, nested_limit=limit)
            out_b, _ = run_load(TopIO(data), False, nested_limit=limit)
            ok(out_a == out_b, "cut nested", depth, limit)
            note("nested{}#{}".format(depth, limit), out_a)
        VIRTUAL_FILES.clear()

    # load_project on its own: same result and errors as a direct read
    project_bytes = Project().read()
    for initial in (True, False):
        for content in (project_bytes, project_bytes[:30], b"", b"junk", b"SVOX\0\0\0\0"):
            errors.RAISE_CONTROLLER_VALUE_ERRORS = initial
            direct = outcome_of(read_sunvox_file, REAL_BYTESIO(content))
            mod = m.MetaModule()
            via = outcome_of(mod.load_chunk, FakeChunk(0, content))
            ok(errors.RAISE_CONTROLLER_VALUE_ERRORS is initial, "flag after load_project")
            if direct[0] == "exc":
                ok(via == direct, "load_project error", content[:8], via, direct)
            else:
                ok(via == ("ok", None), "load_project result", via)
                ok(type(mod.project) is type(direct[1]), "project type")
                if direct[1] is not None:
                    ok(mod.project.read() == direct[1].read(), "project content")
        mod = m.MetaModule()
        ok(outcome_of(mod.load_chunk, FakeChunk(0)) == ("exc", "TypeError"), "no data")
        ok(errors.RAISE_CONTROLLER_VALUE_ERRORS is initial, "flag after TypeError")
    errors.RAISE_CONTROLLER_VALUE_ERRORS = True


if __name__ == "__main__":
    metamodule_dispatch_checks()
    metamodule_label_checks()
    metamodule_nested_checks()
    context_manager_checks()
    core_property_sweep()
    finish("3d46c3e2ce7cebd238b5573c82b2adb2f5440306")
