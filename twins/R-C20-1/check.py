"""Behaviour check for rv.modules.multictl.convert_value (property C20).

Compares the library's convert_value against an independent, frozen copy of
the scaling arithmetic for a broad grid of (gain, quantization, window,
destination span, vmax, curve) tuples, enumerating the whole 0..32768 value
axis for a set of tuples and a strided axis for the rest.  Also pins a few
literal results and does a short in-project sanity run.
"""
import itertools
import random
import sys

import rv.api as rv
from rv.modules.base.multictl import BaseMultiCtl
from rv.modules.multictl import MultiCtl, convert_value

FAILS = []


def expect(cond, msg):
    if not cond:
        FAILS.append(msg)


def ref_convert(gain, qsteps, smin, smax, dmin, dmax, vmax, value, curve=None):
    v = (value * gain) / 256
    v = min(v, 32768)
    if curve is not None:
        k = int(v / 128)
        off = v - 128 * k
        lo = curve[k]
        hi = curve[k + 1] if k < 256 else lo
        w = min(off / 128, 1.0)
        v = int((w * hi) + ((1.0 - w) * lo))
    span = smax - smin
    if qsteps < 32768:
        q = max(qsteps - 1, 1)
        st = 32768 / q
        v = int(v / st)
        v = (v * st) / 32768
        v = smin + int(span * v)
    else:
        v = smin + (span * v) // 32768
    if vmax is not None:
        v /= 32768 / vmax
    if dmax - dmin > 0:
        v += dmin
    else:
        v = dmin - v
    return int(v)


DEFAULT_CURVE = list(BaseMultiCtl.curve_chunk.default)
rng = random.Random(20)
STEPPY = sorted(rng.randrange(0, 32769) for _ in range(257))
STEPPY[0], STEPPY[-1] = 0, 32768
SQUARE = [min(32768, (i * i) // 2) for i in range(257)]
FLAT = [12345] * 257
FALLING = list(reversed(DEFAULT_CURVE))
CURVES = {
    "none": None,
    "default": DEFAULT_CURVE,
    "steppy": STEPPY,
    "square": SQUARE,
    "flat": FLAT,
    "falling": FALLING,
}

FULL_AXIS = range(0, 32769)
EDGE_VALUES = sorted(
    set(
        [0, 1, 2, 63, 64, 127, 128, 129, 255, 256, 257, 1000, 8191, 8192, 16383]
        + [16384, 16385, 24576, 32639, 32640, 32641, 32766, 32767, 32768]
        + list(range(0, 32769, 509))
    )
)


def compare(params, values, cname):
    gain, q, smin, smax, dmin, dmax, vmax = params
    curve = CURVES[cname]
    for value in values:
        try:
            want = ("ok", ref_convert(gain, q, smin, smax, dmin, dmax, vmax, value, curve))
        except Exception as e:  # noqa
            want = ("err", type(e).__name__)
        try:
            got = ("ok", convert_value(gain, q, smin, smax, dmin, dmax, vmax, value, curve))
        except Exception as e:  # noqa
            got = ("err", type(e).__name__)
        if got != want:
            expect(False, f"convert_value{params + (value, cname)}: {got} != {want}")
            return False
        if got[0] == "ok" and type(got[1]) is not int:
            expect(False, f"convert_value{params + (value, cname)} not int")
            return False
    return True


def windows_for(span, vmax_mode):
    """(smin, smax, dmin, dmax, vmax) the way MultiCtl would present them."""
    out = []
    for lo, hi in [(0, 32768), (0, 0), (32768, 32768), (100, 20000), (0, 256), (5, 6), (12000, 32768)]:
        vmax = None if vmax_mode == "compact" else span
        out.append((lo, hi, 0, span, vmax))  # normal
        out.append((lo, hi, span, 0, vmax))  # reversed
    return out


# 1. complete value axis for a set of parameter tuples
full_tuples = [
    (256, 32768, 0, 32768, 0, 256, 256),
    (256, 32768, 0, 32768, 256, 0, 256),
    (256, 32768, 0, 256, 0, 256, None),
    (256, 32768, 0, 256, 256, 0, None),
    (1024, 32768, 0, 32768, 0, 1000, 1000),
    (100, 7, 300, 30000, 0, 32768, 32768),
    (300, 2, 0, 32768, 15, 0, 15),
    (257, 1, 0, 32768, 0, 1, 1),
    (512, 0, 0, 1, 0, 1, None),
    (271, 16, 1, 32, 0, 31, 31),
    (0, 32768, 0, 32768, 0, 512, 512),
    (1, 32767, 0, 32768, 0, 32768, 32768),
]
for params in full_tuples:
    for cname in ("none", "default", "steppy"):
        compare(params, FULL_AXIS, cname)

# 2. broad grid on a strided axis
gains = [0, 1, 37, 128, 255, 256, 257, 300, 512, 1023, 1024]
quants = [0, 1, 2, 3, 5, 16, 255, 1000, 32767, 32768]
spans = [1, 2, 15, 128, 256, 1000, 32768]
count = 0
for gain, q, span in itertools.product(gains, quants, spans):
    for vmax_mode in ("scaled", "compact"):
        for smin, smax, dmin, dmax, vmax in windows_for(span, vmax_mode):
            cname = ("none", "default", "steppy", "square", "flat", "falling")[count % 6]
            compare((gain, q, smin, smax, dmin, dmax, vmax), EDGE_VALUES, cname)
            count += 1

# 3. random tuples
for _ in range(400):
    span = rng.choice(spans + [rng.randrange(1, 32769)])
    a, b = rng.randrange(0, 32769), rng.randrange(0, 32769)
    smin, smax = min(a, b), max(a, b)
    rev = rng.random() < 0.5
    vmax = None if rng.random() < 0.3 else span
    params = (
        rng.randrange(0, 1025),
        rng.choice([32768, rng.randrange(0, 32769)]),
        smin,
        smax,
        span if rev else 0,
        0 if rev else span,
        vmax,
    )
    compare(params, [rng.randrange(0, 32769) for _ in range(120)] + [0, 32768], rng.choice(list(CURVES)))

# 4. error behaviour is the same kind: short curve -> IndexError, vmax 0 -> ZeroDivisionError
for bad, exc in [
    (lambda: convert_value(256, 32768, 0, 32768, 0, 10, 10, 32768, [0, 1, 2]), IndexError),
    (lambda: convert_value(256, 32768, 0, 32768, 0, 0, 0, 100, None), ZeroDivisionError),
]:
    try:
        bad()
        expect(False, f"expected {exc.__name__}")
    except exc:
        pass

# curve default argument really is optional / keyword usable
expect(convert_value(256, 32768, 0, 32768, 0, 256, 256, 16384) == 128, "positional default curve")
expect(
    convert_value(gain=256, qsteps=32768, smin=0, smax=32768, dmin=0, dmax=256, vmax=256, value=16384, curve=None)
    == 128,
    "keyword call",
)

# 5. pinned literals
pins = [
    ((256, 32768, 0, 32768, 0, 256, 256, 0), 0),
    ((256, 32768, 0, 32768, 0, 256, 256, 32768), 256),
    ((256, 32768, 0, 32768, 256, 0, 256, 0), 256),
    ((256, 32768, 0, 32768, 256, 0, 256, 32768), 0),
    ((512, 32768, 0, 32768, 0, 256, 256, 16384), 256),
    ((128, 32768, 0, 32768, 0, 256, 256, 32768), 128),
    ((256, 2, 0, 32768, 0, 256, 256, 32767), 0),
    ((256, 3, 0, 32768, 0, 256, 256, 16384), 128),
    ((256, 32768, 0, 256, 0, 256, None, 32768), 256),
    ((256, 32768, 0, 256, 256, 0, None, 16384), 128),
]
for args, want in pins:
    for cname in ("none", "default"):
        got = convert_value(*args, CURVES[cname])
        expect(got == want, f"pin {args} {cname}: {got} != {want}")

# 6. in-project: containment + monotonicity on the default configuration
p = rv.Project()
amp = p.new_module(rv.m.Amplifier)
ms = p.new_module(rv.m.MultiSynth)
flt = p.new_module(rv.m.Filter)
mc = MultiCtl.macro(p, (amp, "volume"), (ms, "transpose"), (flt, "freq"))
prev = None
for v in list(range(0, 32769, 97)) + [32768]:
    mc.value = v
    got = (amp.volume, ms.transpose, flt.freq)
    exp = (
        ref_convert(256, 32768, 0, 32768, 0, 1024, 1024, v, DEFAULT_CURVE),
        ref_convert(256, 32768, 0, 256, 0, 256, None, v, DEFAULT_CURVE) - 128,
        ref_convert(256, 32768, 0, 32768, 0, 14000, 14000, v, DEFAULT_CURVE),
    )
    expect(got == exp, f"project value {v}: {got} != {exp}")
    expect(0 <= got[0] <= 1024 and -128 <= got[1] <= 128 and 0 <= got[2] <= 14000, f"range {v} {got}")
    if prev is not None:
        expect(all(a <= b for a, b in zip(prev, got)), f"monotone {v} {prev} {got}")
    prev = got

if FAILS:
    print("FAIL")
    for f in FAILS[:20]:
        print("  ", f)
    sys.exit(1)
print("PASS")
