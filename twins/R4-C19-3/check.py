"""Behaviour check for Pattern.clear / Pattern.data / Pattern.raw_data (property C19).

Run as:  cd <root> && PYTHONPATH=<root>/src/python /venv/bin/python check.py
"""
import struct
import sys

from rv.api import Project, m
from rv.note import NOTE, NOTECMD, Note
from rv.pattern import Pattern

FAILS = []


def check(cond, msg):
    if not cond:
        FAILS.append(msg)


def owned(p):
    return all(n.pattern is p for row in p.data for n in row)


def blank(n):
    return (
        n.note is NOTECMD.EMPTY and n.vel == 0 and n.module == 0 and n.ctl == 0 and n.val == 0
    )


def well_formed(p, lines, tracks, tag):
    d = p.data
    check(isinstance(d, list) and len(d) == lines, f"{tag}: line count")
    check(all(type(r) is list and len(r) == tracks for r in d), f"{tag}: track count")
    check(len({id(r) for r in d}) == lines, f"{tag}: rows distinct")
    notes = [n for r in d for n in r]
    check(len({id(n) for n in notes}) == lines * tracks, f"{tag}: notes distinct")
    check(all(type(n) is Note for n in notes), f"{tag}: note type")


def pattern_bytes(lines, tracks, seed):
    out = bytearray()
    for i in range(lines * tracks):
        out += struct.pack(
            "<BBHHH",
            (seed + i) % 120 + 1,
            (seed * 3 + i) % 130,
            (seed + 7 * i) % 0x10000,
            (seed * 257 + i * 13) % 0x10000,
            (seed * 4099 + i * 31) % 0x10000,
        )
    return bytes(out)


SHAPES = [(1, 1), (1, 4), (2, 2), (3, 1), (5, 3), (4, 32), (33, 2)]

for lines, tracks in SHAPES:
    for attached in (False, True):
        tag = f"{lines}x{tracks} attached={attached}"
        p = Pattern(lines=lines, tracks=tracks)
        proj = None
        if attached:
            proj = Project()
            proj.attach_module(m.Generator())
            proj.attach_pattern(p)

        # lazy creation through .data
        check(not hasattr(p, "_data"), f"{tag}: no _data before first access")
        d = p.data
        check(p._data is d and p.data is d, f"{tag}: data is cached")
        well_formed(p, lines, tracks, tag)
        check(owned(p), f"{tag}: cleared notes owned")
        check(all(blank(n) for r in d for n in r), f"{tag}: cleared notes blank")
        check(all(n.project is proj for r in d for n in r), f"{tag}: note.project")
        check(p.raw_data == bytes(8 * lines * tracks), f"{tag}: blank raw_data")

        # lazy creation through .raw_data getter and setter
        p2 = Pattern(lines=lines, tracks=tracks)
        check(p2.raw_data == bytes(8 * lines * tracks) and hasattr(p2, "_data"), f"{tag}: lazy raw getter")
        p3 = Pattern(lines=lines, tracks=tracks)
        raw = pattern_bytes(lines, tracks, 5)
        p3.raw_data = raw
        check(p3.raw_data == raw and owned(p3), f"{tag}: lazy raw setter")

        # raw_data setter keeps note objects, changes content in place
        ids = [[id(n) for n in r] for r in d]
        for seed in (1, 77):
            raw = pattern_bytes(lines, tracks, seed)
            p.raw_data = raw
            check(p._data is d, f"{tag}: raw setter keeps array")
            check([[id(n) for n in r] for r in p.data] == ids, f"{tag}: raw setter keeps notes")
            check(p.raw_data == raw, f"{tag}: raw roundtrip seed={seed}")
            for l in range(lines):
                for t in range(tracks):
                    off = (l * tracks + t) * 8
                    n = p.data[l][t]
                    check(n.raw_data == raw[off : off + 8], f"{tag}: cell ({l},{t}) bytes")
                    exp = struct.unpack("<BBHHH", raw[off : off + 8])
                    check((n.note, n.vel, n.module, n.ctl, n.val) == exp, f"{tag}: cell fields")
            check(owned(p), f"{tag}: owned after raw setter")
        # bytearray / memoryview / longer input accepted
        p.raw_data = bytearray(raw)
        check(p.raw_data == raw, f"{tag}: bytearray input")
        p.raw_data = memoryview(raw + b"\xff" * 5)
        check(p.raw_data == raw, f"{tag}: memoryview + trailing input")
        check(dict(p.iff_chunks())[b"PDTA"] == raw, f"{tag}: PDTA chunk")

        # short input: cells before the cut are written, then struct.error
        if lines * tracks > 1:
            cut = (lines * tracks - 1) * 8 + 3
            other = pattern_bytes(lines, tracks, 200)
            try:
                p.raw_data = other[:cut]
            except struct.error:
                pass
            else:
                check(False, f"{tag}: short raw_data should raise struct.error")
            check(p.raw_data == other[: cut - 3] + raw[cut - 3 :], f"{tag}: partial raw write")
            p.raw_data = raw

        # clear(): new array, new blank notes, old array untouched
        old_rows = list(d)
        old_notes = [list(r) for r in d]
        ret = p.clear()
        check(ret is None, f"{tag}: clear returns None")
        check(p._data is not d, f"{tag}: clear installs new array")
        check(all(a is b for a, b in zip(d, old_rows)) and len(d) == lines, f"{tag}: old array untouched")
        check(b"".join(n.raw_data for r in old_notes for n in r) == raw, f"{tag}: old notes untouched")
        check(all(n.pattern is p for r in old_notes for n in r), f"{tag}: old notes keep owner")
        well_formed(p, lines, tracks, tag + " after clear")
        check(not ({id(n) for r in p.data for n in r} & {id(n) for r in old_notes for n in r}), f"{tag}: notes replaced")
        check(owned(p) and all(blank(n) for r in p.data for n in r), f"{tag}: clear blank+owned")
        check(p.raw_data == bytes(8 * lines * tracks), f"{tag}: raw after clear")

        # bulk edits then clear then bulk edits (histories)
        p.set_via_fn(lambda pat, l, t: Note(note=NOTE.C3, val=l * tracks + t))
        check(owned(p), f"{tag}: owned after fn")
        snap = (p._data, p.raw_data)
        try:
            p.set_via_gen(lambda pat, new: (_ for _ in ()).throw(KeyError("k")))
        except KeyError:
            pass
        check(p._data is snap[0] and p.raw_data == snap[1], f"{tag}: failed gen keeps data")
        p.clear()
        check(p.raw_data == bytes(8 * lines * tracks) and owned(p), f"{tag}: clear after fn")
        p.set_via_gen(lambda pat, new: iter([(lines - 1, tracks - 1, Note(vel=7))]))
        check(p.data[lines - 1][tracks - 1].vel == 7 and owned(p), f"{tag}: gen after clear")
        check(all(n.project is proj for r in p.data for n in r), f"{tag}: project after edits")

        # resize then clear
        p.lines, p.tracks = lines + 1, max(1, tracks - 1)
        p.clear()
        well_formed(p, lines + 1, max(1, tracks - 1), tag + " resized")
        check(owned(p), f"{tag}: resized owned")
        check(len(p.raw_data) == 8 * (lines + 1) * max(1, tracks - 1), f"{tag}: resized raw len")

# ---- degenerate sizes (set after construction, validators only run in __init__) ------
p = Pattern()
p.lines = 0
p.clear()
check(p.data == [] and p.raw_data == b"", "zero lines")
p.raw_data = b""
p = Pattern(lines=3)
p.tracks = 0
p.clear()
check(p.data == [[], [], []] and p.raw_data == b"", "zero tracks")
check(len({id(r) for r in p.data}) == 3, "zero tracks rows distinct")
p.raw_data = b"anything"
p = Pattern()
p.lines = -2
p.clear()
check(p.data == [], "negative lines")
p = Pattern(lines=2)
p.tracks = -1
p.clear()
check(p.data == [[], []], "negative tracks")

# ---- failure while (re)building: what is left behind ---------------------------------
p = Pattern(lines=2, tracks=2)
p.data[0][0].vel = 5
p.lines = "x"
try:
    p.clear()
except TypeError:
    pass
else:
    check(False, "clear with bad lines should raise TypeError")
check(p._data == [], "bad lines leaves empty array")
p = Pattern(lines=2, tracks=2)
p.tracks = "x"
try:
    p.clear()
except TypeError:
    pass
else:
    check(False, "clear with bad tracks should raise TypeError")
check(p._data == [[]], f"bad tracks leaves one empty row: {p._data!r}")
p = Pattern(lines=2, tracks=2)
p.lines = None
try:
    p.data
except TypeError:
    pass
else:
    check(False, "data with bad lines should raise TypeError")
check(p.data == [], "data after failed lazy clear")

# more lines declared than stored
p = Pattern(lines=2, tracks=2)
p.data
p.lines = 3
try:
    p.raw_data = bytes(8 * 6)
except IndexError:
    pass
else:
    check(False, "raw setter beyond stored lines should raise IndexError")
check(len(p.raw_data) == 32, "getter uses stored rows")

# defaults
p = Pattern()
check(len(p.data) == 32 and all(len(r) == 4 for r in p.data) and owned(p), "default shape")
check(p.tabular_repr().count("\n") == 32, "tabular_repr lines")
check(p.source_pattern is p, "source_pattern")

# ---- file round trip exercises raw_data getter + setter + lazy clear ------------------
proj = Project()
g = proj.attach_module(m.Generator())
pat = Pattern(lines=6, tracks=3, name="rt")
proj.attach_pattern(pat)
raw = pattern_bytes(6, 3, 42)
# keep values valid for a reader (note 1..127, vel <= 129)
pat.raw_data = raw
clone = proj.clone()
cp = clone.patterns[0]
check(cp.raw_data == raw, "file round trip raw_data")
check(cp.lines == 6 and cp.tracks == 3 and cp.name == "rt", "file round trip shape")
check(owned(cp) and all(n.project is clone for r in cp.data for n in r), "file round trip ownership")

if FAILS:
    print("FAIL")
    for f in FAILS[:40]:
        print("  ", f)
    sys.exit(1)
print("PASS")
