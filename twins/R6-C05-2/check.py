"""Behaviour check for the C05-2 refactoring (typing + reorganisation of the raw value
conversion and of out-of-range reporting in rv.controller / rv.errors /
rv.modules.module).

Run from the repository root:
    PYTHONPATH=<root>/src/python python check.py

Exercises Range.to_raw_value/from_raw_value/validate (all Range flavours),
Controller.set_initial, Module.get_raw/set_raw for every controller of every module
type in both error modes (raise / warn-on-read), the log records that are produced,
and the C05 property on fixtures whose CVALs were pushed out of range.  Everything
observed is hashed and compared with the digest recorded on the unchanged tree.
"""
import hashlib
import io
import logging
import struct
import sys
from collections import Counter
from enum import Enum
from pathlib import Path

import rv.api as rv
import rv.controller as controller_mod
import rv.errors as errors_mod
from rv.controller import (
    CompactRange,
    Controller,
    DependentRange,
    NoOffsetRange,
    Range,
    WarnOnlyRange,
)
from rv.errors import (
    ControllerValueError,
    RangeValidationError,
    override_raise_controller_value_errors,
    raise_or_warn_controller_value_validation,
)
from rv.lib.iff import chunks as iff_chunks
from rv.modules import MODULE_CLASSES
from rv.readers.reader import read_sunvox_file
from rv.synth import Synth

EXPECTED_DIGEST = "f6cf8d9aadd0de36e9471ef6a547fff474dd4694d5bf020b5f555f797e75904f"

ROOT = Path.cwd()
FILES = sorted(
    p
    for p in (ROOT / "tests" / "files").rglob("*")
    if p.suffix in (".sunvox", ".sunsynth")
)
assert len(FILES) > 40, "run me from the repository root"

digest = hashlib.sha256()
failures = []
stats = Counter()


def note(*parts):
    for part in parts:
        if not isinstance(part, bytes):
            part = repr(part).encode()
        digest.update(len(part).to_bytes(8, "little"))
        digest.update(part)


def check(cond, msg):
    if not cond:
        failures.append(msg)


def typed(value):
    """repr that also tells bool from int and keeps the sign of zero."""
    return (type(value).__name__, repr(value))


class Capture(logging.Handler):
    """Collects (logger name, level, message, exception type/args) of rv.* records."""

    def __init__(self):
        super().__init__(level=logging.DEBUG)
        self.records = []

    def emit(self, record):
        exc = record.exc_info[1] if record.exc_info else None
        self.records.append(
            (
                record.name,
                record.levelname,
                record.getMessage(),
                record.funcName,
                type(exc).__name__ if exc is not None else None,
                getattr(exc, "args", None),
            )
        )

    def take(self):
        out, self.records = self.records, []
        return out


capture = Capture()
rv_logger = logging.getLogger("rv")
rv_logger.addHandler(capture)
rv_logger.setLevel(logging.WARNING)
rv_logger.propagate = False


def outcome(fn, *args):
    """('ok', typed result) or ('exc', type, args, cause type), plus log records."""
    try:
        result = ("ok", typed(fn(*args)))
    except Exception as e:  # noqa - error types are part of the behaviour
        cause = type(e.__cause__).__name__ if e.__cause__ is not None else None
        result = ("exc", type(e).__name__, repr(e.args), cause)
    return result, capture.take()


# ------------------------------------------------ 1. public names still there

for mod, names in (
    (
        controller_mod,
        "Controller Range WarnOnlyRange CompactRange NoOffsetRange DependentRange log",
    ),
    (
        errors_mod,
        "RAISE_CONTROLLER_VALUE_ERRORS RAISE_RANGE_ERRORS_ON_READ RadiantVoicesError "
        "ControllerValueError MappingError RangeValidationError EmptySynthError "
        "ModuleOwnershipError PatternOwnershipError RadiantVoicesWarning "
        "ControllerValueWarning raise_or_warn_controller_value_validation "
        "override_raise_controller_value_errors",
    ),
):
    for name in names.split():
        check(hasattr(mod, name), f"{mod.__name__}.{name} is gone")
check(errors_mod.RAISE_CONTROLLER_VALUE_ERRORS is True, "default error mode changed")
check(errors_mod.RAISE_RANGE_ERRORS_ON_READ is False, "default read mode changed")
check(issubclass(ControllerValueError, ValueError), "ControllerValueError base")
check(not issubclass(RangeValidationError, ValueError), "RangeValidationError base")

# ------------------------------------------------ 2. Range arithmetic

RANGES = [
    Range(0, 256),
    Range(-128, 128),
    Range(-1, 1),
    Range(1, 16384),
    Range(-32768, 32767),
    CompactRange(-128, 128),
    CompactRange(0, 32),
    WarnOnlyRange(0, 256),
    WarnOnlyRange(-100, 100),
    NoOffsetRange(-128, 128),
    NoOffsetRange(0, 10),
]
VALUES = [
    0, 1, -1, 127, 128, 129, 255, 256, 300, 428, 556, -128, -129, -300, 32768, 70000,
    -(2**31), 2**31 - 1, True, False, 0.0, -0.0, 1.5, -2.5,
]
for r in RANGES:
    note("range", repr(r), type(r).__name__, r.min, r.max)
    for v in VALUES:
        for method in ("to_raw_value", "from_raw_value", "validate", "__call__"):
            res, logs = outcome(getattr(r, method), v)
            note(repr(r), method, typed(v), res, logs)
        # identities the property relies on
        if not isinstance(v, float):
            back = r.from_raw_value(r.to_raw_value(v))
            check(back == v, f"{r!r}: from_raw(to_raw({v})) = {back}")
            forth = r.to_raw_value(r.from_raw_value(v))
            check(forth == v, f"{r!r}: to_raw(from_raw({v})) = {forth}")
    if r.min >= 0 or isinstance(r, NoOffsetRange):
        check(r.to_raw_value(True) is True, f"{r!r}: to_raw must hand back its argument")
        check(r.from_raw_value(False) is False, f"{r!r}: from_raw must hand back its argument")
    else:
        check(r.to_raw_value(r.min) == 0, f"{r!r}: minimum is not stored as 0")
        check(r.from_raw_value(0) == r.min, f"{r!r}: 0 is not read as minimum")
    for other in RANGES:
        note("eq", repr(r), repr(other), r == other, r != other)

note("compare-to-other-types", Range(0, 1) == (0, 1), Range(0, 1) == None)  # noqa: E711

# raise_or_warn in both modes, with several argument shapes
for mode in (True, False):
    with override_raise_controller_value_errors(mode):
        for args in (("plain message",), ("fmt %s %d", "a", 3), ()):
            src = RangeValidationError(1, 2, 3)
            res, logs = outcome(
                raise_or_warn_controller_value_validation,
                src,
                logging.getLogger("rv.check"),
                *args,
            )
            note("raise_or_warn", mode, args, res, logs)
    check(errors_mod.RAISE_CONTROLLER_VALUE_ERRORS is True, "override did not restore")
try:
    with override_raise_controller_value_errors(False):
        raise KeyError("boom")
except KeyError:
    pass
check(errors_mod.RAISE_CONTROLLER_VALUE_ERRORS is True, "override did not restore on error")

# ------------------------------------------------ 3. set_initial / get_raw / set_raw

RAW_VALUES = [0, 1, 2, 5, 127, 128, 255, 256, 257, 300, 428, 1000, 32768, 40000, 70000,
              -1, -2, -128, -300, 2**31 - 1, -(2**31)]


def interesting_values(controller, module):
    t = controller.instance_value_type(module)
    if isinstance(t, Range):
        span = [t.min - 300, t.min - 1, t.min, t.min + 1, 0, t.max - 1, t.max, t.max + 1,
                t.max + 300, 300]
        return span
    if isinstance(t, type) and issubclass(t, Enum):
        members = list(t)
        return members[:3] + [members[-1].name, members[0].value, 9999, "no_such_member"]
    if t is bool:
        return [True, False, 0, 1, 2, None]
    return [0, 1, None]


def module_state(mod):
    return (
        sorted((k, typed(v)) for k, v in mod.controller_values.items()),
        sorted(mod.controllers_loaded),
    )


for mtype, cls in sorted(MODULE_CLASSES.items()):
    for cname in cls.controllers:
        for mode in (True, False):
            with override_raise_controller_value_errors(mode):
                # --- assignment / set_initial
                mod = cls()
                mod.index = 0x1F
                ctl = cls.controllers[cname]
                for v in interesting_values(ctl, mod):
                    res, logs = outcome(setattr, mod, cname, v)
                    note("set", mtype, cname, mode, typed(v), res, logs, module_state(mod))
                    stats["set " + res[0]] += 1
                    res, logs = outcome(mod.get_raw, cname)
                    note("get_raw-after-set", res, logs)
                mod = cls()
                for v in interesting_values(ctl, mod)[:4]:
                    res, logs = outcome(ctl.set_initial, mod, v)
                    note("set_initial", mtype, cname, mode, typed(v), res, logs,
                         typed(mod.controller_values.get(cname)))
                # --- raw round trips
                for raw in RAW_VALUES:
                    mod = cls()
                    res, logs = outcome(mod.set_raw, cname, raw)
                    state = module_state(mod)
                    note("set_raw", mtype, cname, mode, raw, res, logs, state)
                    stats["set_raw " + res[0]] += 1
                    if res[0] != "ok":
                        continue
                    before = module_state(mod)
                    got, logs2 = outcome(mod.get_raw, cname)
                    note("get_raw", got, logs2)
                    check(module_state(mod) == before, f"{mtype}.{cname}: get_raw changed state")
                    if isinstance(ctl.instance_value_type(mod), Range):
                        # numeric controllers give back exactly what was stored,
                        # in range or not (bools and enums normalise instead)
                        check(got == ("ok", ("int", repr(raw))),
                              f"{mtype}.{cname}: set_raw({raw}) then get_raw gave {got}")
    # unknown controller names
    mod = cls()
    note("unknown", mtype, outcome(mod.get_raw, "no_such_controller"),
         outcome(mod.set_raw, "no_such_controller", 1))

# hand-made module-like object: value types without raw conversion helpers
for mode in (True, False):
    with override_raise_controller_value_errors(mode):
        amp = rv.m.Amplifier(index=None)
        for cname in ("volume", "balance", "dc_offset", "inverse", "absolute"):
            for raw in (0, 1, 128, 2000, -2000):
                res, logs = outcome(amp.set_raw, cname, raw)
                note("amp", mode, cname, raw, res, logs, module_state(amp))
        lfo = rv.m.Lfo()
        for unit in list(rv.m.Lfo.FrequencyUnit):
            res, logs = outcome(setattr, lfo, "frequency_unit", unit)
            note("lfo-unit", mode, unit.name, res, logs)
            for raw in (0, 1, 256, 2048, 5000, 20000):
                res, logs = outcome(lfo.set_raw, "freq", raw)
                got = outcome(lfo.get_raw, "freq")
                note("lfo-freq", mode, unit.name, raw, res, logs, got)
        vp = rv.m.VorbisPlayer()
        for raw in (-128, -129, -1, 0, 128, 129):
            res, logs = outcome(vp.set_raw, "finetune", raw)
            note("vorbis", mode, raw, res, logs, outcome(vp.get_raw, "finetune"))

# pattern_value is next to the code that was touched
for mtype, cls in sorted(MODULE_CLASSES.items()):
    mod = cls()
    for cname, ctl in cls.controllers.items():
        for v in (0, 1, 64, -64, 256, 32768):
            note("pattern_value", mtype, cname, v, outcome(ctl.pattern_value, mod, v))

# ------------------------------------------------ 4. C05 on out-of-range fixtures

capture.take()
rv_logger.setLevel(logging.WARNING)


def save(obj):
    f = io.BytesIO()
    obj.write_to(f)
    return f.getvalue()


def parse(data):
    return [[name, payload] for name, payload in iff_chunks(io.BytesIO(data))]


def build(chunk_list):
    out = bytearray()
    for name, payload in chunk_list:
        out += name + struct.pack("<I", len(payload)) + payload
    return bytes(out)


def cycle(data, label):
    try:
        obj = read_sunvox_file(io.BytesIO(data))
    except Exception as e:  # noqa
        note(label, "load-error", type(e).__name__, str(e), capture.take())
        stats["load-error " + type(e).__name__] += 1
        return
    load_logs = capture.take()
    try:
        y = save(obj)
        y2 = save(obj)
    except Exception as e:  # noqa
        note(label, "save-error", type(e).__name__, str(e), load_logs)
        stats["save-error " + type(e).__name__] += 1
        return
    note(label, y, load_logs, capture.take())
    stats["stable-checked"] += 1
    check(y == y2, f"{label}: saving twice gave different bytes")
    prev = y
    for i in range(3):
        nxt = save(read_sunvox_file(io.BytesIO(prev)))
        check(nxt == prev, f"{label}: drift at cycle {i + 2}")
        prev = nxt
    capture.take()


mutation_count = 0
for path in FILES:
    data = path.read_bytes()
    cycle(data, path.name)
    cl = parse(data)
    cval_idx = [i for i, (n, _) in enumerate(cl) if n == b"CVAL"]
    for k, i in enumerate(cval_idx[:40]):
        for v in (300, 428, -7, 70000, 2**31 - 1):
            m = [list(c) for c in cl]
            m[i][1] = struct.pack("<i", v)
            mutation_count += 1
            cycle(build(m), f"{path.name}/cval[{k}]={v}")
    for v in (256, 300, 100000, -1, -300):
        m = [list(c) for c in cl]
        for i in cval_idx:
            m[i][1] = struct.pack("<i", v)
        mutation_count += 1
        cycle(build(m), f"{path.name}/cval-all={v}")

# the canonical example from the property: negative minimum, stored value 300
amp = rv.m.Amplifier()
cl = parse(save(Synth(amp)))
names = list(rv.m.Amplifier.controllers)
for cname in ("balance", "dc_offset"):
    m = [list(c) for c in cl]
    cval_idx = [i for i, (n, _) in enumerate(m) if n == b"CVAL"]
    m[cval_idx[names.index(cname)]][1] = struct.pack("<i", 300)
    data = build(m)
    seen = []
    for _ in range(4):
        obj = read_sunvox_file(io.BytesIO(data))
        seen.append((typed(getattr(obj.module, cname)), obj.module.get_raw(cname)))
        data = save(obj)
    note("canonical", cname, seen, capture.take())
    check(all(s[1] == 300 for s in seen), f"Amplifier.{cname} drifts: {seen}")

# ------------------------------------------------ verdict

result = digest.hexdigest()
if failures:
    print("FAIL")
    for f in failures[:40]:
        print("  -", f)
    sys.exit(1)
if result != EXPECTED_DIGEST:
    print("FAIL: behaviour digest differs from the one recorded on the unchanged tree")
    print("  expected", EXPECTED_DIGEST)
    print("  got     ", result)
    sys.exit(1)
print("PASS", result[:16], f"({len(FILES)} fixtures, {mutation_count} mutated files)")
print("    ", dict(stats))
