"""Behaviour check for refactoring C03-3 (low-level field encoders).

Run as:  cd <root> && PYTHONPATH=<root>/src/python python check.py

Touched code: rv.lib.iff.write_chunk, Note.raw_data, ControllerMidiMap.cmid_data,
Pattern.raw_data / Pattern.iff_chunks / PatternClone.iff_chunks,
Module.iff_chunks / Module.options_chunks.

The script builds a deterministic corpus of projects and synths (every module
type), serializes them, decodes the bytes with an independent decoder, and checks

* write_chunk framing (space padding, truncation, LE size, None = no-op),
* the exact standard chunk list of every module against an independent model
  (SNAM is 32 bytes, cut on a character boundary; SMII bit layout; optional
  STYP/SMIN; position chunks only inside projects),
* pattern chunks and the 8-byte cell codec, clone chunks, CMID records,
* the option byte map of every module type that has options,
* error behaviour and partial-update behaviour of the setters,
* sha256 digests of every output (recorded on the unrefactored tree).
"""
import hashlib
import io
import os
import struct
import sys
import warnings

warnings.filterwarnings("ignore")

from rv.api import NOTE, NOTECMD, Pattern, PatternClone, Project, Synth, m
from rv.api import read_sunvox_file
from rv.cmidmap import MidiMessageType, Slope
from rv.errors import EmptySynthError
from rv.modules import MODULE_CLASSES

FAILURES = []


def check(cond, msg):
    if not cond:
        FAILURES.append(msg)


# ---------------------------------------------------------------- decoder
def decode(data):
    """Independent chunk-stream decoder: list of (id, payload)."""
    out = []
    pos = 0
    while pos < len(data):
        assert pos + 8 <= len(data), "truncated chunk header"
        cid = data[pos : pos + 4]
        (size,) = struct.unpack_from("<I", data, pos + 4)
        pos += 8
        assert pos + size <= len(data), "truncated chunk payload"
        out.append((cid, data[pos : pos + size]))
        pos += size
    assert pos == len(data)
    return out


def u32(b):
    assert len(b) == 4
    return struct.unpack("<I", b)[0]


def i32(b):
    assert len(b) == 4
    return struct.unpack("<i", b)[0]


# ---------------------------------------------------------------- corpus
def all_modules():
    return [MODULE_CLASSES[k]() for k in sorted(MODULE_CLASSES) if k != "Output"]


def project_empty():
    return Project()


def project_header_variants():
    p = Project()
    p.name = "Héader ☃ test"
    p.sunvox_version = (1, 9, 6, 1)
    p.based_on_version = (2, 0, 0, 255)
    p.flags = 0xDEADBEEF
    p.initial_bpm = 300
    p.initial_tpl = 31
    p.time_grid = 7
    p.time_grid2 = 9
    p.global_volume = 256
    p.modules_scale = 123
    p.modules_zoom = 321
    p.modules_x_offset = -77
    p.modules_y_offset = -2147483648
    p.modules_layer_mask = 0xFFFFFFFF
    p.modules_current_layer = 3
    p.timeline_position = -5
    p.restart_position = 17
    p.selected_module = 2
    p.selected_generator = 4
    p.current_pattern = 1
    p.current_track = 2
    p.current_line = 3
    p.receive_sync_midi = (
        Project.SyncCommand.start_stop | Project.SyncCommand.position
    )
    p.receive_sync_other = Project.SyncCommand.tempo | Project.SyncCommand.position
    return p


def project_only_time():
    p = Project()
    p.timeline_position = 64
    return p


def project_only_reps():
    p = Project()
    p.restart_position = -1
    return p


def project_all_modules():
    p = Project()
    mods = all_modules()
    for mod in mods:
        p.attach_module(mod)
    # chain, plus fan-in to the output so non-trivial link slots appear
    for a, b in zip(mods, mods[1:]):
        a >> b
    for mod in mods[::3]:
        mod >> p.output
    mods[5] >> mods[2]
    mods[7] >> mods[2]
    # break some links again -> -1 entries
    p.connect(~mods[5], mods[2])
    p.connect(~mods[0], mods[1])
    for i, mod in enumerate(mods):
        mod.x, mod.y, mod.layer = 10 * i - 100, 1000 - 7 * i, i % 8
        mod.mod_finetune = (i * 37) % 512 - 256
        mod.mod_relative_note = i % 24 - 12
        mod.color = (i * 5 % 256, i * 11 % 256, i * 17 % 256)
        mod.midi_in_always = bool(i % 2)
        mod.midi_in_channel = i % 17
        mod.midi_out_channel = i % 16
        mod.midi_out_bank = i - 1
        mod.midi_out_program = 127 - i
        if i % 4 == 0:
            mod.midi_out_name = "port %d" % i
        if i % 5 == 0:
            mod.name = "a rather long module name that exceeds thirty-two bytes %d" % i
        if i % 7 == 0:
            mod.name = "näme ♫ %d" % i
        names = list(mod.controllers)
        for j, name in enumerate(names[: 1 + i % 3]):
            cm = mod.controller_midi_maps[name]
            cm.channel = (i + j) % 16
            cm.message_type = list(MidiMessageType)[(i + j) % 9]
            cm.message_parameter = (i * 100 + j) % 65536
            cm.slope = list(Slope)[(i + j) % 6]
    return p


def project_patterns_and_holes():
    p = Project()
    gen = p.new_module(m.Generator)
    amp = p.new_module(m.Amplifier, volume=321)
    p.attach_module(None)
    flt = p.new_module(m.Filter)  # goes into the hole? (not loading) -> fills slot
    p.modules.append(None)
    echo = p.new_module(m.Echo)
    gen >> amp >> flt >> p.output
    echo >> p.output
    p.attach_module(None)
    dly = p.attach_module(m.Delay(), loading=True)  # keeps the hole before it
    p.attach_module(None)
    dly >> echo
    pat = Pattern(name="lead ü", tracks=3, lines=5, x=-32, y=64)
    pat.flags_PFLG = 3
    pat.flags_PFFF = 0x18
    pat.fg_color = (1, 2, 3)
    pat.bg_color = (250, 251, 252)
    pat.icon = bytes(range(32))
    for li in range(5):
        for tr in range(3):
            n = pat.data[li][tr]
            n.note = NOTE.C4 if (li + tr) % 2 else NOTECMD.NOTE_OFF
            n.vel = (li * 3 + tr) % 130
            n.module = int(gen) if tr == 0 else 0
            n.ctl = (li << 8) | tr
            n.val = (li * 1000 + tr * 7) % 65536
    p.attach_pattern(pat)
    p.attach_pattern(None)
    p.attach_pattern(PatternClone(source=0, x=8, y=-16))
    p.attach_pattern(Pattern(tracks=1, lines=1))
    p.attach_pattern(None)
    return p


def project_meta_sampler():
    inner = Project()
    g = inner.new_module(m.AnalogGenerator)
    f = inner.new_module(m.Filter)
    g >> f >> inner.output
    inner.attach_pattern(Pattern(tracks=2, lines=4))
    outer = Project()
    meta = outer.new_module(m.MetaModule, project=inner)
    meta.user_defined_controllers = 3
    meta.recompute_controller_attachment()
    smp = outer.new_module(m.Sampler)
    s = smp.Sample()
    s.format = smp.Format.int16
    s.channels = smp.Channels.mono
    s.data = bytes(range(64))
    s.name = b"sixty-four"
    smp.samples[0] = s
    smp.effect = Synth(m.Reverb())
    meta >> smp >> outer.output
    return outer


def project_none_only():
    p = Project()
    p.attach_module(None)
    p.attach_module(None)
    p.attach_pattern(None)
    return p


PROJECT_BUILDERS = [
    project_empty,
    project_header_variants,
    project_only_time,
    project_only_reps,
    project_all_modules,
    project_patterns_and_holes,
    project_meta_sampler,
    project_none_only,
]


def synth_corpus():
    out = []
    for k in sorted(MODULE_CLASSES):
        out.append(("synth:" + k, Synth(MODULE_CLASSES[k]())))
    # module that lives in a project (in_project must still be False)
    p = project_all_modules()
    for mod in p.modules[1:8]:
        out.append(("synth-attached:%s" % mod.mtype, Synth(mod)))
    meta = m.MetaModule()
    meta.user_defined_controllers = 5
    out.append(("synth:meta5", Synth(meta)))
    sy = Synth(m.Fm())
    sy.sunsynth_version = (1, 2, 3, 4)
    out.append(("synth:version", sy))
    return out


# ---------------------------------------------------------------- checks
HEADER_ORDER = [
    b"SVOX", b"VERS", b"BVER", b"FLGS", b"SFGS", b"BPM ", b"SPED", b"TGRD",
    b"TGD2", b"GVOL", b"NAME", b"MSCL", b"MZOO", b"MXOF", b"MYOF", b"LMSK",
    b"CURL", b"TIME", b"REPS", b"SELS", b"LGEN", b"PATN", b"PATT", b"PATL",
]


def check_project(label, p, data):
    chunks = decode(data)
    ids = [c for c, _ in chunks]
    # --- header
    expected = [
        c
        for c in HEADER_ORDER
        if not (c == b"TIME" and p.timeline_position == 0)
        and not (c == b"REPS" and p.restart_position == 0)
    ]
    check(ids[: len(expected)] == expected, label + ": header order")
    hdr = dict(chunks[: len(expected)])
    check(hdr[b"SVOX"] == b"", label + ": magic payload")
    check(hdr[b"VERS"] == bytes(reversed(p.sunvox_version)), label + ": VERS")
    check(hdr[b"BVER"] == bytes(reversed(p.based_on_version)), label + ": BVER")
    check(u32(hdr[b"FLGS"]) == p.flags, label + ": FLGS")
    check(
        u32(hdr[b"SFGS"]) == int(p.receive_sync_midi) + 8 * int(p.receive_sync_other),
        label + ": SFGS",
    )
    for cid, attr, dec in [
        (b"BPM ", "initial_bpm", u32),
        (b"SPED", "initial_tpl", u32),
        (b"TGRD", "time_grid", u32),
        (b"TGD2", "time_grid2", u32),
        (b"GVOL", "global_volume", u32),
        (b"MSCL", "modules_scale", u32),
        (b"MZOO", "modules_zoom", u32),
        (b"MXOF", "modules_x_offset", i32),
        (b"MYOF", "modules_y_offset", i32),
        (b"LMSK", "modules_layer_mask", u32),
        (b"CURL", "modules_current_layer", u32),
        (b"SELS", "selected_module", u32),
        (b"LGEN", "selected_generator", i32),
        (b"PATN", "current_pattern", u32),
        (b"PATT", "current_track", u32),
        (b"PATL", "current_line", u32),
    ]:
        check(dec(hdr[cid]) == getattr(p, attr), "%s: %r" % (label, cid))
    if p.timeline_position:
        check(i32(hdr[b"TIME"]) == p.timeline_position, label + ": TIME")
    if p.restart_position:
        check(i32(hdr[b"REPS"]) == p.restart_position, label + ": REPS")
    check(hdr[b"NAME"] == p.name.encode("utf8") + b"\0", label + ": NAME")
    # --- pattern slots
    rest = chunks[len(expected) :]
    pos = 0
    for pat in p.patterns:
        end = pos
        while rest[end][0] != b"PEND":
            end += 1
        slot = rest[pos:end]
        check(rest[end] == (b"PEND", b""), label + ": PEND payload")
        if pat is None:
            check(slot == [], label + ": empty pattern slot")
        elif isinstance(pat, PatternClone):
            check([c for c, _ in slot] == [b"PPAR", b"PFFF", b"PXXX", b"PYYY"], label + ": clone slot")
        else:
            check(slot[0][0] == b"PDTA", label + ": PDTA first")
            check(len(slot[0][1]) == pat.lines * pat.tracks * 8, label + ": PDTA size")
        pos = end + 1
    # --- module slots
    for mod in p.modules:
        end = pos
        while rest[end][0] != b"SEND":
            end += 1
        slot = rest[pos:end]
        check(rest[end] == (b"SEND", b""), label + ": SEND payload")
        pos = end + 1
        if mod is None:
            check(slot == [], label + ": empty module slot")
            continue
        check_module_slot(label + ":mod%s" % mod.index, mod, slot, in_project=True)
    check(pos == len(rest), label + ": nothing after last SEND")


def check_module_slot(label, mod, slot, in_project):
    ids = [c for c, _ in slot]
    check(ids[0] == b"SFFF", label + ": SFFF first")
    check((b"SXXX" in ids) == in_project, label + ": SXXX presence")
    idx = 0
    while idx < len(ids) and ids[idx] not in (b"SLNK", b"CVAL", b"CMID", b"CHNK"):
        idx += 1
    tail = slot[idx:]
    if in_project:
        check(tail and tail[0][0] == b"SLNK", label + ": SLNK after std chunks")
        links = tail[0][1]
        n = len(mod.in_links)
        check(len(links) == 4 * n, label + ": SLNK size")
        check(
            list(struct.unpack("<%di" % n, links)) == list(mod.in_links),
            label + ": SLNK values",
        )
        tail = tail[1:]
        need_slots = any(s not in (-1, 0) for s in mod.in_link_slots)
        if tail and tail[0][0] == b"SLnK":
            check(need_slots and n > 0, label + ": SLnK unexpectedly present")
            check(
                list(struct.unpack("<%di" % n, tail[0][1])) == list(mod.in_link_slots),
                label + ": SLnK values",
            )
            tail = tail[1:]
        else:
            check(not (need_slots and n > 0), label + ": SLnK missing")
    attached = [n_ for n_, c in mod.controllers.items() if c.attached(mod)]
    cvals = []
    while tail and tail[0][0] == b"CVAL":
        cvals.append(i32(tail[0][1]))
        tail = tail[1:]
    check(len(cvals) == len(attached), label + ": CVAL count")
    check(cvals == [mod.get_raw(n_) for n_ in attached], label + ": CVAL values")
    if attached:
        check(tail and tail[0][0] == b"CMID", label + ": CMID present")
        cmid = tail[0][1]
        check(len(cmid) == 8 * len(attached), label + ": CMID size")
        for k, n_ in enumerate(attached):
            cm = mod.controller_midi_maps[n_]
            rec = struct.unpack("<BBBBHBB", cmid[8 * k : 8 * k + 8])
            check(
                rec[:3] == (cm.message_type.value, cm.channel, cm.slope.value)
                and rec[4] == cm.message_parameter,
                label + ": CMID record %d" % k,
            )
        tail = tail[1:]
    else:
        check(not tail or tail[0][0] != b"CMID", label + ": CMID without controllers")
    if mod.chnk:
        check(tail and tail[0][0] == b"CHNK", label + ": CHNK present")
        count = u32(tail[0][1])
        check(count == mod.chnk, label + ": CHNK count")
        for cid, payload in tail[1:]:
            check(cid in (b"CHNM", b"CHDT", b"CHFF", b"CHFR"), label + ": stray %r" % cid)
            if cid == b"CHNM":
                check(u32(payload) < count, label + ": CHNM below CHNK")
    else:
        check(tail == [], label + ": unexpected trailing chunks %r" % [c for c, _ in tail])


def check_synth(label, sy, data):
    chunks = decode(data)
    check(chunks[0] == (b"SSYN", b""), label + ": magic")
    check(chunks[1] == (b"VERS", bytes(reversed(sy.sunsynth_version))), label + ": VERS")
    check(chunks[-1] == (b"SEND", b""), label + ": SEND last")
    check([c for c, _ in chunks].count(b"SEND") == 1, label + ": one SEND")
    check_module_slot(label, sy.module, chunks[2:-1], in_project=False)


def check_errors():
    p = Project()
    p.flags = -1
    try:
        p.read()
        check(False, "negative FLGS must raise struct.error")
    except struct.error:
        pass
    p = Project()
    p.initial_bpm = 2**32
    try:
        p.read()
        check(False, "oversized BPM must raise struct.error")
    except struct.error:
        pass
    p = Project()
    p.sunvox_version = (1, 2, 3)
    try:
        p.read()
        check(False, "3-part version must raise struct.error")
    except struct.error:
        pass
    # chunks emitted before the failure point are unchanged (generator is lazy)
    p = Project()
    p.global_volume = -3
    seen = []
    try:
        for cid, _ in p.chunks():
            seen.append(cid)
    except struct.error:
        pass
    check(seen == HEADER_ORDER[:9], "lazy header emission up to failing GVOL: %r" % seen)
    # mismatching slot list length
    p = Project()
    g = p.new_module(m.Generator)
    g >> p.output
    p.output.in_link_slots.append(0)
    try:
        p.read()
        check(False, "slot/links length mismatch must raise struct.error")
    except struct.error:
        pass
    try:
        Synth().read()
        check(False, "empty synth must raise EmptySynthError")
    except EmptySynthError:
        pass
    sy = Synth(m.Fm())
    sy.sunsynth_version = (1, 2, 3, 4, 5)
    try:
        sy.read()
        check(False, "5-part synth version must raise struct.error")
    except struct.error:
        pass
    # EmptySynthError is raised on first next(), not on chunks() call
    gen = Synth().chunks()
    try:
        next(gen)
        check(False, "next() on empty synth")
    except EmptySynthError:
        pass


def check_metamodule_recompute():
    meta = m.MetaModule()
    meta.user_defined_controllers = 4
    # force attachment out of sync; Synth.chunks must recompute it
    for c in meta.user_defined:
        c.detach(meta)
    data = Synth(meta).read()
    n_cval = [c for c, _ in decode(data)].count(b"CVAL")
    check(n_cval == 5 + 4, "synth recomputes metamodule attachment: %d" % n_cval)
    # Project.chunks must NOT recompute
    p = Project()
    meta = p.new_module(m.MetaModule)
    meta.user_defined_controllers = 4
    for c in meta.user_defined:
        c.detach(meta)
    n_cval = [c for c, _ in decode(p.read())].count(b"CVAL")
    check(n_cval == 5, "project does not recompute attachment: %d" % n_cval)


def file_corpus():
    root = os.path.join(os.getcwd(), "tests", "files")
    out = []
    for fn in sorted(os.listdir(root)):
        if fn.endswith((".sunvox", ".sunsynth")):
            with open(os.path.join(root, fn), "rb") as f:
                out.append(("file:" + fn, read_sunvox_file(f)))
    return out



# ---------------------------------------------------------------- C03-3 specific
from rv.cmidmap import ControllerMidiMap
from rv.lib.iff import write_chunk
from rv.modules.module import Module
from rv.note import Note


class Recorder:
    def __init__(self):
        self.writes = []

    def write(self, b):
        self.writes.append(bytes(b))


def expect(exc, fn, msg):
    try:
        fn()
    except exc:
        return
    except Exception as e:  # noqa
        check(False, "%s: raised %r instead of %s" % (msg, e, exc.__name__))
        return
    check(False, "%s: no %s raised" % (msg, exc.__name__))


def check_write_chunk():
    for name, want in [
        (b"ABCD", b"ABCD"), (b"AB", b"AB  "), (b"", b"    "), (b"ABCDEFG", b"ABCD"),
        (b"BPM ", b"BPM "), (bytearray(b"xy"), b"xy  "),
    ]:
        for data in (b"", b"\x00", bytes(range(256)) * 3):
            r = Recorder()
            write_chunk(r, name, data)
            out = b"".join(r.writes)
            check(out == want + struct.pack("<I", len(data)) + data, "write_chunk %r" % name)
            check(r.writes == [want, struct.pack("<I", len(data)), data], "write_chunk pieces %r" % name)
    r = Recorder()
    check(write_chunk(r, None, None) is None and r.writes == [], "write_chunk(None) is a no-op")
    r = Recorder()
    expect(TypeError, lambda: write_chunk(r, b"ABCD", None), "data=None")
    check(r.writes == [], "nothing written when data is invalid")
    r = Recorder()
    expect(TypeError, lambda: write_chunk(r, "ABCD", b""), "str chunk id")
    check(r.writes == [], "nothing written when id is invalid")


def check_note_codec():
    cases = [
        (0, 0, 0, 0, 0), (1, 129, 65535, 65535, 65535), (128, 1, 2, 0x0301, 0x8000),
        (129, 64, 256, 0x1F00, 0x00FF), (60, 100, 7, 0x0A0B, 0x0C0D),
    ]
    for c in cases:
        raw = struct.pack("<BBHHH", *c)
        n = Note()
        n.raw_data = raw
        check((n.note, n.vel, n.module, n.ctl, n.val) == c, "Note decode %r" % (c,))
        check(all(type(v) is int for v in (n.note, n.vel, n.module, n.ctl, n.val)), "plain ints after decode")
        check(n.raw_data == raw and len(n.raw_data) == 8, "Note encode %r" % (c,))
    n = Note(note=NOTE.C5, vel=5, module=3, ctl=0x0102, val=0x0304)
    check(n.raw_data == bytes([int(NOTE.C5), 5, 3, 0, 2, 1, 4, 3]), "Note field order / endianness")
    expect(struct.error, lambda: setattr(n, "raw_data", b"1234567"), "7-byte cell")
    expect(struct.error, lambda: setattr(n, "raw_data", b"123456789"), "9-byte cell")
    check(n.vel == 5 and n.val == 0x0304, "failed decode leaves note untouched")
    n.vel = 300
    expect(struct.error, lambda: n.raw_data, "vel out of byte range")


def check_cmid_codec():
    for mt in MidiMessageType:
        for sl in Slope:
            for ch, par in ((0, 0), (15, 127), (255, 65535), (3, 0x1234)):
                cm = ControllerMidiMap()
                cm.message_type, cm.slope, cm.channel, cm.message_parameter = mt, sl, ch, par
                want = bytes([mt.value, ch, sl.value, 0, par & 255, par >> 8, 0,
                              0xFF if mt is MidiMessageType.unset else 0xC8])
                check(cm.cmid_data == want, "cmid encode %s %s" % (mt, sl))
                back = ControllerMidiMap()
                back.cmid_data = bytes([mt.value, ch, sl.value, 9, par & 255, par >> 8, 9, 9])
                check((back.message_type, back.slope, back.channel, back.message_parameter)
                      == (mt, sl, ch, par), "cmid decode ignores pad/marker bytes")
    check(ControllerMidiMap().cmid_data == b"\0\0\0\0\0\0\0\xff", "default cmid record")
    cm = ControllerMidiMap()
    expect(ValueError, lambda: setattr(cm, "cmid_data", bytes([99, 7, 1, 0, 0x34, 0x12, 0, 0])), "bad type code")
    check((cm.channel, cm.message_parameter) == (7, 0x1234), "channel/parameter stored before type validation")
    check(cm.message_type is MidiMessageType.unset and cm.slope is Slope.linear, "type/slope kept on failure")
    cm = ControllerMidiMap()
    expect(ValueError, lambda: setattr(cm, "cmid_data", bytes([3, 7, 77, 0, 1, 0, 0, 0])), "bad slope code")
    check(cm.message_type is MidiMessageType.control_change and cm.slope is Slope.linear, "type set before slope validation")
    expect(struct.error, lambda: setattr(cm, "cmid_data", b"1234567"), "7-byte record")
    cm = ControllerMidiMap()
    cm.message_parameter = 70000
    expect(struct.error, lambda: cm.cmid_data, "parameter out of range")


def expected_pattern_chunks(pat):
    cells = b"".join(
        struct.pack("<BBHHH", n.note, n.vel, n.module, n.ctl, n.val) for line in pat.data for n in line
    )
    out = [(b"PDTA", cells)]
    if pat.name is not None:
        out.append((b"PNME", pat.name.encode("utf8") + b"\0"))
    out += [
        (b"PCHN", struct.pack("<I", pat.tracks)), (b"PLIN", struct.pack("<I", pat.lines)),
        (b"PYSZ", struct.pack("<I", pat.y_size)), (b"PFLG", struct.pack("<I", pat.flags_PFLG)),
        (b"PICO", pat.icon), (b"PFGC", bytes(pat.fg_color)), (b"PBGC", bytes(pat.bg_color)),
        (b"PFFF", struct.pack("<I", pat.flags_PFFF)), (b"PXXX", struct.pack("<i", pat.x)),
        (b"PYYY", struct.pack("<i", pat.y)),
    ]
    return out


def check_patterns():
    p = project_patterns_and_holes()
    for pat in p.patterns:
        if isinstance(pat, Pattern):
            got = list(pat.iff_chunks())
            check(got == expected_pattern_chunks(pat), "Pattern.iff_chunks")
            check(len(got[0][1]) == pat.lines * pat.tracks * 8, "PDTA size")
        elif pat is not None:
            check(list(pat.iff_chunks()) == [
                (b"PPAR", struct.pack("<I", pat.source)), (b"PFFF", struct.pack("<I", 1)),
                (b"PXXX", struct.pack("<i", pat.x)), (b"PYYY", struct.pack("<i", pat.y)),
            ], "PatternClone.iff_chunks")
    for tracks, lines in ((1, 1), (4, 32), (32, 3), (5, 7)):
        src = Pattern(tracks=tracks, lines=lines)
        raw = bytes((i * 7 + 3) % 120 if i % 8 == 0 else (i * 13) % 128 if i % 8 == 1 else (i * 31) % 256
                    for i in range(tracks * lines * 8))
        src.raw_data = raw
        check(src.raw_data == raw, "Pattern.raw_data round trip %dx%d" % (tracks, lines))
        for li in (0, lines - 1):
            for tr in (0, tracks - 1):
                o = 8 * (li * tracks + tr)
                check(src.data[li][tr].raw_data == raw[o : o + 8], "cell offset %d,%d" % (li, tr))
        check(list(src.iff_chunks())[0] == (b"PDTA", raw), "PDTA is raw_data")
        # longer input: surplus ignored
        src2 = Pattern(tracks=tracks, lines=lines)
        src2.raw_data = raw + b"\xff" * 16
        check(src2.raw_data == raw, "surplus raw data ignored")
    # short input: cells before the cut are updated, then struct.error
    pat = Pattern(tracks=2, lines=2)
    expect(struct.error, lambda: setattr(pat, "raw_data", bytes(range(1, 21))), "short raw_data")
    check(pat.data[0][0].raw_data == bytes(range(1, 9)) and pat.data[0][1].raw_data == bytes(range(9, 17)),
          "cells before the cut were updated")
    check(pat.data[1][0].raw_data == b"\0" * 8, "cell at the cut untouched")
    pat = Pattern(tracks=1, lines=1)
    pat.fg_color = (1, 2)
    expect(struct.error, lambda: list(pat.iff_chunks()), "2-component colour")
    pat = Pattern(tracks=1, lines=1)
    pat.bg_color = (1, 2, 256)
    seen = []
    try:
        for cid, _ in pat.iff_chunks():
            seen.append(cid)
    except struct.error:
        pass
    check(seen == [b"PDTA", b"PCHN", b"PLIN", b"PYSZ", b"PFLG", b"PICO", b"PFGC"], "lazy pattern chunk emission %r" % seen)
    pat = Pattern(tracks=1, lines=1, x=2**31)
    expect(struct.error, lambda: list(pat.iff_chunks()), "x out of int32 range")


def expected_std_chunks(mod, placed):
    raw = mod.name.encode("utf8")[:32]
    while True:
        try:
            raw.decode("utf8")
            break
        except UnicodeDecodeError:
            raw = raw[:-1]
    out = [(b"SFFF", struct.pack("<I", mod.flags)), (b"SNAM", raw + b"\0" * (32 - len(raw)))]
    if mod.mtype is not None and mod.mtype != "Output":
        out.append((b"STYP", mod.mtype.encode("utf8") + b"\0"))
    out += [(b"SFIN", struct.pack("<i", mod.mod_finetune)), (b"SREL", struct.pack("<i", mod.mod_relative_note))]
    if placed:
        out += [(b"SXXX", struct.pack("<i", mod.x)), (b"SYYY", struct.pack("<i", mod.y)),
                (b"SZZZ", struct.pack("<i", mod.layer))]
    out.append((b"SSCL", struct.pack("<I", mod.mod_scale)))
    if placed:
        out.append((b"SVPR", struct.pack("<I", int(mod.visualization))))
    out.append((b"SCOL", bytes(mod.color)))
    out.append((b"SMII", struct.pack("<I", (1 if mod.midi_in_always else 0) | (mod.midi_in_channel * 2))))
    if mod.midi_out_name:
        out.append((b"SMIN", mod.midi_out_name.encode("utf8") + b"\0"))
    out += [(b"SMIC", struct.pack("<I", mod.midi_out_channel)), (b"SMIB", struct.pack("<i", mod.midi_out_bank)),
            (b"SMIP", struct.pack("<i", mod.midi_out_program))]
    return out


def expected_option_bytes(mod):
    size = 0
    acc = {}
    for opt in mod.options.values():
        v = int(mod.option_values[opt.name]) % (2 ** opt.size)
        acc[opt.byte] = acc.get(opt.byte, 0) + v * (2 ** opt.bit)
        size = max(size, opt.byte + 1)
    return bytes(acc.get(i, 0) for i in range(size))


def check_modules():
    p = project_all_modules()
    for mod in p.modules:
        lab = "mod %s" % mod.mtype
        check(list(mod.iff_chunks()) == expected_std_chunks(mod, True), lab + ": iff_chunks()")
        check(list(mod.iff_chunks(in_project=True)) == expected_std_chunks(mod, True), lab + ": in_project=True")
        check(list(mod.iff_chunks(in_project=False)) == expected_std_chunks(mod, False), lab + ": in_project=False")
        check(list(mod.iff_chunks(in_project=0)) == expected_std_chunks(mod, False), lab + ": in_project=0")
        check(len(dict(mod.iff_chunks())[b"SNAM"]) == 32, lab + ": SNAM width")
    for mod in all_modules():
        lab = "free %s" % mod.mtype
        check(list(mod.iff_chunks()) == expected_std_chunks(mod, False), lab + ": unattached default")
        check(list(mod.iff_chunks(in_project=True)) == expected_std_chunks(mod, True), lab + ": forced placement")
    # names cut inside a multi-byte character
    for name in ["x" * 31 + "é", "x" * 30 + "☃", "x" * 29 + "☃", "é" * 16, "é" * 17, "", "x" * 32, "x" * 33,
                 "x" * 31 + "\U0001F3B5"]:
        mod = m.Amplifier(name=name)
        snam = dict(mod.iff_chunks())[b"SNAM"]
        check(len(snam) == 32, "SNAM width for %r" % name)
        check(snam == dict(expected_std_chunks(mod, False))[b"SNAM"], "SNAM content for %r" % name)
        snam.rstrip(b"\0").decode("utf8")
    expect(RuntimeError, lambda: next(Module().iff_chunks()), "base Module cannot be serialized")
    mod = m.Amplifier()
    mod.color = (1, 2)
    expect(struct.error, lambda: list(mod.iff_chunks()), "2-component module colour")
    mod = m.Amplifier()
    mod.mod_scale = -1
    seen = []
    try:
        for cid, _ in mod.iff_chunks(in_project=True):
            seen.append(cid)
    except struct.error:
        pass
    check(seen == [b"SFFF", b"SNAM", b"STYP", b"SFIN", b"SREL", b"SXXX", b"SYYY", b"SZZZ"], "lazy module chunk emission %r" % seen)
    mod = m.Amplifier()
    mod.midi_in_channel = 1.5
    expect(TypeError, lambda: list(mod.iff_chunks()), "float midi channel")
    # options
    n_opt = 0
    for k in sorted(MODULE_CLASSES):
        cls = MODULE_CLASSES[k]
        if not cls.options:
            continue
        for variant in range(4):
            mod = cls()
            for j, (name, opt) in enumerate(mod.options.items()):
                top = 2 ** opt.size - 1
                val = [0, top, (j + 1) % (top + 1), top - (j % (top + 1))][variant]
                if opt.size == 1:
                    val = bool(val)
                mod.option_values[name] = val
            got = list(mod.options_chunks())
            check(got == [(b"CHNM", struct.pack("<I", mod.options_chnm)), (b"CHDT", expected_option_bytes(mod))],
                  "options_chunks %s variant %d" % (k, variant))
            n_opt += 1
        mod = cls()
        first = next(iter(mod.options))
        mod.option_values[first] = None
        expect(TypeError, lambda: list(mod.options_chunks()), "option value None")
    check(n_opt >= 16, "too few option-bearing module types: %d" % n_opt)
    check(list(m.Amplifier().specialized_iff_chunks()) == [(None, None)], "no options -> (None, None)")
    check(list(m.Amplifier().options_chunks()) == [(b"CHNM", struct.pack("<I", 0)), (b"CHDT", b"")],
          "options_chunks without options")


def check_c03_3():
    check_write_chunk()
    check_note_codec()
    check_cmid_codec()
    check_patterns()
    check_modules()


EXPECTED_DIGEST = "1c6c9da9c575a23322772c3362fefdc4923be7e399d570bb87687d17dfa62032"


def main():
    h = hashlib.sha256()
    for build in PROJECT_BUILDERS:
        p = build()
        data = p.read()
        buf = io.BytesIO()
        p.write_to(buf)
        check(buf.getvalue() == data, build.__name__ + ": write_to == read")
        check(p.read() == data, build.__name__ + ": repeatable")
        check_project(build.__name__, p, data)
        h.update(build.__name__.encode() + hashlib.sha256(data).digest())
    for label, sy in synth_corpus():
        data = sy.read()
        check_synth(label, sy, data)
        h.update(label.encode() + hashlib.sha256(data).digest())
    for label, obj in file_corpus():
        data = obj.read()
        if isinstance(obj, Project):
            check_project(label, obj, data)
        else:
            check_synth(label, obj, data)
        h.update(label.encode() + hashlib.sha256(data).digest())
    check_errors()
    check_metamodule_recompute()
    check_c03_3()
    digest = h.hexdigest()
    if "--digest" in sys.argv:
        print(digest)
        return 0
    check(digest == EXPECTED_DIGEST, "corpus digest changed: " + digest)
    if FAILURES:
        for f in FAILURES[:40]:
            print("FAIL:", f)
        print("%d failure(s)" % len(FAILURES))
        return 1
    print("PASS")
    return 0


if __name__ == "__main__":
    sys.exit(main())
