"""Behaviour check for the module-options code (property C11).

Exercises rv.option.Option (__get__/__set__: clamp, bool coercion, inversion,
exclusive_of, change callbacks), Module.__init__ option seeding,
Module.options_chunks and Module.load_options, against an independent
reference model written here.  Prints PASS and exits 0 when everything agrees.

Run as:  cd <root> && PYTHONPATH=<root>/src/python /venv/bin/python check.py
"""
import itertools
import random
import struct
import sys
from io import BytesIO

import rv.api
from rv.api import m
from rv.modules.module import Chunk, Module
from rv.option import Option

CLASSES = [m.MetaModule, m.MultiSynth, m.AnalogGenerator, m.Sampler, m.Sound2Ctl]
EXPECTED_COUNTS = {
    "MetaModule": 12,
    "MultiSynth": 13,
    "AnalogGenerator": 14,
    "Sampler": 8,
    "Sound2Ctl": 2,
}

failures = []


def check(cond, msg):
    if not cond:
        failures.append(msg)
        if len(failures) < 25:
            print("FAIL:", msg)


# --------------------------------------------------------------------------
# reference model
# --------------------------------------------------------------------------
def ref_stored(opt, value):
    """What Option.__set__ is expected to store for `value`."""
    if opt.min is not None and opt.max is not None:
        if value < opt.min:
            return opt.min
        if value > opt.max:
            return opt.max
        return value
    if opt.size == 1:
        b = True if value else False
        return (not b) if opt.inverted else b
    return value


def ref_presented(opt, stored):
    return (not stored) if opt.inverted else stored


def same(a, b):
    """Equal, and bool-ness agrees (IntEnum defaults come back as plain int)."""
    return a == b and isinstance(a, bool) == isinstance(b, bool)


def ref_pack(cls, stored_values):
    top = 0
    bm = [0] * 64
    for name, opt in cls.options.items():
        v = int(stored_values[name]) % (1 << opt.size)
        bm[opt.byte] += v * (1 << opt.bit)  # disjoint bits => + equals |
        top = max(top, opt.byte + 1)
    return bytes(bm[:top])


def ref_unpack(cls, data):
    data = bytes(data) + b"\0" * max(0, 64 - len(data))
    out = {}
    for name, opt in cls.options.items():
        v = (data[opt.byte] // (1 << opt.bit)) % (1 << opt.size)
        out[name] = (v != 0) if opt.size == 1 else v
    return out


def chdt_of(mod):
    chunks = list(mod.options_chunks())
    check(len(chunks) == 2, "options_chunks must yield exactly two chunks")
    check(chunks[0] == (b"CHNM", struct.pack("<I", mod.options_chnm)), "CHNM chunk")
    check(chunks[1][0] == b"CHDT", "CHDT chunk name")
    check(type(chunks[1][1]) is bytes, "CHDT payload type")
    return chunks[1][1]


def make_chunk(mod, data):
    c = Chunk()
    c.chnm = mod.options_chnm
    c.chdt = data
    return c


def install_recorders(mod):
    events = []
    for name in mod.options:
        setattr(
            mod,
            "on_{}_changed".format(name),
            (lambda n: (lambda v: events.append((n, v))))(name),
        )
    return events


# --------------------------------------------------------------------------
# 1. structure: counts, disjoint bits, names
# --------------------------------------------------------------------------
for cls in CLASSES:
    check(len(cls.options) == EXPECTED_COUNTS[cls.__name__], "count " + cls.__name__)
    used = {}
    for name, opt in cls.options.items():
        check(name == opt.name, "name/key mismatch %s" % name)
        check(getattr(cls, name) is opt, "class access returns descriptor " + name)
        check(opt.bit + opt.size <= 8, "option crosses byte " + name)
        for b in range(opt.bit, opt.bit + opt.size):
            key = (opt.byte, b)
            check(key not in used, "overlap %s/%s" % (name, used.get(key)))
            used[key] = name

# --------------------------------------------------------------------------
# 2. defaults after construction; kwargs seeding in Module.__init__
# --------------------------------------------------------------------------
for cls in CLASSES:
    mod = cls()
    for name, opt in cls.options.items():
        # later exclusive_of seeding may reset an earlier option to False; all
        # declared defaults of exclusive options are False so this is exact.
        check(
            getattr(mod, name) == opt.default
            and type(getattr(mod, name)) is type(ref_presented(opt, ref_stored(opt, opt.default))),
            "default %s.%s" % (cls.__name__, name),
        )
    order = {}
    for name, opt in cls.options.items():
        order[name] = None
        for e in opt.exclusive_of:
            order[e] = None
    check(list(mod.option_values) == list(order), "option_values order " + cls.__name__)
    data = chdt_of(mod)
    check(data == ref_pack(cls, mod.option_values), "default pack " + cls.__name__)
    check(len(data) == max(o.byte for o in cls.options.values()) + 1, "length " + cls.__name__)

mm = m.MetaModule(user_defined_controllers=200, arpeggiator=1, event_output=False)
check(mm.user_defined_controllers == 96, "ctor clamp high")
check(mm.arpeggiator is True, "ctor bool coercion")
check(mm.event_output is False and mm.option_values["event_output"] is True, "ctor inverted")
mm = m.MetaModule(user_defined_controllers=-5)
check(mm.user_defined_controllers == 0, "ctor clamp low")
ms = m.MultiSynth(round_note_x=True, round_pitch_y=True)
check(not (ms.round_note_x and ms.round_pitch_y), "ctor exclusivity")

# --------------------------------------------------------------------------
# 3. every value of every option: set/get/stored/callbacks/pack/unpack
# --------------------------------------------------------------------------
for cls in CLASSES:
    for name, opt in cls.options.items():
        extra = [-1, -300, 1 << opt.size, 97, 255, 256, 1000]
        for value in list(range(1 << opt.size)) + (extra if opt.min is not None else []):
            mod = cls()
            for other in opt.exclusive_of:
                mod.option_values[other] = True
            events = install_recorders(mod)
            setattr(mod, name, value)
            stored = ref_stored(opt, value)
            got = mod.option_values[name]
            check(got == stored and type(got) is type(stored), "stored %s=%r -> %r" % (name, value, got))
            pres = getattr(mod, name)
            exp = ref_presented(opt, stored)
            check(pres == exp and type(pres) is type(exp), "presented %s=%r -> %r" % (name, value, pres))
            exp_events = [(name, stored)] + [(o, False) for o in opt.exclusive_of]
            check(events == exp_events, "callbacks %s=%r: %r" % (name, value, events))
            for other in opt.exclusive_of:
                check(mod.option_values[other] is False, "exclusive reset %s" % other)
            data = chdt_of(mod)
            check(data == ref_pack(cls, mod.option_values), "pack %s=%r" % (name, value))
            # load into a fresh module
            fresh = cls()
            fresh_events = install_recorders(fresh)
            fresh.load_options(make_chunk(fresh, data))
            check(fresh_events == [], "load_options must not fire callbacks")
            check(fresh.option_values == ref_unpack(cls, data), "unpack %s=%r" % (name, value))
            for n2 in cls.options:
                a, b = getattr(fresh, n2), getattr(mod, n2)
                check(same(a, b), "roundtrip %s (setting %s=%r)" % (n2, name, value))
            check(chdt_of(fresh) == data, "re-pack %s=%r" % (name, value))

# --------------------------------------------------------------------------
# 4. all pairs of options at extreme values
# --------------------------------------------------------------------------
for cls in CLASSES:
    for (n1, o1), (n2, o2) in itertools.permutations(cls.options.items(), 2):
        for v1 in (0, (1 << o1.size) - 1):
            for v2 in (0, (1 << o2.size) - 1):
                mod = cls()
                setattr(mod, n1, v1)
                setattr(mod, n2, v2)
                # replay the same assignments on the model (defaults seeded in
                # declaration order by __init__, exclusives reset to False)
                model = {}
                for k, o in cls.options.items():
                    model[k] = ref_stored(o, o.default)
                    for e in o.exclusive_of:
                        model[e] = False
                for k, o, v in ((n1, o1, v1), (n2, o2, v2)):
                    model[k] = ref_stored(o, v)
                    for e in o.exclusive_of:
                        model[e] = False
                check(mod.option_values == model, "pair model %s,%s" % (n1, n2))
                if n1 in o2.exclusive_of:
                    check(not (getattr(mod, n1) and getattr(mod, n2)), "both on %s,%s" % (n1, n2))
                data = chdt_of(mod)
                check(data == ref_pack(cls, model), "pair pack %s,%s" % (n1, n2))
                fresh = cls()
                fresh.load_options(make_chunk(fresh, data))
                check(
                    all(getattr(fresh, k) == getattr(mod, k) for k in cls.options),
                    "pair roundtrip %s=%r,%s=%r" % (n1, v1, n2, v2),
                )

# --------------------------------------------------------------------------
# 5. random full assignments, and random raw records (short / long / 64+)
# --------------------------------------------------------------------------
rng = random.Random(1311)
for cls in CLASSES:
    top = max(o.byte for o in cls.options.values()) + 1
    for _ in range(150):
        mod = cls()
        names = list(cls.options)
        rng.shuffle(names)
        for n in names:
            setattr(mod, n, rng.randrange(1 << cls.options[n].size))
        data = chdt_of(mod)
        check(data == ref_pack(cls, mod.option_values), "random pack " + cls.__name__)
        fresh = cls()
        fresh.load_options(make_chunk(fresh, data))
        check(
            all(getattr(fresh, k) == getattr(mod, k) for k in cls.options),
            "random roundtrip " + cls.__name__,
        )
    for length in (0, 1, 2, top - 1, top, top + 1, 16, 63, 64, 65, 100):
        raw = bytes(rng.randrange(256) for _ in range(length))
        for chdt in (raw, bytearray(raw), list(raw)):
            mod = cls()
            before_len = len(chdt)
            mod.load_options(make_chunk(mod, chdt))
            check(len(chdt) == before_len, "load_options must not mutate chdt")
            exp = ref_unpack(cls, raw)
            check(mod.option_values == exp, "raw unpack len=%d %s" % (length, cls.__name__))
            check(
                all(type(mod.option_values[k]) is type(exp[k]) for k in exp),
                "raw unpack types len=%d" % length,
            )
            check(set(mod.option_values) == set(cls.options), "raw unpack keys")
            out = chdt_of(mod)
            check(len(out) == top, "written record covers highest byte")
            check(out == ref_pack(cls, exp), "raw re-pack len=%d" % length)

# --------------------------------------------------------------------------
# 6. values outside the mask written straight into option_values
# --------------------------------------------------------------------------
mod = m.MultiSynth()
opt = m.MultiSynth.options["use_static_note_C5"]
mod.option_values["use_static_note_C5"] = 3  # masked to 1 bit
check(chdt_of(mod) == ref_pack(m.MultiSynth, mod.option_values), "mask odd")
mod.option_values["use_static_note_C5"] = -2  # masked to 0
check(chdt_of(mod) == ref_pack(m.MultiSynth, mod.option_values), "mask negative")
mm = m.MetaModule()
mm.option_values["user_defined_controllers"] = 0x1FF
check(chdt_of(mm)[0] == 0xFF, "mask 8 bit")
mm.option_values["user_defined_controllers"] = None
try:
    list(mm.options_chunks())
except TypeError:
    pass
else:
    check(False, "None option value must raise TypeError")
del mm.option_values["user_defined_controllers"]
try:
    list(mm.options_chunks())
except TypeError:
    pass
else:
    check(False, "missing option value must raise TypeError")
try:
    mm.user_defined_controllers
except KeyError:
    pass
else:
    check(False, "missing option value must raise KeyError on get")
mm2 = m.MetaModule()
try:
    mm2.load_options(make_chunk(mm2, None))
except TypeError:
    pass
else:
    check(False, "chdt None must raise TypeError")
check(mm2.option_values == m.MetaModule().option_values, "failed load leaves values")


# --------------------------------------------------------------------------
# 7. synthetic module with odd option declarations
# --------------------------------------------------------------------------
class Odd(Module):
    name = mtype = "OddCheckModule"
    mgroup = "Synth"
    options_chnm = 7
    wide = Option(name="wide", byte=0, bit=0, size=4, default=5)
    wide_inv = Option(name="wide_inv", byte=0, bit=4, size=3, default=0, inverted=True)
    half_min = Option(name="half_min", byte=1, bit=0, size=1, default=False, min=0)
    half_max = Option(name="half_max", byte=1, bit=1, size=1, default=False, max=1, inverted=True)
    ranged_bit = Option(name="ranged_bit", byte=1, bit=2, size=1, default=0, min=0, max=1, inverted=True)
    ranged = Option(name="ranged", byte=2, bit=0, size=6, default=9, min=3, max=40)
    spill = Option(name="spill", byte=70, bit=0, size=1, default=False)
    x_a = Option(name="x_a", byte=3, bit=0, size=1, default=False, exclusive_of=["x_b", "x_c"])
    x_b = Option(name="x_b", byte=3, bit=1, size=1, default=False, exclusive_of=["x_a"])
    x_c = Option(name="x_c", byte=3, bit=2, size=2, default=0)


from rv.modules import MODULE_CLASSES

MODULE_CLASSES.pop("OddCheckModule", None)

o = Odd(spill=False)
ev = install_recorders(o)
o.wide = 13
check(o.option_values["wide"] == 13 and o.wide == 13, "wide plain")
o.wide = 99  # not clamped, not coerced
check(o.option_values["wide"] == 99, "wide unclamped")
o.wide_inv = 5  # size>1: stored as-is, presented as `not value`
check(o.option_values["wide_inv"] == 5 and o.wide_inv is False, "wide_inv")
o.wide_inv = 0
check(o.option_values["wide_inv"] == 0 and o.wide_inv is True, "wide_inv zero")
o.half_min = 7  # only min declared -> bool path
check(o.option_values["half_min"] is True and o.half_min is True, "half_min")
o.half_max = 7  # only max declared -> bool path + inversion
check(o.option_values["half_max"] is False and o.half_max is True, "half_max")
o.ranged_bit = 5  # both declared -> clamp wins, no bool/inversion on set
check(o.option_values["ranged_bit"] == 1 and type(o.option_values["ranged_bit"]) is int, "ranged_bit")
check(o.ranged_bit is False, "ranged_bit presented")
for v, e in ((2, 3), (3, 3), (4, 4), (40, 40), (41, 40), (-9, 3), (3.5, 3.5), (True, 3)):
    o.ranged = v
    check(o.option_values["ranged"] == e and type(o.option_values["ranged"]) is type(e), "ranged %r" % (v,))
o.ranged = 20
o.x_c = 3
o.x_b = True
o.x_a = False  # still resets the others
check(o.option_values["x_b"] is False and o.option_values["x_c"] is False, "x_a resets")
check(
    ev[-3:] == [("x_a", False), ("x_b", False), ("x_c", False)],
    "x_a callback order %r" % (ev[-3:],),
)
o.on_x_b_changed = "not callable"
o.x_a = 1  # non-callable hook is ignored
check(o.option_values["x_a"] is True, "non-callable hook ignored")
try:
    list(o.options_chunks())
except IndexError:
    pass
else:
    check(False, "byte 70 must raise IndexError when packing")
c = make_chunk(o, bytes(range(64)))
try:
    o.load_options(c)
except IndexError:
    pass
else:
    check(False, "byte 70 must raise IndexError when loading a 64 byte record")
o2 = Odd()
o2.load_options(make_chunk(o2, bytes([0xB7] * 71)))
check(o2.option_values["spill"] is True and o2.option_values["wide"] == 7, "long record")
check(o2.option_values["wide_inv"] == 3 and o2.option_values["x_c"] == 1, "long record fields")


class Over(Module):
    name = mtype = "OverCheckModule"
    mgroup = "Synth"
    big = Option(name="big", byte=0, bit=6, size=4, default=0)


MODULE_CLASSES.pop("OverCheckModule", None)
ov = Over()
ov.big = 3
check(list(ov.options_chunks())[1] == (b"CHDT", b"\xc0"), "over fits")
ov.big = 4
try:
    list(ov.options_chunks())
except struct.error:
    pass
else:
    check(False, "byte overflow must raise struct.error")


class NoOpts(Module):
    name = mtype = "NoOptsCheckModule"
    mgroup = "Synth"
    options_chnm = 3


MODULE_CLASSES.pop("NoOptsCheckModule", None)
no = NoOpts()
check(list(no.options_chunks()) == [(b"CHNM", struct.pack("<I", 3)), (b"CHDT", b"")], "no options")
check(list(no.specialized_iff_chunks()) == [(None, None)], "no options specialised")
no.load_options(make_chunk(no, b"\xff" * 4))
check(no.option_values == {}, "no options load")

# --------------------------------------------------------------------------
# 8. through the file writer / reader
# --------------------------------------------------------------------------
for cls in CLASSES:
    for _ in range(6):
        p = rv.api.Project()
        mod = p.new_module(cls)
        for n, opt in cls.options.items():
            setattr(mod, n, rng.randrange(1 << opt.size))
        buf = BytesIO()
        p.write_to(buf)
        raw = buf.getvalue()
        rec = chdt_of(mod)
        needle = b"CHNM" + struct.pack("<I", 4) + struct.pack("<I", mod.options_chnm)
        needle += b"CHDT" + struct.pack("<I", len(rec)) + rec
        check(needle in raw, "options record in file " + cls.__name__)
        buf.seek(0)
        p2 = rv.api.read_sunvox_file(buf)
        mod2 = p2.modules[mod.index]
        check(type(mod2) is cls, "reloaded type")
        for n in cls.options:
            a, b = getattr(mod2, n), getattr(mod, n)
            check(same(a, b), "file roundtrip %s.%s" % (cls.__name__, n))

if failures:
    print("FAILED: %d checks" % len(failures))
    sys.exit(1)
print("PASS")
