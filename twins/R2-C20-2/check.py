"""Behaviour check for MultiCtl.on_value_changed fan-out (property C20).

Sets MultiCtl.value inside projects and compares what arrives at the target
controllers with a frozen reference model of the delivery rules, for every
controller of every module type, for complete 0..32768 value sweeps on a few
targets (containment + monotonicity), for multi-target fan-out with unset /
reversed mappings and custom curves, and for the error / no-op paths.
"""
import random
import sys

import rv.api as rv
from rv.controller import CompactRange, Range
from rv.errors import ControllerValueError
from rv.modules import MODULE_CLASSES
from rv.modules.multictl import MultiCtl

rng = random.Random(2020)
failures = []


def expect(cond, msg):
    if not cond:
        failures.append(msg)
        if len(failures) > 25:
            report()


def report():
    for f in failures:
        print("FAIL:", f)
    sys.exit(1)


def ref_convert(gain, qsteps, smin, smax, dmin, dmax, vmax, value, curve=None):
    value = (value * gain) / 256
    value = min(value, 32768)
    if curve is not None:
        bucket = int(value / 128)
        start = 128 * bucket
        offset = value - start
        b = curve[bucket]
        a = curve[bucket + 1] if bucket < 256 else b
        c = min(offset / 128, 1.0)
        value = int((c * a) + ((1.0 - c) * b))
    srange = smax - smin
    if qsteps < 32768:
        quant = max(qsteps - 1, 1)
        step = 32768 / quant
        value = int(value / step)
        value = (value * step) / 32768
        value = smin + int(srange * value)
    else:
        value = smin + (srange * value) // 32768
    drange = dmax - dmin
    if vmax is not None:
        value /= 32768 / vmax
    if drange > 0:
        value += dmin
    else:
        value = dmin - value
    return int(value)


UNTOUCHED = object()


def ref_delivery(mc, slot, mod):
    """Value the reference rules deliver to `mod` through link `slot`."""
    mapping = mc.mappings.values[slot]
    if mapping.controller == 0:
        return None, UNTOUCHED
    ctl = list(mod.controllers.values())[mapping.controller - 1]
    vt = ctl.value_type
    if not isinstance(vt, Range):
        return ctl, UNTOUCHED
    vmax = None if isinstance(vt, CompactRange) else vt.max - vt.min
    smin, smax = mapping.min, mapping.max
    dmin, dmax = 0, vt.max - vt.min
    if smin > smax:
        smin, smax = smax, smin
        dmin, dmax = dmax, dmin
    out = ref_convert(mc.gain, mc.quantization, smin, smax, dmin, dmax, vmax,
                      mc.value, mc.curve.values)
    return ctl, out + vt.min


def snapshot(mod):
    return dict(mod.controller_values)


def set_mapping(mc, slot, lo, hi, number):
    m = mc.mappings.values[slot]
    m.min, m.max, m.controller = lo, hi, number


PARAMS = [
    # gain, quantization, window
    (256, 32768, (0, 32768)),
    (256, 32768, (32768, 0)),
    (128, 32768, (5000, 25000)),
    (1024, 7, (25000, 5000)),
    (341, 2, (0, 32768)),
    (0, 32768, (12224, 23408)),
    (77, 1000, (19824, 7808)),
    (256, 0, (16384, 16384)),
    (512, 32767, (1, 32767)),
]
VALUES = [0, 1, 127, 128, 129, 8192, 16383, 16384, 20000, 32767, 32768]

# ---------------------------------------------------------------- A. every
# controller of every module type receives exactly the reference value
ranged = other = rejected = 0
for mname, cls in sorted(MODULE_CLASSES.items()):
    proj = rv.Project()
    mc = proj.new_module(rv.m.MultiCtl)
    target = proj.new_module(cls)
    mc >> target
    for cname, ctl in target.controllers.items():
        is_range = isinstance(ctl.value_type, Range)
        compact = isinstance(ctl.value_type, CompactRange)
        for gain, q, (lo, hi) in rng.sample(PARAMS, 4):
            if compact:
                span = ctl.value_type.max - ctl.value_type.min
                lo, hi = lo * span // 32768, hi * span // 32768
            mc.gain, mc.quantization = gain, q
            set_mapping(mc, 0, lo, hi, ctl.number)
            for v in rng.sample(VALUES, 5):
                before = snapshot(target)
                label = f"{mname}.{cname} gain={gain} q={q} win={lo}..{hi} v={v}"
                try:
                    mc.value = v
                except Exception as exc:
                    # only acceptable if the target itself rejects that write
                    # (e.g. unbound user-defined controllers of an empty MetaModule)
                    _, want = ref_delivery(mc, 0, target)
                    try:
                        setattr(target, cname, want)
                    except Exception as exc2:
                        expect(type(exc2) is type(exc), f"{label}: {exc!r} vs {exc2!r}")
                    else:
                        expect(False, f"{label}: fan-out raised {exc!r}")
                    rejected += 1
                    continue
                rctl, want = ref_delivery(mc, 0, target)
                expect(rctl is ctl, f"{mname}.{cname}: number {ctl.number} resolves elsewhere")
                after = snapshot(target)
                if want is UNTOUCHED:
                    expect(after == before, f"{label}: non-range target was modified")
                else:
                    got = after[cname]
                    expect(got == want and type(got) is int, f"{label}: {got!r} != {want!r}")
                    vt = ctl.value_type
                    expect(vt.min <= got <= vt.max, f"{label}: {got} outside {vt!r}")
                    changed = {k for k in after if after[k] != before[k]}
                    expect(changed <= {cname}, f"{label}: also changed {changed - {cname}}")
        if is_range:
            ranged += 1
        else:
            other += 1
expect(rejected < 0.2 * 20 * (ranged + other), f"too many rejected writes: {rejected}")
expect(ranged > 300 and other > 100, f"unexpectedly few controllers swept ({ranged}, {other})")

# ---------------------------------------------------------------- B. full
# value axis: containment, monotonicity and equality with the reference
mono_curve = sorted(rng.randint(0, 32768) for _ in range(257))
SWEEPS = [
    ("Amplifier", "volume", 256, 32768, (0, 32768), None),
    ("Amplifier", "volume", 300, 20, (32768, 0), None),
    ("Amplifier", "dc_offset", 256, 32768, (5000, 25000), mono_curve),
    ("Amplifier", "balance", 1024, 3, (25000, 5000), None),
    ("Amplifier", "fine_volume", 200, 32768, (0, 32768), mono_curve),
    ("MultiSynth", "transpose", 256, 32768, (0, 256), None),
    ("MultiSynth", "transpose", 256, 9, (256, 0), mono_curve),
    ("MultiSynth", "transpose", 700, 32768, (100, 140), None),
    ("Filter", "freq", 256, 100, (0, 32768), None),
    ("Generator", "volume", 129, 32768, (1, 32768), None),
]
for mname, cname, gain, q, (lo, hi), curve in SWEEPS:
    proj = rv.Project()
    target = proj.new_module(MODULE_CLASSES[mname])
    kwargs = {} if curve is None else {"curve": curve}
    mc = proj.new_module(rv.m.MultiCtl, gain=gain, quantization=q, **kwargs)
    mc >> target
    ctl = target.controllers[cname]
    set_mapping(mc, 0, lo, hi, ctl.number)
    vt = ctl.value_type
    label = f"sweep {mname}.{cname} gain={gain} q={q} win={lo}..{hi}"
    prev = None
    for v in range(32769):
        mc.value = v
        got = getattr(target, cname)
        _, want = ref_delivery(mc, 0, target)
        if got != want:
            expect(False, f"{label} v={v}: {got!r} != {want!r}")
            break
        if not vt.min <= got <= vt.max:
            expect(False, f"{label} v={v}: {got} outside {vt!r}")
            break
        if prev is not None and ((got > prev) if lo > hi else (got < prev)):
            expect(False, f"{label} v={v}: not monotone {prev} -> {got}")
            break
        prev = got

# ---------------------------------------------------------------- C. fan-out
# to 16 targets with unset, reversed and assorted mappings
for trial in range(12):
    proj = rv.Project()
    curve = sorted(rng.randint(0, 32768) for _ in range(257)) if trial % 2 else None
    mc = proj.new_module(
        rv.m.MultiCtl,
        gain=rng.choice([0, 100, 256, 400, 1024]),
        quantization=rng.choice([32768, 2, 5, 300]),
        **({} if curve is None else {"curve": curve}),
    )
    classes = [rv.m.Amplifier, rv.m.Filter, rv.m.Generator, rv.m.Reverb, rv.m.Distortion,
               rv.m.Flanger, rv.m.Compressor, rv.m.Lfo] if hasattr(rv.m, "Lfo") else \
              [rv.m.Amplifier, rv.m.Filter, rv.m.Generator, rv.m.Reverb, rv.m.Distortion,
               rv.m.Flanger, rv.m.Compressor, rv.m.Amplifier]
    targets = [proj.new_module(rng.choice(classes)) for _ in range(16)]
    mc >> targets
    expect(mc.out_links == [t.index for t in targets], "out_links order")
    for slot, t in enumerate(targets):
        number = rng.choice([0, 0] + list(range(1, len(t.controllers) + 1)))
        lo, hi = rng.randint(0, 32768), rng.randint(0, 32768)
        set_mapping(mc, slot, lo, hi, number)
    for v in rng.sample(range(32769), 25) + [0, 32768]:
        before = [snapshot(t) for t in targets]
        mc.value = v
        expect(mc.value == v, "MultiCtl.value itself")
        for slot, t in enumerate(targets):
            ctl, want = ref_delivery(mc, slot, t)
            after = snapshot(t)
            label = f"fan-out trial={trial} slot={slot} {t.mtype} v={v}"
            if want is UNTOUCHED:
                expect(after == before[slot], f"{label}: untouched target changed")
            else:
                expect(after[ctl.name] == want, f"{label}: {after[ctl.name]!r} != {want!r}")
                rest = {k for k in after if k != ctl.name and after[k] != before[slot][k]}
                expect(not rest, f"{label}: also changed {rest}")

# ---------------------------------------------------------------- D. no-op paths
proj = rv.Project()
mc = proj.new_module(rv.m.MultiCtl)
amp = proj.new_module(rv.m.Amplifier)
mc >> amp
set_mapping(mc, 0, 0, 32768, amp.controllers["volume"].number)
mc.value = 32768
expect(amp.volume == 1024, "baseline delivery")
# not a downward propagation: value is stored, nothing is sent
MultiCtl.value.propagate(mc, 0, down=False, up=True)
expect(mc.value == 0 and amp.volume == 1024, "down=False must not deliver")
expect(mc.on_value_changed(123, False, True) is None and amp.volume == 1024, "direct call, down=False")
# a direct call delivers the stored controller value, not the argument
mc.controller_values["value"] = 16384
expect(mc.on_value_changed(32768, True, False) is None, "on_value_changed returns None")
expect(amp.volume == 512, f"direct call uses stored value, got {amp.volume}")
# detached module: no parent, nothing to do, no error
loose = MultiCtl()
loose.value = 1234
expect(loose.value == 1234 and loose.parent is None, "detached MultiCtl")
expect(loose.on_value_changed(1, True, True) is None, "detached direct call")
# no links at all
proj2 = rv.Project()
solo = proj2.new_module(rv.m.MultiCtl)
solo.value = 77
expect(solo.value == 77, "MultiCtl without links")
# unset mapping (controller 0) leaves the target alone even if min/max are odd
set_mapping(mc, 0, 32768, 0, 0)
before = snapshot(amp)
mc.value = 5
expect(snapshot(amp) == before, "controller 0 must leave target untouched")

# ---------------------------------------------------------------- E. errors
# keep partial delivery order: links before the failing one are served
proj = rv.Project()
mc = proj.new_module(rv.m.MultiCtl)
a1, a2, a3 = (proj.new_module(rv.m.Amplifier) for _ in range(3))
mc >> [a1, a2, a3]
vol = a1.controllers["volume"].number
set_mapping(mc, 0, 0, 32768, vol)
set_mapping(mc, 1, 0, 32768, len(a2.controllers) + 1)  # no such controller
set_mapping(mc, 2, 0, 32768, vol)
try:
    mc.value = 32768
except IndexError:
    pass
else:
    expect(False, "out-of-range controller number should raise IndexError")
expect((a1.volume, a3.volume) == (1024, 256), f"partial delivery: {(a1.volume, a3.volume)}")

proj = rv.Project()
mc = proj.new_module(rv.m.MultiCtl)
a1 = proj.new_module(rv.m.Amplifier)
ms = proj.new_module(rv.m.MultiSynth)
a3 = proj.new_module(rv.m.Amplifier)
mc >> [a1, ms, a3]
set_mapping(mc, 0, 32768, 0, vol)
set_mapping(mc, 1, 0, 32768, ms.controllers["transpose"].number)  # window exceeds compact span
set_mapping(mc, 2, 0, 32768, vol)
try:
    mc.value = 32768
except ControllerValueError:
    pass
else:
    expect(False, "over-wide compact window should raise ControllerValueError")
expect((a1.volume, ms.transpose, a3.volume) == (0, 0, 256), "partial delivery before range error")
mc.value = 256  # 256 - 128 = 128 is still inside -128..128
expect((a1.volume, ms.transpose, a3.volume) == (1016, 128, 8),
       f"compact delivery {(a1.volume, ms.transpose, a3.volume)}")

# more links than mapping slots: the 16 mapped links are served, then IndexError
proj = rv.Project()
mc = proj.new_module(rv.m.MultiCtl)
amps = [proj.new_module(rv.m.Amplifier) for _ in range(17)]
mc >> amps
for slot in range(16):
    set_mapping(mc, slot, 0, 32768, vol)
try:
    mc.value = 16384
except IndexError:
    pass
else:
    expect(False, "17th link has no mapping slot: IndexError expected")
expect([a.volume for a in amps] == [512] * 16 + [256], "16 served before the failure")

if failures:
    report()
print("PASS")
