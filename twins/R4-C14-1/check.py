"""Behaviour check for Project.attach_module / attach_pattern / __iadd__ / new_module.

Run from the repository root with PYTHONPATH=<root>/src/python.
"""
import glob
import os
import sys
from io import BytesIO

from rv.api import NOTE, Note, Pattern, PatternClone, Project, m, read_sunvox_file
from rv.errors import ModuleOwnershipError, PatternOwnershipError
from rv.modules.module import Module
from rv.modules.output import Output

CHECKS = 0


def ok(cond, msg):
    global CHECKS
    CHECKS += 1
    if not cond:
        print("FAIL:", msg)
        sys.exit(1)


def coherent(p, label):
    ok(p.modules and p.modules[0] is p.output, f"{label}: output at 0")
    ok(isinstance(p.output, Output), f"{label}: output type")
    for i, mod in enumerate(p.modules):
        if mod is None:
            continue
        ok(mod.index == i, f"{label}: index {mod.index} != position {i}")
        ok(mod.parent is p, f"{label}: parent of {i}")
        ok(int(mod) == i + 1, f"{label}: int()")
    for pat in p.patterns:
        if pat is not None:
            ok(pat.project is p, f"{label}: pattern owner")


def snapshot(p):
    return (
        [id(x) if x is not None else None for x in p.modules],
        [(x.index, id(x.parent)) if x is not None else None for x in p.modules],
        [id(x) if x is not None else None for x in p.patterns],
        id(p.output),
    )


def roundtrip(p):
    f = BytesIO()
    p.write_to(f)
    f.seek(0)
    return read_sunvox_file(f)


def raises(exc, fn, *a, **kw):
    try:
        fn(*a, **kw)
    except exc as e:
        return e
    except Exception as e:  # wrong type
        ok(False, f"expected {exc.__name__}, got {type(e).__name__}: {e}")
    ok(False, f"expected {exc.__name__}, nothing raised")


# --- fresh project -------------------------------------------------------
p = Project()
ok(len(p.modules) == 1, "fresh: one module")
coherent(p, "fresh")
ok(p.patterns == [], "fresh: no patterns")

# --- new_module returns the constructed instance, appended in order ------
a = p.new_module(m.Amplifier, volume=100)
ok(type(a) is m.Amplifier and a.volume == 100, "new_module result")
ok(a.index == 1 and p.modules[1] is a, "new_module position")
g = p.new_module(m.Generator)
f = p.new_module(m.Filter, name="flt")
ok((g.index, f.index, f.name) == (2, 3, "flt"), "new_module sequence")
coherent(p, "after new_module")

# --- attach twice is a no-op ---------------------------------------------
before = snapshot(p)
ok(p.attach_module(a) is a, "reattach returns module")
ok(p.attach_module(p.output) is p.output, "reattach output")
ok(p.attach_module(a, loading=True) is a, "reattach loading")
ok(snapshot(p) == before, "reattach changed nothing")

# --- gaps: lowest empty position is filled, nobody else moves ------------
e1 = p.new_module(m.Echo)
e2 = p.new_module(m.Reverb)
p.modules[2] = None
p.modules[4] = None
others = {i: x for i, x in enumerate(p.modules) if x is not None}
d1 = m.Delay()
ok(p.attach_module(d1) is d1, "attach returns module")
ok(d1.index == 2 and p.modules[2] is d1, "lowest gap filled first")
d2 = p.new_module(m.Distortion)
ok(d2.index == 4 and p.modules[4] is d2, "second gap filled next")
d3 = p.new_module(m.Lfo)
ok(d3.index == 6 and len(p.modules) == 7, "no gap -> appended")
for i, x in others.items():
    ok(p.modules[i] is x and x.index == i, "other modules did not move")
coherent(p, "after gap fill")

# --- loading=True never fills gaps; None appends an empty slot -----------
p.modules[3] = None
before_len = len(p.modules)
ld = m.Flanger()
p.attach_module(ld, loading=True)
ok(ld.index == before_len and p.modules[3] is None, "loading ignores gaps")
ok(p.attach_module(None) is None, "attach None returns None")
ok(p.attach_module(None, loading=True) is None, "attach None loading")
ok(p.modules[-2:] == [None, None] and len(p.modules) == before_len + 3, "None appended")
v = p.new_module(m.Vibrato)
ok(v.index == 3, "gap 3 filled before trailing gaps")
w = p.new_module(m.Loop)
ok(w.index == before_len + 1, "then the first trailing gap")
coherent(p, "after loading-style attaches")

# --- refused attachments leave everything untouched ----------------------
q = Project()
foreign = q.new_module(m.Amplifier)
qpat = Pattern()
q.attach_pattern(qpat)
before_p, before_q = snapshot(p), snapshot(q)
for loading in (False, True):
    e = raises(ModuleOwnershipError, p.attach_module, foreign, loading=loading)
    ok(str(e) == "Module is already attached to another project.", "ownership message")
    e = raises(ModuleOwnershipError, p.attach_module, q.output, loading=loading)
    e = raises(RuntimeError, p.attach_module, Module(), loading=loading)
    ok(str(e) == "Cannot attach base Module instance.", "base module message")
e = raises(RuntimeError, p.new_module, Module)
e = raises(PatternOwnershipError, p.attach_pattern, qpat)
ok(str(e) == "Pattern already attached to a project", "pattern message")
raises(PatternOwnershipError, q.attach_pattern, qpat)  # even by its own owner
ok(snapshot(p) == before_p and snapshot(q) == before_q, "refusals changed nothing")
ok(foreign.parent is q and foreign.index == 1 and qpat.project is q, "foreign untouched")
# base Module check comes before the ownership check
stray = Module(parent=q, index=5)
raises(RuntimeError, p.attach_module, stray)
ok(stray.parent is q and stray.index == 5, "stray untouched")

# --- parent preset to this project but not in list: attached normally ----
pre = m.Amplifier(parent=p, index=99)
p.attach_module(pre)
ok(pre in p.modules and pre.index == p.modules.index(pre), "preset parent attached")
coherent(p, "after preset parent")

# --- Output handling -----------------------------------------------------
r = Project()
old_out = r.output
extra_out = Output()
r.attach_module(extra_out)
ok(extra_out.index == 1 and r.output is old_out, "second Output does not replace output")
r.modules[0] = None
new_out = Output()
r.attach_module(new_out)
ok(new_out.index == 0 and r.output is new_out and r.modules[0] is new_out, "Output in slot 0")
r.modules[0] = None
amp0 = r.new_module(m.Amplifier)
ok(amp0.index == 0 and r.output is new_out, "non-Output in slot 0 leaves output attr")
s = Project()
s.modules[0] = None
lo = Output()
s.attach_module(lo, loading=True)
ok(lo.index == 1 and s.output is not lo, "loading Output at 1 not the output")

# --- += ------------------------------------------------------------------
t = Project()
x1, x2, x3, x4 = m.Amplifier(), m.Generator(), m.Filter(), m.Echo()
pt1, pt2 = Pattern(tracks=2, lines=4), Pattern()
res = t
res += x1
ok(res is t and x1.index == 1, "+= module")
res += [x2, [pt1, [x3]], [], pt2]
ok(res is t, "+= returns self")
ok([x2.index, x3.index] == [2, 3], "+= nested list order")
ok(t.patterns == [pt1, pt2] and pt1.project is t and pt2.project is t, "+= patterns")
clone = PatternClone(source=0)
res += clone
ok(t.patterns[-1] is clone and clone.project is t, "+= clone")
before = snapshot(t)
for junk in (None, 5, "abc", (x4,), {"a": 1}, object(), Module):
    res += junk
    ok(res is t, "+= junk returns self")
ok(snapshot(t) == before and x4.parent is None, "+= junk ignored")
res += [x1, x2]
ok(snapshot(t) == before, "+= already attached is no-op")
# failure part-way keeps what was attached before the failure
y1, y2 = m.Delay(), m.Reverb()
try:
    res += [y1, foreign, y2]
    ok(False, "+= foreign should raise")
except ModuleOwnershipError:
    pass
ok(y1.parent is t and y1.index == 4 and y2.parent is None, "+= partial")
try:
    res += [pt1]
    ok(False, "+= owned pattern should raise")
except PatternOwnershipError:
    pass
ok(len(t.patterns) == 3, "+= owned pattern refused")


class MyList(list):
    pass


res += MyList([y2])
ok(y2.index == 5, "+= list subclass")
coherent(t, "after +=")

# --- attach_pattern ------------------------------------------------------
u = Project()
ok(u.attach_pattern(None) == 0 and u.patterns == [None], "empty pattern")
pa = Pattern()
ok(u.attach_pattern(pa) == 1 and pa.project is u, "pattern index 1")
ok(u.attach_pattern(None) == 2, "empty pattern index 2")
pc = PatternClone(source=1)
ok(u.attach_pattern(pc) == 3 and pc.project is u, "clone index")
ok(u.attach_pattern(0) == 4 and u.patterns[4] == 0, "falsy non-None stored as is")
ok(pc.source_pattern is pa, "clone source")
raises(PatternOwnershipError, u.attach_pattern, pa)
raises(PatternOwnershipError, u.attach_pattern, pc)
ok(len(u.patterns) == 5, "refused patterns not appended")

# --- Note.mod resolves by position ---------------------------------------
amp = t.modules[1]
n = pt1.data[0][0]
ok(n.mod is None, "module 0 -> None")
n.mod = amp
ok(n.module == 2 and n.mod is amp, "note mod roundtrip")
n.module = 1
ok(n.mod is t.output, "module 1 -> output")
n.module = len(t.modules) + 1
ok(n.mod is None, "out of range -> None")

# --- save/load with gaps, then continue attaching ------------------------
def history(proj, label):
    coherent(proj, label + " loaded")
    gaps = [i for i, x in enumerate(proj.modules) if x is None]
    fixed = {i: x for i, x in enumerate(proj.modules) if x is not None}
    added = []
    for k in range(len(gaps) + 2):
        nm = proj.new_module(m.Amplifier, name=f"n{k}")
        added.append(nm.index)
    ok(added == gaps + [len(fixed) + len(gaps), len(fixed) + len(gaps) + 1], f"{label}: fill order {added} {gaps}")
    for i, x in fixed.items():
        ok(proj.modules[i] is x, f"{label}: unmoved")
    coherent(proj, label + " filled")
    e = raises(ModuleOwnershipError, proj.attach_module, foreign)
    return proj


for holes in ([], [1], [2, 3], [1, 3, 5], [1, 2, 3, 4, 5]):
    base = Project()
    mods = [base.new_module(m.Amplifier, name=f"a{i}") for i in range(6)]
    pat = Pattern(tracks=1, lines=2)
    base += pat
    pat.data[0][0].note = NOTE.C4
    pat.data[0][0].module = 7
    pat.data[1][0].module = 4
    base.connect(mods[5], base.output)
    for h in holes:
        base.modules[h] = None
    loaded = roundtrip(base)
    ok([x is None for x in loaded.modules] == [x is None for x in base.modules], f"holes {holes} preserved")
    ok([x.name for x in loaded.modules if x] == [x.name for x in base.modules if x], "names preserved")
    ln = loaded.patterns[0].data
    ok(ln[0][0].mod is loaded.modules[6] and ln[0][0].mod.name == "a5", "note mod after load")
    ok(ln[1][0].mod is loaded.modules[3], "note mod (maybe None) after load")
    history(loaded, f"holes {holes}")
    again = roundtrip(loaded)
    coherent(again, f"holes {holes} again")
    ok(all(x is not None for x in again.modules), "no holes after fill")
    ok(len(again.modules) == len(loaded.modules), "size kept")

# trailing holes are trimmed on load
base = Project()
mods = [base.new_module(m.Amplifier) for i in range(3)]
base.modules[3] = None
base.modules[2] = None
loaded = roundtrip(base)
ok(len(loaded.modules) == 2, "trailing holes trimmed")
ok(loaded.new_module(m.Amplifier).index == 2, "append after trim")

# --- real files ----------------------------------------------------------
files = sorted(glob.glob(os.path.join("tests", "files", "**", "*.sunvox"), recursive=True))
ok(len(files) > 0, "found sample files (run from repository root)")
for path in files:
    proj = read_sunvox_file(path)
    history(proj, os.path.basename(path))
    coherent(roundtrip(proj), path + " rt")

print(f"PASS ({CHECKS} checks)")
