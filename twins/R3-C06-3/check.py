"""Behaviour check for Project.chunks() and Synth.chunks() (the writers that
turn the live object state into a .sunvox / .sunsynth file).

Run from the repository root:
    PYTHONPATH=<root>/src/python python check.py

The chunk streams are compared with an independent re-statement of the file
layout (built only from public module APIs), for every fixture file, for
generated projects, after editing each project header field / module field
(property C06: what is saved is the current state), plus a golden digest.
"""
import glob
import hashlib
import logging
import os
import struct
import sys
from io import BytesIO
from struct import pack

logging.disable(logging.CRITICAL)

from rv.api import Pattern, Project, Synth, read_sunvox_file  # noqa: E402
from rv.errors import EmptySynthError  # noqa: E402
from rv.modules import MODULE_CLASSES  # noqa: E402
from rv.modules.metamodule import MetaModule  # noqa: E402
from rv.note import NOTE, Note  # noqa: E402

ROOT = os.getcwd()
FILES = os.path.join(ROOT, "tests", "files")

GOLDEN = "44828223ff21b863ec448da3eaa06e47994e4481c107123723efa9e9074f6a32"

failures = []
golden = hashlib.sha256()


def check(cond, msg):
    if not cond:
        failures.append(msg)


def record(label, data):
    if not isinstance(data, bytes):
        data = repr(data).encode()
    golden.update(label.encode() + b"\0" + pack("<I", len(data)) + data)


def raises(exc_type, fn, *args):
    try:
        fn(*args)
    except exc_type:
        return True
    except Exception as e:
        failures.append(f"expected {exc_type.__name__}, got {type(e).__name__}: {e}")
        return True
    return False


# --------------------------------------------------------------------------
# Reference writers
# --------------------------------------------------------------------------


def ref_controller_part(mod):
    out = []
    names = [n for n, c in mod.controllers.items() if c.attached(mod)]
    for n in names:
        out.append((b"CVAL", pack("<i", mod.get_raw(n))))
    if names:
        out.append(
            (b"CMID", b"".join(mod.controller_midi_maps[n].cmid_data for n in names))
        )
    if mod.chnk:
        out.append((b"CHNK", pack("<I", mod.chnk)))
        out.extend(mod.specialized_iff_chunks())
    return out


def ref_project_chunks(p):
    out = [(b"SVOX", b"")]
    out.append((b"VERS", bytes(reversed(p.sunvox_version))))
    out.append((b"BVER", bytes(reversed(p.based_on_version))))
    out.append((b"FLGS", pack("<I", p.flags)))
    out.append((b"SFGS", pack("<I", p.receive_sync_midi | p.receive_sync_other << 3)))
    out.append((b"BPM ", pack("<I", p.initial_bpm)))
    out.append((b"SPED", pack("<I", p.initial_tpl)))
    out.append((b"TGRD", pack("<I", p.time_grid)))
    out.append((b"TGD2", pack("<I", p.time_grid2)))
    out.append((b"GVOL", pack("<I", p.global_volume)))
    out.append((b"NAME", p.name.encode("utf8") + b"\0"))
    out.append((b"MSCL", pack("<I", p.modules_scale)))
    out.append((b"MZOO", pack("<I", p.modules_zoom)))
    out.append((b"MXOF", pack("<i", p.modules_x_offset)))
    out.append((b"MYOF", pack("<i", p.modules_y_offset)))
    out.append((b"LMSK", pack("<I", p.modules_layer_mask)))
    out.append((b"CURL", pack("<I", p.modules_current_layer)))
    if p.timeline_position:
        out.append((b"TIME", pack("<i", p.timeline_position)))
    if p.restart_position:
        out.append((b"REPS", pack("<i", p.restart_position)))
    out.append((b"SELS", pack("<I", p.selected_module)))
    out.append((b"LGEN", pack("<i", p.selected_generator)))
    out.append((b"PATN", pack("<I", p.current_pattern)))
    out.append((b"PATT", pack("<I", p.current_track)))
    out.append((b"PATL", pack("<I", p.current_line)))
    for pat in p.patterns:
        if pat is not None:
            out.extend(pat.iff_chunks())
        out.append((b"PEND", b""))
    for mod in p.modules:
        if mod is not None:
            out.extend(mod.iff_chunks())
            if mod.in_links:
                out.append((b"SLNK", b"".join(pack("<i", x) for x in mod.in_links)))
                if set(mod.in_link_slots) - {-1, 0}:
                    out.append(
                        (b"SLnK", b"".join(pack("<i", x) for x in mod.in_link_slots))
                    )
            else:
                out.append((b"SLNK", b""))
            out.extend(ref_controller_part(mod))
        out.append((b"SEND", b""))
    return out


def ref_synth_chunks(s):
    mod = s.module
    out = [(b"SSYN", b""), (b"VERS", bytes(reversed(s.sunsynth_version)))]
    out.extend(mod.iff_chunks(in_project=False))
    if isinstance(mod, MetaModule):
        mod.recompute_controller_attachment()
    out.extend(ref_controller_part(mod))
    out.append((b"SEND", b""))
    return out


def ref_file(chunks):
    f = BytesIO()
    for name, data in chunks:
        if name is None:
            continue
        f.write(name + pack("<I", len(data)) + data)
    return f.getvalue()


def compare(obj, tag):
    got = list(obj.chunks())
    ref = ref_synth_chunks(obj) if isinstance(obj, Synth) else ref_project_chunks(obj)
    if got != ref:
        for i, (a, b) in enumerate(zip(got, ref)):
            if a != b:
                failures.append(f"{tag}: chunk {i} differs: {a[0]} vs {b[0]}")
                break
        else:
            failures.append(f"{tag}: chunk count {len(got)} vs {len(ref)}")
    data = obj.read()
    check(data == ref_file(ref), f"{tag}: file bytes")
    f = BytesIO()
    obj.write_to(f)
    check(f.getvalue() == data, f"{tag}: write_to == read")
    record(tag, data)
    return data


HEADER_ATTRS = [
    "sunvox_version", "based_on_version", "flags", "receive_sync_midi",
    "receive_sync_other", "initial_bpm", "initial_tpl", "time_grid", "time_grid2",
    "global_volume", "name", "modules_scale", "modules_zoom", "modules_x_offset",
    "modules_y_offset", "modules_layer_mask", "modules_current_layer",
    "timeline_position", "restart_position", "selected_module",
    "selected_generator", "current_pattern", "current_track", "current_line",
]
MODULE_ATTRS = [
    "flags", "name", "mtype", "mod_finetune", "mod_relative_note", "x", "y", "layer",
    "mod_scale", "color", "midi_in_always", "midi_in_channel", "midi_out_name",
    "midi_out_channel", "midi_out_bank", "midi_out_program", "in_links",
    "in_link_slots", "controller_values", "option_values",
]


def header_state(p, reloaded=False):
    st = [getattr(p, a) for a in HEADER_ATTRS]
    if reloaded:
        # the version a file was written with is kept in a separate attribute
        st[HEADER_ATTRS.index("sunvox_version")] = p.loaded_sunvox_version
    return st


def module_state(m, in_project=True):
    if m is None:
        return None
    st = [getattr(m, a) for a in MODULE_ATTRS]
    st.append(int(m.visualization))
    st.append({k: m.controller_midi_maps[k].cmid_data for k in m.controllers})
    if not in_project:
        for a in ("x", "y", "layer", "in_links", "in_link_slots"):
            st[MODULE_ATTRS.index(a)] = None
        st[-2] = None
    return st


def project_state(p, reloaded=False):
    pats = [
        None if pat is None else (type(pat).__name__, list(pat.iff_chunks()))
        for pat in p.patterns
    ]
    return header_state(p, reloaded), [module_state(m) for m in p.modules], pats


def reload(obj):
    return read_sunvox_file(BytesIO(obj.read()))


# --------------------------------------------------------------------------
# 1. Every fixture file
# --------------------------------------------------------------------------
paths = sorted(glob.glob(os.path.join(FILES, "**", "*.sun*"), recursive=True))
check(len(paths) >= 50, f"fixtures found: {len(paths)}")
n_projects = n_synths = 0
for path in paths:
    rel = os.path.relpath(path, FILES).replace(os.sep, "/")
    obj = read_sunvox_file(path)
    data = compare(obj, f"file/{rel}")
    again = read_sunvox_file(BytesIO(data))
    check(again.read() == data, f"{rel}: rewrite stable")
    if isinstance(obj, Project):
        n_projects += 1
        check(project_state(again) == project_state(obj), f"{rel}: state kept")
        # embedded projects of metamodules use the same writer
        for m in obj.modules:
            if isinstance(m, MetaModule):
                compare(m.project, f"file/{rel}/meta{m.index}")
    else:
        n_synths += 1
        check(
            module_state(again.module, False) == module_state(obj.module, False),
            f"{rel}: module state kept",
        )
        if isinstance(obj.module, MetaModule):
            compare(obj.module.project, f"file/{rel}/embedded")
check(n_projects >= 5 and n_synths >= 40, f"projects={n_projects} synths={n_synths}")

# --------------------------------------------------------------------------
# 2. Default instance of every module type, as synth and inside a project
# --------------------------------------------------------------------------
no_controllers = 0
for mtype in sorted(MODULE_CLASSES):
    cls = MODULE_CLASSES[mtype]
    if mtype == "Output":
        continue
    mod = cls()
    if not any(c.attached(mod) for c in mod.controllers.values()):
        no_controllers += 1
        check(b"CMID" not in [c[0] for c in Synth(mod).chunks()], f"{mtype}: no CMID")
    data = compare(Synth(mod), f"synth/{mtype}")
    back = read_sunvox_file(BytesIO(data))
    check(type(back.module) is cls, f"synth/{mtype}: type")
    check(back.read() == data, f"synth/{mtype}: stable")
    p = Project()
    p.attach_module(mod)
    p.output << mod
    compare(p, f"project/{mtype}")
record("no_controllers", no_controllers)
check(raises(EmptySynthError, Synth().read), "empty synth")
check(raises(EmptySynthError, list, Synth().chunks()), "empty synth chunks")

# --------------------------------------------------------------------------
# 3. Header fields: defaults, edits, optional chunks, bad values
# --------------------------------------------------------------------------
p = Project()
names = [c[0] for c in p.chunks()]
check(
    names
    == [b"SVOX", b"VERS", b"BVER", b"FLGS", b"SFGS", b"BPM ", b"SPED", b"TGRD",
        b"TGD2", b"GVOL", b"NAME", b"MSCL", b"MZOO", b"MXOF", b"MYOF", b"LMSK",
        b"CURL", b"SELS", b"LGEN", b"PATN", b"PATT", b"PATL", b"SFFF", b"SNAM",
        b"SFIN", b"SREL", b"SXXX", b"SYYY", b"SZZZ", b"SSCL", b"SVPR", b"SCOL",
        b"SMII", b"SMIC", b"SMIB", b"SMIP", b"SLNK", b"SEND"],
    f"default project chunk names {names}",
)
compare(p, "project/default")

for pos, rep, expect in [
    (0, 0, []),
    (5, 0, [b"TIME"]),
    (0, 7, [b"REPS"]),
    (-3, -9, [b"TIME", b"REPS"]),
    (2**31 - 1, -(2**31), [b"TIME", b"REPS"]),
    (False, 0.0, []),
]:
    p = Project()
    p.timeline_position, p.restart_position = pos, rep
    names = [c[0] for c in p.chunks()]
    i = names.index(b"CURL")
    check(names[i + 1 : names.index(b"SELS")] == expect, f"TIME/REPS for {pos},{rep}")
    compare(p, f"project/pos{pos}/{rep}")
    q = reload(p)
    check((q.timeline_position, q.restart_position) == (pos, rep), f"pos {pos},{rep}")

header_edits = {
    "sunvox_version": (1, 9, 6, 1),
    "based_on_version": (1, 7, 3, 2),
    "flags": 0x1234,
    "receive_sync_midi": 5,
    "receive_sync_other": 6,
    "initial_bpm": 300,
    "initial_tpl": 31,
    "time_grid": 16,
    "time_grid2": 3,
    "global_volume": 256,
    "name": "Über project ✓",
    "modules_scale": 512,
    "modules_zoom": 100,
    "modules_x_offset": -77,
    "modules_y_offset": 1234,
    "modules_layer_mask": 0xFF,
    "modules_current_layer": 7,
    "timeline_position": 64,
    "restart_position": -2,
    "selected_module": 1,
    "selected_generator": 2,
    "current_pattern": 1,
    "current_track": 3,
    "current_line": 9,
}
check(set(header_edits) == set(HEADER_ATTRS), "edit table covers all header fields")
project_files = [x for x in paths if x.endswith(".sunvox")]
for path in project_files:
    rel = os.path.relpath(path, FILES).replace(os.sep, "/")
    base = project_state(read_sunvox_file(path))
    for attr, value in header_edits.items():
        p = read_sunvox_file(path)
        if getattr(p, attr) == value:
            value += 1
        setattr(p, attr, value)
        expected = project_state(p)
        check(expected != base, f"{rel}: {attr} edit changes state")
        compare(p, f"edit/{rel}/{attr}")
        q = reload(p)
        got = project_state(q, reloaded=True)
        saved = q.loaded_sunvox_version if attr == "sunvox_version" else getattr(q, attr)
        check(saved == value, f"{rel}: {attr} saved")
        check(got == expected, f"{rel}: {attr} only change")

# out-of-domain header values: struct.error at the offending chunk, and the
# chunks before it have already been produced
for attr, bad, last_ok in [
    ("initial_bpm", -1, b"SFGS"),
    ("global_volume", 2**32, b"TGD2"),
    ("modules_x_offset", 2**31, b"MZOO"),
    ("modules_current_layer", None, b"LMSK"),
    ("timeline_position", 2**31, b"CURL"),
    ("restart_position", "x", b"CURL"),
    ("current_line", -1, b"PATT"),
    ("selected_generator", 2**31, b"SELS"),
    ("flags", -1, b"BVER"),
    ("sunvox_version", (1, 2, 3), b"SVOX"),
    ("based_on_version", (1, 2, 3, 256), b"VERS"),
]:
    p = Project()
    setattr(p, attr, bad)
    seen = []
    gen = p.chunks()

    def drain():
        for c in gen:
            seen.append(c[0])

    check(raises(struct.error, drain), f"bad {attr}={bad!r}")
    check(seen and seen[-1] == last_ok, f"bad {attr}: last chunk {seen[-1:]}")
p = Project()
p.name = None
check(raises(AttributeError, p.read), "name None")

# --------------------------------------------------------------------------
# 4. Links, slots, holes in the module list, patterns
# --------------------------------------------------------------------------


def build():
    p = Project()
    p.name = "generated"
    gen = p.new_module(MODULE_CLASSES["Generator"], name="g1", x=10, y=20)
    gen2 = p.new_module(MODULE_CLASSES["Analog generator"], x=-5, layer=3)
    amp = p.new_module(MODULE_CLASSES["Amplifier"], volume=300, color=(1, 2, 3))
    flt = p.new_module(MODULE_CLASSES["Filter"], freq=1000)
    dly = p.new_module(MODULE_CLASSES["Delay"])
    amp << [gen, gen2]
    amp >> flt >> p.output
    gen >> flt
    dly >> p.output
    amp >> dly
    pat = Pattern(tracks=2, lines=4, x=0, y=0, name="pat")
    pat.data[0][0] = Note(note=NOTE.C5, vel=100, module=gen.index + 1)
    pat.data[3][1] = Note(ctl=0x0200, val=0x4000, module=amp.index + 1)
    p.attach_pattern(pat)
    return p, (gen, gen2, amp, flt, dly)


p, (gen, gen2, amp, flt, dly) = build()
compare(p, "generated/base")
check(flt.in_links == [amp.index, gen.index], "links as built")
check(any(s not in (0, -1) for m in p.modules for s in m.in_link_slots), "has slots")
q = reload(p)
check(project_state(q) == project_state(p), "generated roundtrip")


def link_chunks(p, module):
    """(name, data) of SLNK / SLnK chunks written for the module."""
    out, idx = [], -1
    for name, data in p.chunks():
        if name == b"SFFF":
            idx += 1
            while p.modules[idx] is None:
                idx += 1
        if idx == module.index and name in (b"SLNK", b"SLnK"):
            out.append((name, data))
    return out


# disconnect leaves -1 holes that are written as they are
p, (gen, gen2, amp, flt, dly) = build()
gen >> ~flt
check(flt.in_links == [amp.index, -1], "disconnect marks -1")
compare(p, "generated/disconnected")
check(
    link_chunks(p, flt) == [(b"SLNK", pack("<ii", amp.index, -1))],
    f"SLNK with hole {link_chunks(p, flt)}",
)
# only zero / -1 slots -> no SLnK; any other slot -> SLnK
for slots, has in [([0, 0], False), ([0, -1], False), ([-1, -1], False),
                   ([1, 0], True), ([0, 5], True), ([-2, 0], True)]:
    p, (gen, gen2, amp, flt, dly) = build()
    flt.in_link_slots[:] = slots
    got = link_chunks(p, flt)
    exp = [(b"SLNK", pack("<ii", amp.index, gen.index))]
    if has:
        exp.append((b"SLnK", pack("<ii", *slots)))
    check(got == exp, f"slots {slots}: {got}")
    compare(p, f"generated/slots{slots}")
# no links at all -> empty SLNK
check(link_chunks(p, gen) == [(b"SLNK", b"")], "empty SLNK")
# tuples work like lists
p, (gen, gen2, amp, flt, dly) = build()
flt.in_links, flt.in_link_slots = tuple(flt.in_links), tuple(flt.in_link_slots)
compare(p, "generated/tuple-links")
flt.in_links, flt.in_link_slots = (), ()
check(link_chunks(p, flt) == [(b"SLNK", b"")], "empty tuple links")
# slot list of a different length / bad link value -> struct.error before SLNK
for mutate in (
    lambda m: m.in_link_slots.append(0),
    lambda m: m.in_link_slots.pop(),
    lambda m: m.in_links.__setitem__(0, 2**31),
    lambda m: m.in_links.__setitem__(0, None),
    lambda m: m.in_link_slots.__setitem__(1, "a"),
):
    p, (gen, gen2, amp, flt, dly) = build()
    mutate(flt)
    seen = []
    gen_ = p.chunks()

    def drain():
        for c in gen_:
            seen.append(c[0])

    check(raises(struct.error, drain), "inconsistent links")
    check(seen[-1] == b"SMIP", f"no SLNK written before the error: {seen[-3:]}")

# holes in module and pattern lists
p, (gen, gen2, amp, flt, dly) = build()
p.modules[gen2.index] = None
amp.in_links.remove(gen2.index)
amp.in_link_slots.pop()
p.patterns.insert(0, None)
p.patterns.append(None)
names = [c[0] for c in p.chunks()]
check(names.count(b"SEND") == len(p.modules), "one SEND per slot")
check(names.count(b"PEND") == 3, "one PEND per pattern slot")
compare(p, "generated/holes")
q = reload(p)
check(q.modules[gen2.index] is None, "module hole kept")
check([x is None for x in q.patterns] == [True, False, True], "pattern holes kept")
newmod = p.new_module(MODULE_CLASSES["Echo"])
check(newmod.index == gen2.index, "hole is reused")
compare(p, "generated/hole-reused")

# module field edits inside a project are saved, others untouched
module_edits = {
    "name": "renamed",
    "mod_finetune": -100,
    "mod_relative_note": 12,
    "x": -300,
    "y": 4000,
    "layer": 5,
    "mod_scale": 128,
    "color": (9, 8, 7),
    "midi_in_always": True,
    "midi_in_channel": 9,
    "midi_out_name": "port",
    "midi_out_channel": 3,
    "midi_out_bank": 2,
    "midi_out_program": 55,
    "flags": 0x51 | 0x80,
}
base_p, _ = build()
base = project_state(base_p)
for attr, value in module_edits.items():
    p, mods = build()
    target = mods[2]
    setattr(target, attr, value)
    expected = project_state(p)
    check(expected != base, f"module {attr}: edit changes state")
    compare(p, f"generated/module-{attr}")
    q = reload(p)
    check(getattr(q.modules[target.index], attr) == value, f"module {attr} saved")
    check(project_state(q) == expected, f"module {attr}: only change")
    # and as a synth
    data = compare(Synth(target), f"generated/synth-{attr}")
    m2 = read_sunvox_file(BytesIO(data)).module
    if attr not in ("x", "y", "layer"):
        check(getattr(m2, attr) == value, f"synth module {attr} saved")
# controller and midi map edits
p, mods = build()
mods[2].volume = 17
mods[2].controller_midi_maps["volume"].channel = 4
mods[3].type = mods[3].Type.hp
mods[3].roll_off = mods[3].RollOff(3)
expected = project_state(p)
compare(p, "generated/controller-edits")
q = reload(p)
check(q.modules[mods[2].index].volume == 17, "controller edit saved")
check(q.modules[mods[2].index].controller_midi_maps["volume"].channel == 4, "cmid")
check(project_state(q) == expected, "controller edits: only change")
# visualization
p, mods = build()
mods[0].visualization = 0x01020304
compare(p, "generated/visualization")
check(int(reload(p).modules[mods[0].index].visualization) == 0x01020304, "SVPR saved")

# --------------------------------------------------------------------------
# 5. MetaModule: user defined controllers are (re)attached when saving a synth
# --------------------------------------------------------------------------
inner, mods = build()
mm = MetaModule(project=inner)
mm.user_defined_controllers = 3
mm.mappings.values[0].module, mm.mappings.values[0].controller = mods[2].index, 0
mm.mappings.values[1].module, mm.mappings.values[1].controller = mods[3].index, 1
mm.user_defined[0].label = "Amp volume"
mm.update_user_defined_controllers()
for c in mm.user_defined:
    c.detach(mm)
cvals = [c for c in Synth(mm).chunks() if c[0] == b"CVAL"]
check(len(cvals) == 5 + 3, f"metamodule synth CVAL count {len(cvals)}")
check(mm.user_defined[2].attached(mm) and not mm.user_defined[3].attached(mm), "reatt")
data = compare(Synth(mm), "metamodule/synth")
back = read_sunvox_file(BytesIO(data)).module
check(back.user_defined_controllers == 3, "user_defined_controllers saved")
check(back.user_defined[0].label == "Amp volume", "label saved")
check(back.project.read() == inner.read(), "embedded project saved")
outer = Project()
outer.attach_module(mm)
outer.output << mm
compare(outer, "metamodule/project")
mm.user_defined_controllers = 1
mm.volume = 99
inner.initial_bpm = 222
data2 = compare(Synth(mm), "metamodule/synth-edited")
back = read_sunvox_file(BytesIO(data2)).module
check(
    (back.user_defined_controllers, back.volume, back.project.initial_bpm)
    == (1, 99, 222),
    "metamodule edits saved",
)
check(len([c for c in Synth(mm).chunks() if c[0] == b"CVAL"]) == 6, "fewer CVALs")
# module.clone() goes through Synth.chunks as well
cl = mods[2].clone()
check(module_state(cl, False) == module_state(mods[2], False), "clone equals original")
check(inner.clone().read() == inner.read(), "project clone")

digest = golden.hexdigest()
if os.environ.get("C06_PRINT_GOLDEN"):
    print(digest)
check(digest == GOLDEN, f"golden digest mismatch: {digest}")

if failures:
    print("FAIL")
    for f in failures[:40]:
        print("  -", f)
    print(f"  ({len(failures)} failures)")
    sys.exit(1)
print("PASS")
