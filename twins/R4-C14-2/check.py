"""Behaviour check for Note.mod / Note.module_index / Note.project and the
Pattern data ownership helpers (data, set_via_fn, set_via_gen).

Run from the repository root with PYTHONPATH=<root>/src/python.
"""
import glob
import os
import sys
from io import BytesIO

from rv.api import NOTE, NOTECMD, Note, Pattern, PatternClone, Project, m, read_sunvox_file
from rv.errors import ModuleOwnershipError, PatternOwnershipError
from rv.modules.module import Module

CHECKS = 0


def ok(cond, msg):
    global CHECKS
    CHECKS += 1
    if not cond:
        print("FAIL:", msg)
        sys.exit(1)


def raises(exc, fn, *a, **kw):
    try:
        fn(*a, **kw)
    except exc as e:
        ok(type(e) is exc, f"exact type {exc.__name__}")
        return e
    except Exception as e:
        ok(False, f"expected {exc.__name__}, got {type(e).__name__}: {e}")
    ok(False, f"expected {exc.__name__}, nothing raised")


def roundtrip(p):
    f = BytesIO()
    p.write_to(f)
    f.seek(0)
    return read_sunvox_file(f)


def expected_mod(project, number):
    if number == 0:
        return None
    idx = number - 1
    return project.modules[idx] if idx < len(project.modules) else None


# --- module_index --------------------------------------------------------
for number, idx in [(0, None), (1, 0), (2, 1), (255, 254), (0xFFFF, 0xFFFE)]:
    ok(Note(module=number).module_index == idx, f"module_index({number})")
loose = Note()
loose.module = -3  # validators only run at construction
ok(loose.module_index == -4, "negative module number passes through")

# --- unowned notes / patterns -------------------------------------------
orphan = Note(module=1)
raises(AttributeError, lambda: orphan.mod)
raises(AttributeError, lambda: orphan.project)
pat = Pattern(tracks=2, lines=3)
n = pat.data[0][0]
ok(n.pattern is pat and n.project is None, "note in unowned pattern")
e = raises(PatternOwnershipError, lambda: n.mod)
ok(str(e) == "Pattern not owned by a project", "message for unowned pattern")
n.module = 5
raises(PatternOwnershipError, lambda: n.mod)  # ownership checked before lookup
n.module = 0

# --- resolution by position ---------------------------------------------
p = Project()
mods = [p.new_module(m.Amplifier, name=f"a{i}") for i in range(5)]
p += pat
ok(n.project is p, "note project follows pattern")
for number in list(range(0, 10)) + [100, 0xFFFF]:
    n.module = number
    ok(n.mod is expected_mod(p, number), f"mod for module number {number}")
n.module = 1
ok(n.mod is p.output, "module 1 is output")
n.module = len(p.modules)
ok(n.mod is mods[-1], "last module")
n.module = len(p.modules) + 1
ok(n.mod is None, "one past the end -> None")
# holes resolve to None
p.modules[3] = None
n.module = 4
ok(n.mod is None, "hole -> None")
filler = p.new_module(m.Filter)
ok(filler.index == 3 and n.mod is filler, "filled hole resolves to new module")
# negative numbers (only reachable by direct assignment) keep list semantics
n.module = -1
ok(n.mod is p.modules[-2], "negative index wraps like a list")
n.module = -(len(p.modules) + 5)
raises(IndexError, lambda: n.mod)
n.module = 0

# --- setter --------------------------------------------------------------
for mod in [p.output] + [x for x in p.modules[1:] if x is not None]:
    n.mod = mod
    ok(n.module == mod.index + 1 == int(mod), "setter stores index + 1")
    ok(n.mod is mod, "getter returns same module")
free = m.Amplifier()
n.module = 2
e = raises(ModuleOwnershipError, setattr, n, "mod", free)
ok(str(e) == "Module must be attached to a project", "setter message")
ok(n.module == 2, "refused set leaves note untouched")
raises(AttributeError, setattr, n, "mod", None)
ok(n.module == 2, "None set leaves note untouched")
# a module of another project is accepted by number (no cross check)
q = Project()
qa = q.new_module(m.Amplifier)
qb = q.new_module(m.Amplifier)
n.mod = qb
ok(n.module == 3 and n.mod is p.modules[2], "foreign module stored by number")
# orphan note can be given a module number through the setter too
orphan.mod = qa
ok(orphan.module == 2, "orphan note setter")
# parent set but no index
weird = m.Amplifier(parent=p)
raises(TypeError, setattr, n, "mod", weird)
ok(n.module == 3, "failed set leaves number")
# setter works on a fresh Note constructed with the mod's number
n2 = Note(note=NOTE.C5, vel=129, module=int(mods[0]))
ok(n2.module == 2, "int(module) as module number")
ok(n2.raw_data == bytes([NOTE.C5, 129, 2, 0, 0, 0, 0, 0]), "raw data")
ok(not hasattr(n2, "__dict__"), "Note stays slotted")

# --- Pattern.data laziness and ownership ---------------------------------
lazy = Pattern(tracks=3, lines=2)
ok("_data" not in vars(lazy), "data not built until asked")
d = lazy.data
ok(d is lazy.data and d is lazy._data, "data cached")
ok([len(r) for r in d] == [3, 3], "shape")
ok(all(x.pattern is lazy for r in d for x in r), "notes owned by pattern")
d[1][2].note = NOTE.D3
ok(lazy.data[1][2].note == NOTE.D3, "data not rebuilt")
lazy.clear()
ok(lazy.data is not d and lazy.data[1][2].note == NOTECMD.EMPTY, "clear rebuilds")
lazy._data = "sentinel"
ok(lazy.data == "sentinel", "existing _data returned as is")

# --- set_via_fn ----------------------------------------------------------
calls = []


def fn(pattern, line, track):
    calls.append((pattern, line, track))
    return Note(note=NOTE.C4 + line, vel=track + 1, module=track)


sp = Pattern(tracks=3, lines=4)
old = sp.data
ok(sp.set_via_fn(fn) is sp, "set_via_fn returns pattern")
ok([c[1:] for c in calls] == [(l, t) for l in range(4) for t in range(3)], "call order line-major")
ok(all(c[0] is sp for c in calls), "fn receives pattern")
ok(sp.data is not old, "data replaced")
ok(all(x.pattern is sp for r in sp.data for x in r), "new notes adopted")
ok([[x.vel for x in r] for r in sp.data] == [[1, 2, 3]] * 4, "contents")
ok([r[0].note for r in sp.data] == [NOTE.C4 + i for i in range(4)], "notes")


def bad_fn(pattern, line, track):
    if (line, track) == (2, 1):
        raise KeyError("boom")
    return Note(vel=9)


kept = sp.data
raises(KeyError, sp.set_via_fn, bad_fn)
ok(sp.data is kept and sp.data[0][0].vel == 1, "failed fn keeps old data")


def non_note_fn(pattern, line, track):
    return None if (line, track) == (3, 2) else Note(vel=7)


raises(AttributeError, sp.set_via_fn, non_note_fn)
ok(sp.data is kept, "non-note result keeps old data")


# fn that changes the track count part-way (range(tracks) evaluated per line)
def shrinking_fn(pattern, line, track):
    if line == 0 and track == 0:
        pattern.tracks = 2
    return Note(vel=50 + track)


shr = Pattern(tracks=3, lines=3)
shr.data
seen = []
shr.set_via_fn(lambda pt, l, t: (seen.append((l, t)), shrinking_fn(pt, l, t))[1])
ok(seen == [(0, 0), (0, 1), (0, 2), (1, 0), (1, 1), (2, 0), (2, 1)], f"per-line track range {seen}")
ok([x.vel for x in shr.data[1]] == [50, 51, 0], "untouched cell kept from copy")
ok(all(x.pattern is shr for r in shr.data for x in r), "all adopted")

# --- set_via_gen ---------------------------------------------------------
def gen(pattern, new):
    ok(new is not pattern.data, "gen gets the working copy")
    yield 0, 0, Note(note=NOTE.E4)
    yield 3, 2, Note(note=NOTE.G4, module=2)
    yield 0, 0, Note(note=NOTE.F4)


before = sp.data
ok(sp.set_via_gen(gen) is sp, "set_via_gen returns pattern")
ok(sp.data is not before, "replaced")
ok(sp.data[0][0].note == NOTE.F4 and sp.data[3][2].note == NOTE.G4, "gen content")
ok(sp.data[1][1].vel == 2, "others copied")
ok(all(x.pattern is sp for r in sp.data for x in r), "adopted after gen")


def bad_gen(pattern, new):
    yield 0, 0, Note(vel=33)
    raise ValueError("stop")


kept = sp.data
raises(ValueError, sp.set_via_gen, bad_gen)
ok(sp.data is kept and sp.data[0][0].note == NOTE.F4, "failed gen keeps data")
raises(IndexError, sp.set_via_gen, lambda pt, new: iter([(99, 0, Note())]))
ok(sp.data is kept, "bad index keeps data")
ok(sp.set_via_gen(lambda pt, new: iter(())) is sp and sp.data is not kept, "empty gen still swaps copy")

# --- notes set through fn resolve through the owning project -------------
p2 = Project()
amps = [p2.new_module(m.Amplifier) for _ in range(3)]
owned = Pattern(tracks=3, lines=4)
p2 += owned
owned.set_via_fn(fn)
for row in owned.data:
    ok([x.mod for x in row] == [None, p2.output, amps[0]], "fn notes resolve")
    ok(all(x.project is p2 for x in row), "project via pattern")
owned.data[0][0].mod = amps[2]
ok(owned.data[0][0].module == 4, "set mod on owned note")

# --- save / load ---------------------------------------------------------
p2.modules[2] = None
loaded = roundtrip(p2)
lp = loaded.patterns[0]
ok(lp.project is loaded, "loaded pattern owned")
ok(lp.data[0][0].mod is loaded.modules[3], "loaded note -> module 3")
ok(lp.data[1][2].mod is loaded.modules[1], "loaded note -> module 1")
ok(lp.data[1][1].mod is loaded.output, "loaded note -> output")
lp.data[2][2].module = 3
ok(lp.data[2][2].mod is None, "loaded hole -> None")
nf = loaded.new_module(m.Filter)
ok(nf.index == 2 and lp.data[2][2].mod is nf, "hole filled after load")
ok(all(x.pattern is lp for r in lp.data for x in r), "loaded notes owned")
ok(lp.raw_data == b"".join(x.raw_data for r in lp.data for x in r), "raw data order")

files = sorted(glob.glob(os.path.join("tests", "files", "**", "*.sunvox"), recursive=True))
ok(len(files) > 0, "found sample files (run from repository root)")
for path in files:
    proj = read_sunvox_file(path)
    for pt in proj.patterns:
        if pt is None or isinstance(pt, PatternClone):
            continue
        for row in pt.data:
            for note in row:
                ok(note.pattern is pt and note.project is proj, "owner chain")
                ok(note.mod is expected_mod(proj, note.module), "file note resolves")

print(f"PASS ({CHECKS} checks)")
