"""Behaviour check for property C15 (MetaModule embedded project + user controllers).

Run from the repository root:
    PYTHONPATH=<root>/src/python python check.py

The script builds MetaModules of several nesting depths and user-controller
counts, maps the user-defined controllers onto range / negative-range / enum /
boolean targets of embedded modules, labels some of them, writes them both as a
stand-alone .sunsynth and inside a .sunvox project, reads them back and checks
that everything the property talks about is preserved.  Everything observed is
also appended to a trace whose SHA-256 is compared with a value recorded on the
unmodified tree, so any behavioural drift (bytes written, values read, log
messages and their order, exception types) makes the check fail.

Focus of this copy: controller bookkeeping of MetaModule
(recompute_controller_attachment, MappingArray.update_user_defined_controllers,
on_controller_changed, on_embedded_controller_changed, alias lookup) -- sections
"attachment", "mapping_sync", "roundtrips"; the other sections ride along.
"""
import hashlib
import logging
import os
import random
import struct
import sys
from enum import Enum
from io import BytesIO
from pathlib import Path

import rv
from rv.api import Project, Synth, m, read_sunvox_file
from rv.lib.iff import chunks as iff_chunks
from rv.lib.iff import write_chunk
from rv.modules import Chunk
from rv.modules.metamodule import MAX_USER_DEFINED_CONTROLLERS, UserDefined

TRACE = []
FAILURES = []


def note(*items):
    TRACE.append(" ".join(_norm(i) for i in items))


def _norm(v):
    if isinstance(v, bytes):
        return "bytes:" + hashlib.sha256(v).hexdigest()[:16] + ":" + str(len(v))
    if isinstance(v, Enum):
        return f"{type(v).__name__}.{v.name}"
    if isinstance(v, (list, tuple)):
        return "[" + ",".join(_norm(i) for i in v) + "]"
    return repr(v)


def expect(cond, msg):
    if not cond:
        FAILURES.append(msg)


class ListHandler(logging.Handler):
    def __init__(self):
        super().__init__(level=logging.DEBUG)
        self.messages = []

    def emit(self, record):
        self.messages.append(f"{record.name}|{record.levelname}|{record.getMessage()}")


class capture_logs:
    def __init__(self, name="rv"):
        self.logger = logging.getLogger(name)

    def __enter__(self):
        self.handler = ListHandler()
        self.old_level = self.logger.level
        self.old_propagate = self.logger.propagate
        self.logger.setLevel(logging.DEBUG)
        self.logger.propagate = False
        self.logger.addHandler(self.handler)
        return self.handler.messages

    def __exit__(self, *exc):
        self.logger.removeHandler(self.handler)
        self.logger.setLevel(self.old_level)
        self.logger.propagate = self.old_propagate


# --------------------------------------------------------------------------
# construction of test objects
# --------------------------------------------------------------------------

LABELS = ["Cutoff", "7 up", "", "Größe", "a b c", "Wave-Form!", "x" * 40, "___", "9"]


def build_metamodule(depth, count, rng, label_every=3):
    """Return a MetaModule nested `depth` levels with `count` user controllers."""
    inner = Project()
    inner.name = f"inner-{depth}-{count}"
    gen = inner.new_module(m.AnalogGenerator, volume=rng.randrange(257))
    amp = inner.new_module(m.Amplifier, balance=rng.randrange(-128, 129))
    lfo = inner.new_module(m.Lfo)
    inner.connect(gen, amp)
    inner.connect(amp, inner.output)
    targets = [gen, amp, lfo]
    if depth > 0:
        sub = build_metamodule(depth - 1, max(0, (count * 2) // 3), rng, label_every)
        inner.attach_module(sub)
        inner.connect(sub, inner.output)
        targets.append(sub)
    mm = m.MetaModule(project=inner, volume=rng.randrange(1025), bpm=rng.randrange(1, 1001))
    mm.user_defined_controllers = count
    for i in range(MAX_USER_DEFINED_CONTROLLERS):
        # Mappings are filled past `count` on purpose: only the first n count.
        if i < count + 2:
            target = rng.choice(targets)
            ctl_index = rng.randrange(len(target.controllers))
            if isinstance(target, m.MetaModule):
                ctl_index = rng.randrange(5 + target.user_defined_controllers)
            mm.mappings.values[i] = mm.Mapping((target.index, ctl_index))
        if i % label_every == 0 and i < count + 4:
            mm.user_defined[i].label = LABELS[(i // label_every) % len(LABELS)]
    mm.update_user_defined_controllers()
    return mm


def poke_values(mm, rng):
    """Assign values to attached user-defined controllers through the public API."""
    for i in range(mm.user_defined_controllers):
        ctl = mm.user_defined[i]
        t = ctl.value_type
        name = f"user_defined_{i + 1}"
        if isinstance(t, rv.controller.Range):
            if t.min < 0:
                # on_controller_changed shifts by t.min before pushing down
                continue
            value = rng.randrange(t.min, t.max + 1)
        elif isinstance(t, type) and issubclass(t, Enum):
            value = rng.choice(list(t))
        elif t is bool:
            value = rng.choice([True, False])
        else:
            continue
        try:
            setattr(mm, name, value)
            note("poke", name, value, getattr(mm, name))
        except Exception as e:  # noqa: BLE001 - recorded, must be stable
            note("poke-error", name, value, type(e).__name__)


def describe(mm, prefix=""):
    """Everything C15 observes, recursively."""
    n = mm.user_defined_controllers
    out = [
        prefix,
        "count",
        n,
        "attached",
        [int(c.attached(mm)) for c in mm.user_defined],
        "proxy-attached",
        [
            int(mm.controllers[f"user_defined_{i + 1}"].attached(mm))
            for i in range(MAX_USER_DEFINED_CONTROLLERS)
        ],
        "maps",
        [(x.module, x.controller) for x in mm.mappings.values],
        "labels",
        [c.label for c in mm.user_defined],
        "types",
        [repr(c.value_type) for c in mm.user_defined],
        "defaults",
        [c.default for c in mm.user_defined],
        "values",
        [getattr(mm, f"user_defined_{i + 1}") for i in range(MAX_USER_DEFINED_CONTROLLERS)],
        "fixed",
        [mm.volume, mm.input_module, mm.play_patterns, mm.bpm, mm.tpl],
        "aliases",
        mm.user_defined_aliases,
        "loaded",
        sorted(mm.controllers_loaded),
        "chnk",
        mm.chnk,
        "project",
        mm.project.read(),
    ]
    note(*out)
    for mod in mm.project.modules:
        if isinstance(mod, m.MetaModule):
            describe(mod, prefix + f"/{mod.index}")


def observable(mm):
    """Comparable snapshot used for before/after-roundtrip equality."""
    n = mm.user_defined_controllers
    snap = {
        "count": n,
        "attached": [c.attached(mm) for c in mm.user_defined],
        "maps": [(x.module, x.controller) for x in mm.mappings.values],
        "labels": [c.label for c in mm.user_defined[:n]],
        "values": [getattr(mm, f"user_defined_{i + 1}") for i in range(n)],
        "fixed": [mm.volume, mm.input_module, mm.play_patterns, mm.bpm, mm.tpl],
        "project": mm.project.read(),
        "nested": [
            observable(mod)
            for mod in mm.project.modules
            if isinstance(mod, m.MetaModule)
        ],
    }
    return snap


def roundtrip_standalone(mm):
    data = Synth(mm).read()
    synth = read_sunvox_file(BytesIO(data))
    return data, synth.module


def roundtrip_in_project(mm):
    outer = Project()
    outer.name = "outer"
    outer.attach_module(mm)
    outer.connect(mm, outer.output)
    data = outer.read()
    loaded = read_sunvox_file(BytesIO(data))
    return data, loaded.modules[mm.index], loaded


# --------------------------------------------------------------------------
# sections
# --------------------------------------------------------------------------


def section_roundtrips():
    cases = [
        (0, 0),
        (0, 1),
        (0, 2),
        (0, 5),
        (0, 31),
        (0, 95),
        (0, 96),
        (1, 0),
        (1, 3),
        (1, 17),
        (1, 96),
        (2, 4),
        (2, 48),
        (3, 7),
    ]
    for depth, count in cases:
        for context in ("standalone", "project"):
            rng = random.Random(depth * 1000 + count)
            mm = build_metamodule(depth, count, rng, label_every=1 + count % 4)
            poke_values(mm, rng)
            before = observable(mm)
            if context == "standalone":
                data, loaded = roundtrip_standalone(mm)
                again = Synth(loaded).read()
            else:
                data, loaded, loaded_project = roundtrip_in_project(mm)
                again = loaded_project.read()
            after = observable(loaded)
            tag = f"roundtrip depth={depth} count={count} {context}"
            note(tag, data)
            describe(loaded, tag)
            expect(before == after, f"{tag}: snapshot differs after load")
            expect(again == data, f"{tag}: second write differs from first")
            expect(
                [c.attached(loaded) for c in loaded.user_defined]
                == [i < count for i in range(MAX_USER_DEFINED_CONTROLLERS)],
                f"{tag}: attachment is not exactly the first n",
            )
            # exactly the first n user controllers are written
            names = [
                n for n, c in loaded.controllers.items() if c.attached(loaded)
            ]
            expect(
                names
                == ["volume", "input_module", "play_patterns", "bpm", "tpl"]
                + [f"user_defined_{i + 1}" for i in range(count)],
                f"{tag}: attached controller names",
            )
            # labels written only for attached + labelled controllers
            written_label_chunks = label_chunk_numbers(loaded)
            expect(
                written_label_chunks
                == [
                    8 + i
                    for i, c in enumerate(mm.user_defined)
                    if i < count and c.label is not None
                ],
                f"{tag}: label chunk numbers {written_label_chunks}",
            )


def label_chunk_numbers(mm):
    nums = [
        struct.unpack("<I", data)[0]
        for name, data in mm.specialized_iff_chunks()
        if name == b"CHNM"
    ]
    note("chnm-sequence", nums)
    return [n for n in nums if n >= 8]


def section_fixture_files():
    root = Path(os.getcwd()) / "tests" / "files"
    for name in (
        "metamodule",
        "metamodule-option-78",
        "metamodule-option-79",
        "metamodule-option-7a",
    ):
        path = root / f"{name}.sunsynth"
        synth = read_sunvox_file(path)
        data = synth.read()
        synth2 = read_sunvox_file(BytesIO(data))
        note("fixture", name, data, synth2.read())
        describe(synth2.module, f"fixture {name}")
        expect(observable(synth.module) == observable(synth2.module), f"fixture {name}")
        expect(synth2.read() == data, f"fixture {name} rewrite")
    for name in ("supertracks", "module-multiselect", "single-fm", "empty"):
        path = root / f"{name}.sunvox"
        project = read_sunvox_file(path)
        data = project.read()
        note("fixture-project", name, data)
        expect(read_sunvox_file(BytesIO(data)).read() == data, f"fixture {name} rewrite")


def section_specialized_chunks():
    """Write side: order and content of CHNM/CHDT chunks of a MetaModule."""
    for count in (0, 1, 3, 96):
        rng = random.Random(77 + count)
        mm = build_metamodule(1, count, rng, label_every=2)
        seq = list(mm.specialized_iff_chunks())
        note("specialized", count, [(n, d) for n, d in seq])
        expect(seq[0] == (b"CHNM", struct.pack("<I", 0)), "first chunk is CHNM 0")
        expect(seq[1] == (b"CHDT", mm.project.read()), "second chunk is the project")
        expect(seq[2] == (b"CHNM", struct.pack("<I", 1)), "third chunk is CHNM 1")
        expect(seq[3] == (b"CHDT", mm.mappings.bytes), "fourth chunk is the mappings")
        expect(len(seq[3][1]) == 4 * MAX_USER_DEFINED_CONTROLLERS, "mappings length")
        expect(seq[4] == (b"CHNM", struct.pack("<I", 2)), "fifth chunk is CHNM 2 (options)")
        expect(seq[5][1][0] == count, "option byte 0 holds the count")
        # labels with non-ASCII and empty strings
        mm.user_defined[0].label = "Größe"
        if count:
            tail = list(mm.specialized_iff_chunks())[6:]
            expect(tail[0] == (b"CHNM", struct.pack("<I", 8)), "label chunk number")
            expect(tail[1] == (b"CHDT", "Größe".encode(rv.ENCODING) + b"\0"), "label data")
        else:
            expect(len(list(mm.specialized_iff_chunks())) == 6, "no labels when count=0")


def _chunk(chnm, chdt):
    c = Chunk()
    c.chnm = chnm
    c.chdt = chdt
    return c


def section_load_chunk():
    """Read side: load_chunk dispatch on hand-made chunks."""
    mm = m.MetaModule()
    # options chunk (CHNM 2): byte 0 is the count, later bytes are flags
    mm.load_chunk(_chunk(2, bytes([5, 1, 0, 0, 2, 0, 0, 0])))
    note("options", mm.user_defined_controllers, mm.arpeggiator, mm.event_output,
         mm.do_not_receive_notes_from_keyboard, mm.receive_notes_from_keyboard)
    expect(mm.user_defined_controllers == 5, "count from options chunk")
    # load_options does not re-attach by itself
    expect(not any(c.attached(mm) for c in mm.user_defined), "attachment untouched by load_options")
    mm.recompute_controller_attachment()
    expect([c.attached(mm) for c in mm.user_defined] == [True] * 5 + [False] * 91, "first five")
    # short options chunk
    mm.load_chunk(_chunk(2, bytes([200])))
    note("options-short", mm.user_defined_controllers, mm.arpeggiator)
    mm.recompute_controller_attachment()
    expect(all(c.attached(mm) for c in mm.user_defined), "count>96 attaches all")
    mm.load_chunk(_chunk(2, bytes([0])))
    mm.recompute_controller_attachment()
    expect(not any(c.attached(mm) for c in mm.user_defined), "count 0 detaches all")

    # mappings chunk: full, short (padded) and empty
    full = struct.pack("<" + "HH" * 96, *range(192))
    mm.load_chunk(_chunk(1, full))
    expect([(x.module, x.controller) for x in mm.mappings.values]
           == [(2 * i, 2 * i + 1) for i in range(96)], "full mappings")
    expect(mm.mappings.bytes == full, "mappings re-encode")
    short = struct.pack("<HHHH", 1, 2, 65535, 4)
    mm.load_chunk(_chunk(1, short))
    expect([(x.module, x.controller) for x in mm.mappings.values]
           == [(1, 2), (65535, 4)] + [(0, 0)] * 94, "short mappings padded")
    mm.load_chunk(_chunk(1, short + b"\x07"))  # trailing partial element ignored
    expect(len(mm.mappings.values) == 96, "partial element ignored")
    mm.load_chunk(_chunk(1, b""))
    expect([(x.module, x.controller) for x in mm.mappings.values] == [(0, 0)] * 96, "empty mappings")
    note("mappings", mm.mappings.bytes)
    long = struct.pack("<" + "HH" * 97, *range(194))
    mm.load_chunk(_chunk(1, long))
    note("long-mappings", len(mm.mappings.values))
    try:
        mm.mappings.bytes
        note("long-mappings-bytes ok")
    except Exception as e:  # noqa: BLE001
        note("long-mappings-bytes", type(e).__name__)
    mm.load_chunk(_chunk(1, b""))

    # label chunks
    mm.load_chunk(_chunk(8, b"First\0"))
    mm.load_chunk(_chunk(9, b"NoTerminator"))
    mm.load_chunk(_chunk(10, b"Cut\0garbage\0"))
    mm.load_chunk(_chunk(11, b"\0"))
    mm.load_chunk(_chunk(12, b""))
    mm.load_chunk(_chunk(8 + 95, "Größe".encode(rv.ENCODING) + b"\0"))
    labels = [c.label for c in mm.user_defined]
    note("labels", labels)
    expect(labels[:5] == ["First", "NoTerminator", "Cut", "", ""], "labels decoded")
    expect(labels[95] == "Größe", "last label")
    expect(labels[5:95] == [None] * 90, "others untouched")
    try:
        mm.load_chunk(_chunk(8 + 96, b"oops\0"))
        note("label-out-of-range ok")
    except Exception as e:  # noqa: BLE001
        note("label-out-of-range", type(e).__name__)
        expect(isinstance(e, IndexError), "out of range label is IndexError")

    # chunk numbers 3..7 are ignored silently
    before = observable(mm)
    with capture_logs() as messages:
        for n in (3, 4, 5, 6, 7):
            mm.load_chunk(_chunk(n, b"ignored"))
    expect(observable(mm) == before, "chunks 3..7 ignored")
    note("ignored-logs", messages)

    # project chunk (CHNM 0)
    rng = random.Random(5)
    source = build_metamodule(1, 4, rng)
    blob = source.project.read()
    mm.load_chunk(_chunk(0, blob))
    expect(mm.project.read() == blob, "embedded project loaded")
    expect(isinstance(mm.project, Project), "project type")
    note("loaded-project", mm.project.read(), getattr(mm.project, "metamodule", "missing") is None)
    try:
        mm.load_chunk(_chunk(0, b"garbage that is not a project"))
        note("bad-project ok", type(mm.project).__name__)
    except Exception as e:  # noqa: BLE001
        note("bad-project", type(e).__name__)


def section_attachment():
    """recompute_controller_attachment / count option / aliases."""
    mm = m.MetaModule()
    for count in [0, 1, 2, 50, 95, 96, 3, 0, 96, 97, 500, -1, -50, True]:
        mm.user_defined_controllers = count
        attached = [c.attached(mm) for c in mm.user_defined]
        stored = mm.user_defined_controllers
        note("attach", count, stored, sum(attached))
        expect(attached == [i < stored for i in range(96)], f"attach prefix for {count}")
    # forcing raw option values (as load_options would from a foreign file)
    for raw in [0, 7, 96, 97, 255, -3]:
        mm.option_values["user_defined_controllers"] = raw
        mm.recompute_controller_attachment()
        attached = [c.attached(mm) for c in mm.user_defined]
        note("attach-raw", raw, sum(attached))
        expect(attached == [i < raw for i in range(96)], f"raw attach prefix for {raw}")
    # constructor keyword
    inner = Project()
    gen = inner.new_module(m.AnalogGenerator)
    mm = m.MetaModule(project=inner, user_defined_controllers=4)
    expect([c.attached(mm) for c in mm.user_defined] == [True] * 4 + [False] * 92, "ctor count")
    for i in range(6):
        mm.mappings.values[i] = mm.Mapping((gen.index, [0, 3, 4, 7, 10, 11][i]))
    mm.update_user_defined_controllers()
    # aliases follow attachment and labels
    mm.user_defined[0].label = "Cut Off"
    mm.user_defined[1].label = "9 lives"
    mm.user_defined[3].label = "Ünï"
    mm.user_defined[5].label = "hidden"
    note("aliases", mm.user_defined_aliases, sorted(set(dir(mm)) - set(dir(m.MetaModule()))))
    expect(mm.user_defined_aliases == ["u_cut_off", "u__9_lives", None, "u_uni"], "aliases")
    mm.u_cut_off = 123
    expect(mm.user_defined_1 == 123 and mm.u_cut_off == 123, "alias set/get")
    mm.user_defined_2 = 77
    expect(mm.u__9_lives == 77, "alias get after numbered set")
    try:
        mm.u_hidden
        note("hidden alias readable")
    except AttributeError:
        note("hidden alias AttributeError")
    try:
        mm.no_such_thing
        note("missing attr readable")
    except AttributeError:
        note("missing attr AttributeError")
    mm.some_plain_attribute = 5
    expect(mm.__dict__["some_plain_attribute"] == 5, "plain attribute set")
    note("controller numbers", [c.number for c in mm.user_defined][:3],
         [mm.controllers[f"user_defined_{i}"].number for i in (1, 2, 96)])


def section_mapping_sync():
    """update_user_defined_controllers over all target kinds and odd mappings."""
    inner = Project()
    gen = inner.new_module(m.AnalogGenerator, waveform="saw", sustain=False, osc2=-250)
    amp = inner.new_module(m.Amplifier, balance=-100, inverse=True)
    lfo = inner.new_module(m.Lfo)
    inner.modules.append(None)  # a hole in the module list (index 4)
    mm = m.MetaModule(project=inner, user_defined_controllers=12)
    pairs = [
        (gen.index, 1),  # enum
        (gen.index, 2),  # negative range
        (gen.index, 5),  # bool
        (gen.index, 8),  # negative range, big
        (amp.index, 1),
        (amp.index, 3),
        (0, 0),  # Output: skipped
        (99, 0),  # no such module: skipped
        (4, 0),  # hole: skipped
        (gen.index, 22),  # controller index one past the end: skipped
        (lfo.index, 3),  # dependent range
        (lfo.index, 12),  # last controller
        (amp.index, 0),  # index 12: beyond the count, not synced
    ]
    for i, pair in enumerate(pairs):
        mm.mappings.values[i] = mm.Mapping(pair)
    mm.update_user_defined_controllers()
    info = [
        (repr(c.value_type), c.default, mm.controller_values.get(c.name))
        for c in mm.user_defined[:14]
    ]
    note("sync", info)
    expect(mm.user_defined_1 is m.AnalogGenerator.Waveform.saw, "enum value copied")
    expect(mm.user_defined_2 == 0 and mm.user_defined[1].value_type.min == -128, "neg range")
    expect(mm.user_defined_3 is False, "bool copied")
    expect(mm.user_defined_4 == -250, "osc2 copied")
    expect(mm.user_defined_5 == -100 and mm.user_defined_6 is True, "amp values")
    for i in (6, 7, 8, 9, 12, 13):
        c = mm.user_defined[i]
        expect(repr(c.value_type) == "<Range 0..44100>" and c.default == 0, f"slot {i} untouched")
    # MappingArray static entry point is the same operation
    mm.mappings.values[6] = mm.Mapping((amp.index, 8))
    m.MetaModule.MappingArray.update_user_defined_controllers(mm)
    expect(mm.user_defined[6].value_type.min == -16384, "static entry point works")
    # count larger than 96 walks all mappings and stops
    mm.option_values["user_defined_controllers"] = 200
    mm.update_user_defined_controllers()
    expect(mm.user_defined[12].value_type.max == 1024, "slot 12 synced when count large")
    mm.option_values["user_defined_controllers"] = 0
    mm.mappings.values[13] = mm.Mapping((amp.index, 4))
    mm.update_user_defined_controllers()
    expect(repr(mm.user_defined[13].value_type) == "<Range 0..44100>", "count 0 syncs nothing")
    mm.user_defined_controllers = 12

    # round trip stores these with correct raw encoding
    data, loaded = roundtrip_standalone(mm)
    note("sync-roundtrip", data, [getattr(loaded, f"user_defined_{i + 1}") for i in range(12)])
    expect(
        [getattr(loaded, f"user_defined_{i + 1}") for i in range(12)]
        == [getattr(mm, f"user_defined_{i + 1}") for i in range(12)],
        "values survive",
    )

    # value propagation down (on_controller_changed) and up (on_embedded_controller_changed)
    mm.user_defined_1 = "sin"
    expect(gen.waveform is m.AnalogGenerator.Waveform.sin, "enum pushed down")
    mm.user_defined_3 = True
    expect(gen.sustain is True, "bool pushed down")
    mm.user_defined_7 = 9
    note("down", gen.waveform, gen.sustain, amp.bipolar_dc_offset, mm.user_defined_7)
    # Changes of embedded controllers are reported upwards; the library matches
    # mapping.controller against controller.number, record whatever that does.
    def set_embedded(mod, name, value):
        try:
            setattr(mod, name, value)
            outcome = "ok"
        except Exception as e:  # noqa: BLE001
            outcome = type(e).__name__
        note("up", type(mod).__name__, name, value, outcome,
             [mm.controller_values[f"user_defined_{i + 1}"] for i in range(12)])

    set_embedded(gen, "volume", 200)
    set_embedded(gen, "waveform", m.AnalogGenerator.Waveform.square)
    set_embedded(gen, "waveform", "square")
    set_embedded(gen, "panning", -7)
    set_embedded(gen, "attack", 1)
    set_embedded(gen, "release", True)
    set_embedded(amp, "volume", 999)
    set_embedded(amp, "balance", 12)
    set_embedded(amp, "dc_offset", 0)
    set_embedded(lfo, "amplitude", 3)
    set_embedded(lfo, "freq_scale", 150)
    set_embedded(lfo, "smooth_transitions", m.Lfo.SmoothTransitions.off)
    # two user controllers mapped onto the same target both follow it
    mm.mappings.values[9] = mm.Mapping((gen.index, 1))
    mm.update_user_defined_controllers()
    set_embedded(gen, "volume", 17)
    direct = m.MetaModule.on_embedded_controller_changed
    direct(mm, gen, m.AnalogGenerator.controllers["volume"], m.AnalogGenerator.Waveform.noise)
    expect(mm.user_defined_1 is mm.user_defined_10 is m.AnalogGenerator.Waveform.noise, "both follow")
    note("up-direct", [mm.controller_values[f"user_defined_{i + 1}"] for i in range(12)])
    # pushing down through a mapping that points nowhere raises IndexError
    mm.mappings.values[7] = mm.Mapping((99, 0))
    try:
        mm.user_defined_8 = 1
        note("dangling-down ok")
    except Exception as e:  # noqa: BLE001
        note("dangling-down", type(e).__name__)
        expect(isinstance(e, IndexError), "dangling mapping raises IndexError")
    mm.mappings.values[7] = mm.Mapping((gen.index, 40))
    try:
        mm.user_defined_8 = 1
        note("dangling-ctl-down ok")
    except Exception as e:  # noqa: BLE001
        note("dangling-ctl-down", type(e).__name__)
        expect(isinstance(e, IndexError), "dangling controller raises IndexError")
    # a non user-defined controller change does not touch the embedded project
    snapshot = inner.read()
    mm.volume = 300
    mm.bpm = 99
    expect(inner.read() == snapshot, "fixed controllers stay local")


def _module_file(module_chunks):
    f = BytesIO()
    write_chunk(f, b"SSYN", b"")
    write_chunk(f, b"VERS", struct.pack("BBBB", 1, 2, 1, 2))
    for name, data in module_chunks:
        write_chunk(f, name, data)
    f.seek(0)
    return f


def section_reader():
    """ModuleReader: key list, CVAL application order, surplus CVALs, strings."""
    rng = random.Random(11)
    mm = build_metamodule(1, 6, rng)
    poke_values(mm, rng)
    data = Synth(mm).read()
    chunks = list(iff_chunks(BytesIO(data)))[2:]  # drop SSYN/VERS
    names = [n for n, _ in chunks]
    note("chunk-names", names)
    expect(names.count(b"CVAL") == 5 + 6, "5 fixed + n CVALs written")

    # 1. plain read with debug logging: order of set_raw calls is observable
    with capture_logs() as messages:
        loaded = read_sunvox_file(_module_file(chunks)).module
    note("reader-logs", [x for x in messages if "rv.readers.module" in x])
    expect(observable(loaded) == observable(mm), "reader plain")
    note("controllers_loaded", sorted(loaded.controllers_loaded))

    # 2. surplus CVALs past the count are still applied positionally (keys exist for all 96)
    last_cval = max(i for i, (n, _) in enumerate(chunks) if n == b"CVAL")
    extra = [(b"CVAL", struct.pack("<i", 1000 + k)) for k in range(3)]
    with capture_logs() as messages:
        loaded = read_sunvox_file(_module_file(chunks[: last_cval + 1] + extra + chunks[last_cval + 1:])).module
    note("reader-surplus", [x for x in messages if "rv.readers.module" in x],
         [loaded.controller_values.get(f"user_defined_{i}") for i in (7, 8, 9)],
         sorted(loaded.controllers_loaded))
    expect([loaded.controller_values.get(f"user_defined_{i}") for i in (7, 8, 9)]
           == [1000, 1001, 1002], "surplus CVALs land on the next user-defined slots")
    expect(loaded.user_defined_controllers == 6, "count unaffected by surplus CVALs")

    # 3. more CVALs than the 5 + 96 keys: warnings, in descending index order
    many = [(b"CVAL", struct.pack("<i", k)) for k in range(96)]
    with capture_logs() as messages:
        loaded = read_sunvox_file(_module_file(chunks[: last_cval + 1] + many + chunks[last_cval + 1:])).module
    warnings_ = [x for x in messages if "Unsupported controller" in x]
    note("reader-overflow", [x for x in messages if "rv.readers.module" in x])
    expect(len(warnings_) == 6, f"six CVALs beyond 101 keys warn ({len(warnings_)})")
    expect("index 106 " in warnings_[0] and "index 101 " in warnings_[-1], "descending order")
    start = next(i for i, x in enumerate(messages) if "Unsupported controller" in x)
    tail = [x for x in messages[start:] if "Unsupported controller" in x or "Setting" in x]
    expect(all("Unsupported" in x for x in tail[:6]) and all("Setting" in x for x in tail[6:]),
           "warnings precede assignments")
    expect(len(tail) == 6 + 101 and "Setting user_defined_96 " in tail[6]
           and "Setting volume " in tail[-1], "assignments run from the last key to the first")

    # 4. non-MetaModule with too many CVALs
    amp = m.Amplifier(balance=-5, inverse=True)
    amp_chunks = list(iff_chunks(BytesIO(Synth(amp).read())))[2:]
    last_cval = max(i for i, (n, _) in enumerate(amp_chunks) if n == b"CVAL")
    with capture_logs() as messages:
        loaded_amp = read_sunvox_file(
            _module_file(amp_chunks[: last_cval + 1] + [(b"CVAL", struct.pack("<i", 42))] * 2 + amp_chunks[last_cval + 1:])
        ).module
    note("reader-amp", [x for x in messages if "rv.readers.module" in x],
         sorted(loaded_amp.controller_values.items()))
    expect(loaded_amp.balance == -5 and loaded_amp.inverse is True, "amp values")

    # 5. fewer CVALs than keys: remaining controllers keep their defaults
    few = [c for c in amp_chunks if c[0] != b"CVAL"]
    first = next(i for i, (n, _) in enumerate(amp_chunks) if n == b"CVAL")
    few[first:first] = [(b"CVAL", struct.pack("<i", 500)), (b"CVAL", struct.pack("<i", 28))]
    with capture_logs() as messages:
        loaded_amp = read_sunvox_file(_module_file(few)).module
    note("reader-few", [x for x in messages if "rv.readers.module" in x],
         sorted(loaded_amp.controller_values.items()), sorted(loaded_amp.controllers_loaded))
    expect(loaded_amp.volume == 500 and loaded_amp.balance == -100, "raw offset applied")

    # 6. strings: names with and without terminators, links with trailing -1
    def patched(name, value):
        return [(n, value if n == name else d) for n, d in chunks]

    for snam in (b"Plain", b"Term\0inated\0", b"", b"\0", "Größe".encode(rv.ENCODING).ljust(32, b"\0")):
        loaded = read_sunvox_file(_module_file(patched(b"SNAM", snam))).module
        note("snam", snam, loaded.name)
    loaded = read_sunvox_file(_module_file(patched(b"STYP", b"MetaModule"))).module
    expect(isinstance(loaded, m.MetaModule), "STYP without terminator")
    try:
        read_sunvox_file(_module_file(patched(b"STYP", b"NoSuchModule\0")))
        note("bad-styp ok")
    except Exception as e:  # noqa: BLE001
        note("bad-styp", type(e).__name__)
        expect(isinstance(e, KeyError), "unknown module type is KeyError")
    with_links = []
    for n, d in chunks:
        if n == b"CVAL" and not any(x[0] == b"SLNK" for x in with_links):
            with_links.append((b"SLNK", struct.pack("<5i", 3, -1, 2, -1, -1)))
            with_links.append((b"SLnK", struct.pack("<5i", 0, -1, 1, -1, -1)))
            with_links.append((b"SMIN", b"midi out\0junk"))
        with_links.append((n, d))
    loaded = read_sunvox_file(_module_file(with_links)).module
    note("links", loaded.in_links, loaded.in_link_slots, loaded.midi_out_name)
    expect(loaded.in_links == [3, -1, 2] and loaded.in_link_slots == [0, -1, 1], "links trimmed")
    expect(loaded.midi_out_name == "midi out", "midi out name cut at NUL")
    empty_links = [(n, b"" if n == b"SLNK" else d) for n, d in with_links]
    loaded = read_sunvox_file(_module_file(empty_links)).module
    expect(loaded.in_links == [], "empty SLNK")
    all_minus = [(n, struct.pack("<2i", -1, -1) if n == b"SLNK" else d) for n, d in with_links]
    loaded = read_sunvox_file(_module_file(all_minus)).module
    expect(loaded.in_links == [], "all -1 SLNK")

    # 7. MetaModule inside a project: same reader, index > 0, with nesting
    outer_data, loaded, loaded_project = roundtrip_in_project(build_metamodule(2, 9, random.Random(3)))
    with capture_logs() as messages:
        read_sunvox_file(BytesIO(outer_data))
    note("reader-project-logs", len(messages), hashlib.sha256("\n".join(messages).encode()).hexdigest())


SECTIONS = {
    "roundtrips": section_roundtrips,
    "fixtures": section_fixture_files,
    "specialized": section_specialized_chunks,
    "load_chunk": section_load_chunk,
    "attachment": section_attachment,
    "mapping_sync": section_mapping_sync,
    "reader": section_reader,
}

# SHA-256 of each section's trace, recorded on the unmodified tree (--record).
EXPECTED = {
    "roundtrips": "9eda4c2d7dd93a37b7c4afd585e9264001de2a99f7a444f1e39de3a4dd451144",
    "fixtures": "3908322d24daa940fb0562f63e183d72932a0b449f938e4c50590f1912c455b4",
    "specialized": "a409c19e8da3fb3b0f9cb041bc41175824334ee37cf4c359ab260a0f7dbf3331",
    "load_chunk": "fd72612ed575d8f9d2a09ec65079461d55bd566ffd3c5033be5657dbca9641fe",
    "attachment": "1ff5a638450f7b447fcfb5c90f5402801ef166c17deb2825ddead5d593213490",
    "mapping_sync": "30822135d38b7c9d98ee44723f4d393d2cfd200b764d79e84309d1736f215eee",
    "reader": "73d07b47d09d205b1809e1c5e10fb1d7e09cb196155237e933506fe23f5c7436",
}


def main(argv):
    logging.getLogger("rv").setLevel(logging.ERROR)
    ok = True
    for name, fn in SECTIONS.items():
        del TRACE[:]
        try:
            fn()
        except Exception as e:  # noqa: BLE001
            import traceback

            traceback.print_exc()
            FAILURES.append(f"section {name} crashed: {e!r}")
        digest = hashlib.sha256("\n".join(TRACE).encode("utf-8")).hexdigest()
        if "--record" in argv:
            print(f'    "{name}": "{digest}",')
        elif "--dump" in argv:
            print(f"== {name} ==")
            print("\n".join(TRACE))
        elif EXPECTED.get(name) != digest:
            ok = False
            print(f"trace digest mismatch in section {name}: {digest}")
    for failure in FAILURES:
        ok = False
        print("FAIL:", failure)
    if "--record" in argv or "--dump" in argv:
        return 0 if not FAILURES else 1
    print("PASS" if ok else "FAILED")
    return 0 if ok else 1


if __name__ == "__main__":
    sys.exit(main(sys.argv[1:]))
