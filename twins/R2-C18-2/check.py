"""Behaviour check for rv.readers.reader (property C18).

read_sunvox_file: path/str/file-object inputs, ownership of the file handle,
ordering of close vs. strictness restore, faults at every read, truncation,
open/close failures.  Reader.process_chunks: dispatch, logging, termination.
"""
import io
import logging
import os
import sys
import tempfile
from pathlib import Path

import rv
import rv.api  # noqa: F401  (import first; rv.project alone is circular)
import rv.errors as E
from rv.lib.iff import chunks, write_chunk
from rv.project import Project
from rv.readers import reader as reader_mod
from rv.readers.reader import Reader, ReaderFinished, read_sunvox_file
from rv.synth import Synth

ROOT = Path(rv.__file__).resolve().parents[3]
FILES = ROOT / "tests" / "files"

failures = []


def expect(cond, msg):
    if not cond:
        failures.append(msg)


class Boom(OSError):
    pass


class CloseBoom(OSError):
    pass


class ProxyFile:
    """File-like wrapper recording the strictness flag at reads and at close."""

    def __init__(self, raw, fail_at=None, close_fails=False):
        self.raw = raw
        self.fail_at = fail_at
        self.close_fails = close_fails
        self.n = 0
        self.flag_at_read = []
        self.flag_at_close = []
        self.close_calls = 0

    def read(self, *a):
        self.flag_at_read.append(E.RAISE_CONTROLLER_VALUE_ERRORS)
        i = self.n
        self.n += 1
        if i == self.fail_at:
            raise Boom("read %d" % i)
        return self.raw.read(*a)

    def seek(self, *a):
        return self.raw.seek(*a)

    def tell(self):
        return self.raw.tell()

    def close(self):
        self.flag_at_close.append(E.RAISE_CONTROLLER_VALUE_ERRORS)
        self.close_calls += 1
        self.raw.close()
        if self.close_fails:
            raise CloseBoom("close")

    @property
    def closed(self):
        return self.raw.closed


class OpenSpy:
    """Temporarily replaces Path.open, remembering everything it hands out."""

    def __init__(self, fail_at=None, close_fails=False, proxy=True):
        self.opened = []
        self.modes = []
        self.fail_at = fail_at
        self.close_fails = close_fails
        self.proxy = proxy

    def __enter__(self):
        self.orig = orig = Path.open
        spy = self

        def open_(path, *a, **k):
            spy.modes.append((a, k))
            f = orig(path, *a, **k)
            if spy.proxy:
                f = ProxyFile(f, spy.fail_at, spy.close_fails)
            spy.opened.append(f)
            return f

        Path.open = open_
        return self

    def __exit__(self, *exc):
        Path.open = self.orig


LENIENT = E.RAISE_RANGE_ERRORS_ON_READ


def check_path_loads():
    names = sorted(p.name for p in FILES.iterdir() if p.suffix in (".sunsynth", ".sunvox"))
    expect(len(names) > 30, "fixtures missing")
    for idx, name in enumerate(names):
        path = FILES / name
        expected_type = Project if path.suffix == ".sunvox" else Synth
        for initial in (True, False):
            E.RAISE_CONTROLLER_VALUE_ERRORS = initial
            arg = path if idx % 2 else str(path)
            # plain real file objects
            with OpenSpy(proxy=False) as spy:
                obj = read_sunvox_file(arg)
            expect(type(obj) is expected_type, "type " + name)
            expect(len(spy.opened) == 1 and spy.opened[0].closed, "real file not closed " + name)
            expect(spy.modes == [(("rb",), {})], "open mode " + name)
            expect(E.RAISE_CONTROLLER_VALUE_ERRORS is initial, "flag ok " + name)
            # proxied: order of close vs. restore
            with OpenSpy() as spy:
                read_sunvox_file(arg)
            (f,) = spy.opened
            expect(f.closed and f.close_calls == 1, "proxy closed once " + name)
            expect(f.flag_at_close == [LENIENT], "closed before flag restore " + name)
            expect(set(f.flag_at_read) == {LENIENT}, "flag during " + name)
            expect(E.RAISE_CONTROLLER_VALUE_ERRORS is initial, "flag ok2 " + name)
            total = f.n
            if idx % 6 and initial:
                continue
            step = max(1, total // 25)
            for n in sorted(set(range(0, total, step)) | {0, 1, total - 1}):
                with OpenSpy(fail_at=n) as spy:
                    try:
                        read_sunvox_file(arg)
                    except Boom as e:
                        expect(str(e) == "read %d" % n, "boom id")
                    else:
                        expect(False, "fault swallowed %s %d" % (name, n))
                (f,) = spy.opened
                expect(f.closed and f.close_calls == 1, "closed after fault %s %d" % (name, n))
                expect(f.flag_at_close == [LENIENT], "close order after fault")
                expect(E.RAISE_CONTROLLER_VALUE_ERRORS is initial, "flag after fault %s %d" % (name, n))


def check_caller_owned_files():
    for name in ("amplifier.sunsynth", "empty.sunvox", "metamodule.sunsynth"):
        data = (FILES / name).read_bytes()
        for initial in (True, False):
            E.RAISE_CONTROLLER_VALUE_ERRORS = initial
            bio = io.BytesIO(data)
            read_sunvox_file(bio)
            expect(not bio.closed, "BytesIO closed")
            with open(FILES / name, "rb") as fh:
                read_sunvox_file(fh)
                expect(not fh.closed, "caller file closed")
            proxy = ProxyFile(io.BytesIO(data))
            with OpenSpy() as spy:
                read_sunvox_file(proxy)
            expect(spy.opened == [], "Path.open used for file object")
            expect(proxy.close_calls == 0, "proxy closed")
            for n in range(0, proxy.n, max(1, proxy.n // 15)):
                proxy2 = ProxyFile(io.BytesIO(data), fail_at=n)
                try:
                    read_sunvox_file(proxy2)
                except Boom:
                    pass
                else:
                    expect(False, "fault swallowed (owned)")
                expect(proxy2.close_calls == 0, "caller proxy closed on fault")
                expect(E.RAISE_CONTROLLER_VALUE_ERRORS is initial, "flag owned fault")
            expect(E.RAISE_CONTROLLER_VALUE_ERRORS is initial, "flag owned")


def check_truncated_paths():
    data = (FILES / "sampler.sunsynth").read_bytes()
    offs, off = [], 0
    for _, d in chunks(io.BytesIO(data)):
        offs.append(off)
        off += 8 + len(d)
    cuts = sorted(set(offs[:40]) | {o + 5 for o in offs[:40]} | set(range(0, len(data), len(data) // 12)))
    tmpdir = tempfile.mkdtemp()
    try:
        p = Path(tmpdir) / "cut.sunsynth"
        for initial in (True, False):
            E.RAISE_CONTROLLER_VALUE_ERRORS = initial
            for cut in cuts:
                p.write_bytes(data[:cut])
                with OpenSpy() as spy:
                    try:
                        a = ("R", type(read_sunvox_file(p)).__name__)
                    except Exception as e:
                        a = ("E", type(e).__name__)
                try:
                    b = ("R", type(read_sunvox_file(io.BytesIO(data[:cut]))).__name__)
                except Exception as e:
                    b = ("E", type(e).__name__)
                expect(a == b, "path/file outcome differ at %d: %r %r" % (cut, a, b))
                expect(spy.opened[0].closed, "truncated not closed %d" % cut)
                expect(E.RAISE_CONTROLLER_VALUE_ERRORS is initial, "flag trunc %d" % cut)
        p.unlink()
    finally:
        os.rmdir(tmpdir)
    # zero-length and garbage inputs give None (no recognised header, EOF handler)
    expect(read_sunvox_file(io.BytesIO(b"")) is None, "empty input")
    junk = io.BytesIO()
    write_chunk(junk, b"JUNK", b"abc")
    junk.seek(0)
    expect(read_sunvox_file(junk) is None, "junk input")


def check_open_and_close_failures():
    for initial in (True, False):
        E.RAISE_CONTROLLER_VALUE_ERRORS = initial
        for bad, exc in (
            (FILES / "does-not-exist.sunvox", FileNotFoundError),
            (str(FILES / "nope" / "x.sunsynth"), FileNotFoundError),
            (FILES, IsADirectoryError),
        ):
            try:
                read_sunvox_file(bad)
            except exc:
                pass
            else:
                expect(False, "open failure not raised: %r" % (bad,))
            expect(E.RAISE_CONTROLLER_VALUE_ERRORS is initial, "flag after open failure")
        # things that are neither path nor file are treated as files
        for weird in (None, 5, b"bytes-are-not-paths", os.fsencode(str(FILES / "amplifier.sunsynth"))):
            try:
                read_sunvox_file(weird)
            except (AttributeError, TypeError):
                pass
            else:
                expect(False, "weird input accepted %r" % (weird,))
            expect(E.RAISE_CONTROLLER_VALUE_ERRORS is initial, "flag after weird")
        # close() failing on success: error surfaces, flag restored
        with OpenSpy(close_fails=True) as spy:
            try:
                read_sunvox_file(FILES / "amplifier.sunsynth")
            except CloseBoom as e:
                expect(e.__context__ is None, "close ctx on success")
            else:
                expect(False, "close failure swallowed")
        expect(spy.opened[0].close_calls == 1, "close once")
        expect(E.RAISE_CONTROLLER_VALUE_ERRORS is initial, "flag after close failure")
        # close() failing while a read failure propagates
        with OpenSpy(fail_at=3, close_fails=True) as spy:
            try:
                read_sunvox_file(str(FILES / "amplifier.sunsynth"))
            except CloseBoom as e:
                expect(isinstance(e.__context__, Boom), "close ctx chains read failure")
            else:
                expect(False, "double failure swallowed")
        expect(E.RAISE_CONTROLLER_VALUE_ERRORS is initial, "flag after double failure")

    class StrPath(str):
        pass

    obj = read_sunvox_file(StrPath(FILES / "amplifier.sunsynth"))
    expect(isinstance(obj, Synth), "str subclass path")


class ListHandler(logging.Handler):
    def __init__(self):
        super().__init__(logging.DEBUG)
        self.records = []

    def emit(self, record):
        self.records.append((record.name, record.levelname, str(record.msg)))


def make_stream(items):
    f = io.BytesIO()
    for name, data in items:
        write_chunk(f, name, data)
    f.seek(0)
    return f


def check_process_chunks():
    handler = ListHandler()
    log = logging.getLogger("rv.readers.reader")
    old_level = log.level
    log.addHandler(handler)
    log.setLevel(logging.DEBUG)
    try:
        class Demo(Reader):
            process_NOPE = 5  # not callable

            def __init__(self, f):
                super().__init__(f)
                self.seen = []

            def process_AAAA(self, data):
                self.seen.append(("AAAA", data))

            def process_BB(self, data):
                self.seen.append(("BB", data))

            def process_STOP(self, data):
                self.seen.append(("STOP", data))
                raise ReaderFinished()

            def process_FAIL(self, data):
                raise Boom("handler")

        # 1. dispatch, stripping, unknown + non-callable, end of file unhandled
        r = Demo(make_stream([(b"AAAA", b"1"), (b"BB", b"22"), (b"ZZZZ", b""), (b"NOPE", b"x"), (b"PAMD", b"p")]))
        try:
            r.process_chunks()
        except RuntimeError as e:
            expect(str(e) == "Reached end of file without a handler", "eof message")
        else:
            expect(False, "eof without handler accepted")
        expect(r.seen == [("AAAA", b"1"), ("BB", b"22")], "dispatch order")
        expect(
            handler.records
            == [
                ("rv.readers.reader", "DEBUG", "-> Demo.process_AAAA"),
                ("rv.readers.reader", "DEBUG", "-> Demo.process_BB"),
                ("rv.readers.reader", "WARNING", "no Demo.process_ZZZZ method"),
                ("rv.readers.reader", "WARNING", "no Demo.process_NOPE method"),
                ("rv.readers.reader", "DEBUG", "-> Demo.process_PAMD"),
            ],
            "log records: %r" % (handler.records,),
        )
        # 2. ReaderFinished stops quietly, later chunks unread
        del handler.records[:]
        f = make_stream([(b"AAAA", b"1"), (b"STOP", b"s"), (b"AAAA", b"2")])
        r = Demo(f)
        expect(r.process_chunks() is None, "process_chunks return")
        expect(r.seen == [("AAAA", b"1"), ("STOP", b"s")], "stop")
        expect(f.tell() == 9 + 9, "position after stop: %d" % f.tell())
        expect(r._object is None, "object untouched")
        # 3. handler exception propagates
        r = Demo(make_stream([(b"FAIL", b"")]))
        try:
            r.process_chunks()
        except Boom as e:
            expect(str(e) == "handler", "handler boom")
        else:
            expect(False, "handler failure swallowed")
        # 4. end-of-file hook may finish the reader
        class Fin(Demo):
            def process_end_of_file(self):
                self.seen.append("eof")
                raise ReaderFinished()

        r = Fin(make_stream([(b"BB", b"")]))
        r.process_chunks()
        expect(r.seen == [("BB", b""), "eof"], "eof hook")
        r = Fin(make_stream([]))
        r.process_chunks()
        expect(r.seen == ["eof"], "eof hook on empty")
        # 5. object property triggers processing once; setter is write-once
        class Obj(Reader):
            def process_AAAA(self, data):
                self.object = data

            def process_end_of_file(self):
                raise ReaderFinished()

        r = Obj(make_stream([(b"AAAA", b"val")]))
        expect(r.object == b"val", "object lazily read")
        try:
            r.object = b"again"
        except AttributeError as e:
            expect(str(e) == "object was already set", "setter message")
        else:
            expect(False, "object set twice")
        r = Obj(make_stream([(b"AAAA", b"v1"), (b"AAAA", b"v2")]))
        try:
            r.object
        except AttributeError:
            pass
        else:
            expect(False, "second assignment in stream accepted")
        # 6. rewind goes back over header + payload
        f = make_stream([(b"AAAA", b"12345"), (b"BB", b"")])
        r = Demo(f)
        f.seek(13)
        r.rewind(b"12345")
        expect(f.tell() == 0, "rewind")
    finally:
        log.removeHandler(handler)
        log.setLevel(old_level)
    expect(reader_mod.read_sunvox_file is read_sunvox_file, "public name")
    expect(rv.api.read_sunvox_file is read_sunvox_file, "api export")


def main():
    saved = E.RAISE_CONTROLLER_VALUE_ERRORS
    try:
        check_process_chunks()
        logging.disable(logging.CRITICAL)
        check_path_loads()
        check_caller_owned_files()
        check_truncated_paths()
        check_open_and_close_failures()
    finally:
        logging.disable(logging.NOTSET)
        E.RAISE_CONTROLLER_VALUE_ERRORS = saved
    if failures:
        for f in sorted(set(failures))[:30]:
            print("FAIL:", f)
        sys.exit(1)
    print("PASS")


if __name__ == "__main__":
    main()
