"""Behaviour check for property C11 (module options pack/unpack/descriptor).

Exercises rv.option.Option.__get__/__set__, Module.__init__ option seeding,
Module.options_chunks, Module.specialized_iff_chunks and Module.load_options
against an independent reference model written out in this file.

Run from the repository root:
    PYTHONPATH=<root>/src/python python check.py
"""
import io
import itertools
import random
import struct
import sys

import rv.api as rv
from rv.modules import MODULE_CLASSES
from rv.modules.module import Module
from rv.option import Option

FAILURES = []


def check(cond, msg):
    if not cond:
        FAILURES.append(msg)


class FakeChunk:
    def __init__(self, chnm, chdt):
        self.chnm = chnm
        self.chdt = chdt


OPTION_CLASSES = sorted(
    {c for c in MODULE_CLASSES.values() if c.options}, key=lambda c: c.__name__
)


# ---------------------------------------------------------------- reference


def ref_set(opt, value):
    """What Option.__set__ is expected to store for `value`."""
    if opt.min is not None and opt.max is not None:
        return max(opt.min, min(opt.max, value))
    if opt.size == 1:
        value = bool(value)
        if opt.inverted:
            value = not value
    return value


def ref_init(cls, kw):
    """Expected option_values (as ordered item list) after cls(**kw)."""
    stored = {}
    for name, opt in cls.options.items():
        stored[name] = ref_set(opt, kw.get(name, opt.default))
        for other in opt.exclusive_of:
            stored[other] = False
    return list(stored.items())


def ref_pack(cls, stored):
    """Expected CHDT bytes for a dict of stored option values."""
    top = 0
    acc = {}
    for opt in cls.options.values():
        v = int(stored[opt.name]) % (2**opt.size)
        acc[opt.byte] = acc.get(opt.byte, 0) + v * 2**opt.bit
        top = max(top, opt.byte + 1)
    return bytes(acc.get(i, 0) for i in range(top))


def ref_unpack(cls, data):
    data = list(data) + [0] * max(0, 64 - len(data))
    out = {}
    for opt in cls.options.values():
        v = (data[opt.byte] // 2**opt.bit) % 2**opt.size
        out[opt.name] = bool(v) if opt.size == 1 else v
    return out


def written(mod):
    chunks = list(mod.options_chunks())
    check(len(chunks) == 2, "options_chunks must yield exactly 2 chunks")
    check(chunks[0] == (b"CHNM", struct.pack("<I", mod.options_chnm)), "CHNM chunk")
    check(chunks[1][0] == b"CHDT", "CHDT tag")
    check(type(chunks[1][1]) is bytes, "CHDT type")
    return chunks[1][1]


def roundtrip(mod):
    data = written(mod)
    check(
        data == ref_pack(type(mod), mod.option_values),
        "pack mismatch %s %r" % (type(mod).__name__, mod.option_values),
    )
    fresh = type(mod)()
    ret = fresh.load_options(FakeChunk(mod.options_chnm, data))
    check(ret is None, "load_options returns None")
    check(
        fresh.option_values == ref_unpack(type(mod), data),
        "unpack mismatch %s" % type(mod).__name__,
    )
    for name, opt in type(mod).options.items():
        a, b = getattr(mod, name), getattr(fresh, name)
        check(a == b, "roundtrip %s.%s %r != %r" % (type(mod).__name__, name, a, b))
        if opt.size == 1:
            check(type(b) is bool, "bool type after load %s" % name)
        else:
            check(type(b) is int, "int type after load %s" % name)
    return fresh


# ------------------------------------------------------------ layout checks


def test_layout():
    check(len(OPTION_CLASSES) == 5, "5 option classes, got %d" % len(OPTION_CLASSES))
    check(sum(len(c.options) for c in OPTION_CLASSES) == 49, "49 options")
    for cls in OPTION_CLASSES:
        seen = {}
        for opt in cls.options.values():
            check(opt.bit + opt.size <= 8, "option crosses byte: %s" % opt.name)
            for b in range(opt.bit, opt.bit + opt.size):
                key = (opt.byte, b)
                check(key not in seen, "overlap %s/%s" % (opt.name, seen.get(key)))
                seen[key] = opt.name
        check(getattr(cls, opt.name) is opt, "class access returns descriptor")
    umc = rv.m.MetaModule.options["user_defined_controllers"]
    check((umc.min, umc.max) == (0, 96), "metamodule bound declared")


# ------------------------------------------------------- descriptor checks


def test_defaults_and_kwargs():
    for cls in OPTION_CLASSES:
        mod = cls()
        check(set(mod.option_values) == set(cls.options), "all options seeded")
        check(list(mod.option_values.items()) == ref_init(cls, {}), "seeding order")
        roundtrip(mod)
        for name, opt in cls.options.items():
            for v in range(2**opt.size):
                mod = cls(**{name: v})
                check(
                    list(mod.option_values.items()) == ref_init(cls, {name: v}),
                    "kwarg stored %s=%r" % (name, v),
                )


def test_every_value():
    for cls in OPTION_CLASSES:
        for name, opt in cls.options.items():
            for v in range(2**opt.size):
                mod = cls()
                before = dict(mod.option_values)
                setattr(mod, name, v)
                stored = mod.option_values[name]
                check(stored == ref_set(opt, v), "stored %s=%r -> %r" % (name, v, stored))
                if opt.size == 1:
                    check(type(stored) is bool, "bool coercion %s" % name)
                    check(getattr(mod, name) is bool(v), "logical value %s" % name)
                    if opt.inverted:
                        check(stored is (not bool(v)), "stored inverted %s" % name)
                elif opt.min is not None:
                    check(getattr(mod, name) == min(max(v, opt.min), opt.max), "clamp")
                else:
                    check(getattr(mod, name) == v, "int value kept")
                for other in cls.options:
                    if other == name:
                        continue
                    exp = False if other in opt.exclusive_of else before[other]
                    check(mod.option_values[other] == exp, "side effect on %s" % other)
                roundtrip(mod)


def test_pairs():
    for cls in OPTION_CLASSES:
        for (n1, o1), (n2, o2) in itertools.permutations(cls.options.items(), 2):
            vals1 = sorted({0, 1, 2**o1.size - 1, 2 ** (o1.size - 1)})
            vals2 = sorted({0, 1, 2**o2.size - 1, 2 ** (o2.size - 1)})
            for v1 in vals1:
                for v2 in vals2:
                    mod = cls()
                    setattr(mod, n1, v1)
                    setattr(mod, n2, v2)
                    if n2 in o1.exclusive_of or n1 in o2.exclusive_of:
                        check(
                            not (getattr(mod, n1) and getattr(mod, n2)),
                            "exclusive both on %s %s" % (n1, n2),
                        )
                        if v2:
                            check(getattr(mod, n1) is False, "exclusive reset")
                    else:
                        check(
                            mod.option_values[n1] == ref_set(o1, v1),
                            "pair first kept %s %s" % (n1, n2),
                        )
                    check(mod.option_values[n2] == ref_set(o2, v2), "pair second")
                    roundtrip(mod)


def test_random():
    rnd = random.Random(1234)
    for cls in OPTION_CLASSES:
        for _ in range(150):
            mod = cls()
            names = list(cls.options)
            rnd.shuffle(names)
            for name in names:
                setattr(mod, name, rnd.randrange(2 ** cls.options[name].size))
            roundtrip(mod)
            # random raw records read back
            raw = bytes(rnd.randrange(256) for _ in range(rnd.choice([0, 1, 3, 8, 64, 70])))
            fresh = cls()
            fresh.load_options(FakeChunk(cls.options_chnm, raw))
            check(fresh.option_values == ref_unpack(cls, raw), "raw unpack")
            for name, opt in cls.options.items():
                v = fresh.option_values[name]
                if opt.inverted:
                    check(getattr(fresh, name) is (not v), "inverted get after load")
                else:
                    check(getattr(fresh, name) is v or getattr(fresh, name) == v, "get")


def test_clamp_and_odd_values():
    mm = rv.m.MetaModule
    for v, exp in [(-5, 0), (0, 0), (1, 1), (96, 96), (97, 96), (255, 96), (10**6, 96),
                   (True, True), (False, 0)]:
        mod = mm(user_defined_controllers=v)
        got = mod.user_defined_controllers
        check(got == exp and type(got) is type(exp), "clamp %r -> %r (%r)" % (v, got, exp))
        mod2 = mm()
        mod2.user_defined_controllers = v
        check(mod2.option_values == mod.option_values, "kwarg == setattr")
    try:
        mm().user_defined_controllers = None
    except TypeError:
        pass
    else:
        check(False, "None into clamped option must raise TypeError")
    # bool coercion of odd truthy / falsy values
    for v in [0, 1, 2, -1, "", "x", None, [], [0], 0.0, 2.5]:
        mod = mm()
        mod.arpeggiator = v
        check(mod.option_values["arpeggiator"] is bool(v), "bool coercion")
        mod.event_output = v
        check(mod.option_values["event_output"] is (not bool(v)), "inverted store")
        check(mod.event_output is bool(v), "inverted get")
    # multi-bit option without bounds stores raw value; masking happens on write
    ms = rv.m.MultiSynth()
    ms.out_port_mode = 7
    check(ms.out_port_mode == 7, "raw stored")
    check(written(ms)[4] == 0xC0, "masked on write")
    ms.out_port_mode = -1
    check(written(ms)[4] == 0xC0, "negative masked on write")
    ms.out_port_mode = 6
    ms.round_note_x = True
    ms.round_pitch_y = True
    check(written(ms)[4] == 0x84, "byte 4 composition")
    check(ms.round_note_x is False and ms.round_pitch_y is True, "exclusive")
    sm = rv.m.Sampler()
    sm.fit_to_pattern = 300
    check(written(sm)[7] == 300 % 256, "8 bit mask")
    check(len(written(sm)) == 8, "record covers highest byte")
    for cls in OPTION_CLASSES:
        top = max(o.byte for o in cls.options.values()) + 1
        check(len(written(cls())) == top, "record length %s" % cls.__name__)


def test_callbacks():
    log = []

    class Probe(rv.m.MetaModule):
        def on_receive_notes_from_keyboard_changed(self, value):
            log.append(("recv", value, dict(self.option_values)))

        def on_do_not_receive_notes_from_keyboard_changed(self, value):
            log.append(("norecv", value, dict(self.option_values)))

        def on_event_output_changed(self, value):
            log.append(("event", value, None))

        def on_user_defined_controllers_changed(self, value):
            log.append(("udc", value, None))
            super().on_user_defined_controllers_changed(value)

        on_arpeggiator_changed = "not callable"

    # the metaclass registered Probe under the MetaModule type name; undo that
    MODULE_CLASSES[rv.m.MetaModule.mtype] = rv.m.MetaModule

    p = Probe()
    init = [(n, v) for n, v, _ in log]
    exp_init = []
    for name, opt in rv.m.MetaModule.options.items():
        tag = {"receive_notes_from_keyboard": "recv",
               "do_not_receive_notes_from_keyboard": "norecv",
               "event_output": "event", "user_defined_controllers": "udc"}
        if name in tag:
            exp_init.append((tag[name], ref_set(opt, opt.default)))
        for other in opt.exclusive_of:
            exp_init.append((tag[other], False))
    check(init == exp_init, "init callbacks %r != %r" % (init, exp_init))
    del log[:]
    p.do_not_receive_notes_from_keyboard = 1
    p.receive_notes_from_keyboard = "yes"
    check([(n, v) for n, v, _ in log] ==
          [("norecv", True), ("recv", False), ("recv", True), ("norecv", False)],
          "callback order %r" % log)
    # the own callback fires after own store but before the exclusive reset
    check(log[2][2]["receive_notes_from_keyboard"] is True, "own stored before cb")
    check(log[2][2]["do_not_receive_notes_from_keyboard"] is True, "other not yet reset")
    check(log[3][2]["do_not_receive_notes_from_keyboard"] is False, "other reset before cb")
    del log[:]
    p.event_output = True
    p.event_output = 0
    p.user_defined_controllers = 500
    p.arpeggiator = True  # non-callable attribute is ignored
    check([(n, v) for n, v, _ in log] == [("event", False), ("event", True), ("udc", 96)],
          "stored value passed to callback %r" % log)
    check(p.arpeggiator is True, "arpeggiator set")


def test_synthetic_module():
    """Hand-made option layout, including pathological ones."""

    class Syn(Module):
        mtype = None
        mgroup = "Test"
        a = Option(name="a", byte=0, bit=0, size=3, default=5)
        b = Option(name="b", byte=0, bit=3, size=5, default=0)
        c = Option(name="c", byte=9, bit=7, size=1, default=True, inverted=True)
        d = Option(name="d", byte=63, bit=2, size=4, default=9, min=2, max=12)
        e = Option(name="e", byte=9, bit=0, size=1, default=False, min=0, max=1)
        options_chnm = 0x01020304

    s = Syn()
    check(s.option_values == {"a": 5, "b": 0, "c": False, "d": 9, "e": 0}, "syn defaults %r" % s.option_values)
    check(s.c is True and s.e == 0 and type(s.e) is int, "syn get")
    chunks = list(s.options_chunks())
    check(chunks[0] == (b"CHNM", b"\x04\x03\x02\x01"), "syn chnm")
    exp = bytearray(64)
    exp[0] = 5
    exp[63] = 9 << 2
    check(chunks[1] == (b"CHDT", bytes(exp)), "syn chdt")
    check(list(s.specialized_iff_chunks()) == chunks, "specialized delegates")
    for a, b, c, d, e in itertools.product(range(8), (0, 1, 17, 31), (0, 1), (0, 2, 7, 12, 15), (0, 1, 2)):
        s = Syn(a=a, b=b, c=c, d=d, e=e)
        check(s.e == min(1, e) and type(s.e) is int, "size1 with bounds is clamped, not bool")
        data = list(s.options_chunks())[1][1]
        check(data[0] == a | (b << 3), "syn byte0")
        check(data[9] == ((0 if c else 1) << 7) | min(1, e), "syn byte9")
        check(data[63] == min(12, max(2, d)) << 2, "syn byte63")
        t = Syn()
        t.load_options(FakeChunk(0, data))
        check((t.a, t.b, t.c, t.d) == (a, b, bool(c), min(12, max(2, d))), "syn roundtrip")
        check(t.option_values["e"] is bool(min(1, e)), "load makes size-1 bool")
    # clamp tie-breaking / type preservation with floats (no callback on Syn)
    for v, exp in [(3.5, 3.5), (12.0, 12), (2.0, 2), (1.9, 2), (12.5, 12), (7, 7),
                   (True, 2), (float("inf"), 12), (float("-inf"), 2)]:
        s = Syn()
        s.d = v
        check(s.d == exp and type(s.d) is type(exp), "float clamp %r -> %r" % (v, s.d))
    s.d = float("nan")
    check(s.d != s.d or s.d in (2, 12), "nan clamp does not raise")
    nan_repr = repr(s.d)
    check(nan_repr == "12", "nan clamp result %s" % nan_repr)
    # long record (more than 64 bytes) is accepted, short record is zero padded
    t = Syn()
    t.load_options(FakeChunk(0, b"\xff" * 100))
    check(t.option_values == {"a": 7, "b": 31, "c": True, "d": 15, "e": True}, "long record")
    t.load_options(FakeChunk(0, b""))
    check(t.option_values == {"a": 0, "b": 0, "c": False, "d": 0, "e": False}, "empty record")
    t.load_options(FakeChunk(0, bytearray(b"\x2a")))
    check(t.option_values == {"a": 2, "b": 5, "c": False, "d": 0, "e": False}, "bytearray record")
    t.load_options(FakeChunk(0, [0xFF] * 10))
    check(t.option_values == {"a": 7, "b": 31, "c": True, "d": 0, "e": True}, "list record")
    try:
        t.load_options(FakeChunk(0, None))
    except TypeError:
        pass
    else:
        check(False, "None chdt must raise TypeError")

    # module without options
    class NoOpt(Module):
        mtype = None
        mgroup = "Test"

    n = NoOpt()
    check(n.option_values == {}, "no options")
    check(list(n.specialized_iff_chunks()) == [(None, None)], "no options sentinel")
    check(list(n.options_chunks()) == [(b"CHNM", b"\0\0\0\0"), (b"CHDT", b"")], "empty record")
    n.load_options(FakeChunk(0, b"\x01\x02"))
    check(n.option_values == {}, "no options load")

    # error behaviour
    class Wide(Module):
        mtype = None
        mgroup = "Test"
        w = Option(name="w", byte=1, bit=6, size=4, default=0)

    w = Wide(w=3)
    check(list(w.options_chunks())[1][1] == b"\x00\xc0", "fits")
    w.w = 15
    gen = w.options_chunks()
    first = next(gen)
    check(first == (b"CHNM", b"\0\0\0\0"), "CHNM yielded before overflow detected")
    try:
        next(gen)
    except struct.error:
        pass
    else:
        check(False, "overflowing byte must raise struct.error")
    w.load_options(FakeChunk(0, b"\x00\xc0"))
    check(w.w == 3, "wide load sees only in-byte bits")
    del w.option_values["w"]
    gen = w.options_chunks()
    try:
        next(gen)
    except TypeError:
        pass
    else:
        check(False, "missing value must raise TypeError on first next()")
    try:
        w.w
    except KeyError:
        pass
    else:
        check(False, "missing value get raises KeyError")

    class Far(Module):
        mtype = None
        mgroup = "Test"
        f = Option(name="f", byte=64, bit=0, size=1, default=True)

    f = Far()
    try:
        next(f.options_chunks())
    except IndexError:
        pass
    else:
        check(False, "byte 64 must raise IndexError on write")
    try:
        f.load_options(FakeChunk(0, b"\x01"))
    except IndexError:
        pass
    else:
        check(False, "byte 64 must raise IndexError on short load")
    f.load_options(FakeChunk(0, b"\x00" * 64 + b"\x01"))
    check(f.f is True, "byte 64 readable from long record")

    # negative byte index: python list semantics apply, record length ignores it
    class Neg(Module):
        mtype = None
        mgroup = "Test"
        g = Option(name="g", byte=-1, bit=1, size=2, default=3)
        h = Option(name="h", byte=1, bit=0, size=1, default=True)

    ng = Neg()
    check(list(ng.options_chunks())[1] == (b"CHDT", b"\x00\x01"), "negative byte write")
    ng.load_options(FakeChunk(0, b"\x00" * 63 + b"\x04"))
    check(ng.option_values == {"g": 2, "h": False}, "negative byte read")

    class OnlyNeg(Module):
        mtype = None
        mgroup = "Test"
        g = Option(name="g", byte=-3, bit=0, size=1, default=True)

    check(list(OnlyNeg().options_chunks())[1] == (b"CHDT", b""), "only negative byte")

    # partial state after failing load: options before the failing one are stored
    class Partial(Module):
        mtype = None
        mgroup = "Test"
        p = Option(name="p", byte=0, bit=0, size=1, default=False)
        q = Option(name="q", byte=70, bit=0, size=1, default=False)
        r = Option(name="r", byte=1, bit=0, size=1, default=False)

    pm = Partial()
    try:
        pm.load_options(FakeChunk(0, b"\x01\x01"))
    except IndexError:
        pass
    check(pm.option_values == {"p": True, "q": False, "r": False}, "partial load state")


def test_file_roundtrip():
    rnd = random.Random(99)
    for cls in OPTION_CLASSES:
        for _ in range(8):
            mod = cls()
            for name, opt in cls.options.items():
                setattr(mod, name, rnd.randrange(2**opt.size))
            buf = io.BytesIO()
            rv.Synth(mod).write_to(buf)
            raw = buf.getvalue()
            rec = ref_pack(cls, mod.option_values)
            needle = (b"CHNM" + struct.pack("<II", 4, mod.options_chnm)
                      + b"CHDT" + struct.pack("<I", len(rec)) + rec)
            check(needle in raw, "options record in file bytes %s" % cls.__name__)
            buf.seek(0)
            back = rv.read_sunvox_file(buf).module
            check(type(back) is cls, "type back")
            for name in cls.options:
                check(getattr(back, name) == getattr(mod, name), "file roundtrip %s" % name)
            buf2 = io.BytesIO()
            rv.Synth(back).write_to(buf2)
            check(buf2.getvalue() == raw, "second write identical")


def main():
    test_layout()
    test_defaults_and_kwargs()
    test_every_value()
    test_pairs()
    test_random()
    test_clamp_and_odd_values()
    test_callbacks()
    test_synthetic_module()
    test_file_roundtrip()
    if FAILURES:
        for msg in FAILURES[:40]:
            print("FAIL:", msg)
        print("FAILED (%d)" % len(FAILURES))
        sys.exit(1)
    print("PASS")


if __name__ == "__main__":
    main()
