"""Behaviour check for ModuleMeta: controller ordering/numbering/labels, options
collection, generated class and enum docstrings; plus defaults versus the spec."""
import os
import sys
from enum import Enum, IntEnum

import rv.api  # noqa: F401
from rv.controller import Controller, Range
from rv.modules import MODULE_CLASSES
from rv.modules.module import Module
from rv.option import Option

failures = []


def check(cond, msg):
    if not cond:
        failures.append(msg)


RULE2 = "=" * 40 + " " + "=" * 40
RULE4 = " ".join(["=" * 40] * 4)


def enum_doc(e):
    rows = ["{:40s} {:40d}".format(v.name, v.value) for v in e]
    return "\n".join(["An enumeration.", "", RULE2, "{:40s} {:40s}".format("Name", "Value"), RULE2] + rows + [RULE2])


classes = sorted(set(MODULE_CLASSES.values()), key=lambda c: c.__name__)
check(len(classes) >= 43, "module classes registered: %d" % len(classes))
for mtype, cls in MODULE_CLASSES.items():
    check(cls.mtype == mtype, f"registry key {mtype}")

total = 0
for cls in classes:
    ctls = cls.controllers
    check(type(ctls) is dict, f"{cls.__name__}: controllers is a dict")
    orders = [c._order for c in ctls.values()]
    check(orders == sorted(orders) and len(set(orders)) == len(orders), f"{cls.__name__}: definition order")
    for i, (k, c) in enumerate(ctls.items(), 1):
        total += 1
        check(isinstance(c, Controller), f"{cls.__name__}.{k}: type")
        check(getattr(cls, k) is c, f"{cls.__name__}.{k}: class attribute is the controller")
        check(c.number == i, f"{cls.__name__}.{k}: number {c.number} != {i}")
        check(c.name == k, f"{cls.__name__}.{k}: name {c.name!r}")
        check(c.label == k.replace("_", " ").title(), f"{cls.__name__}.{k}: label {c.label!r}")
    expected_names = {k for k in dir(cls) if isinstance(getattr(cls, k), Controller)}
    check(set(ctls) == expected_names, f"{cls.__name__}: controller set")
    # options
    opts = cls.options
    check(type(opts) is dict, f"{cls.__name__}: options is a dict")
    check(list(opts) == sorted(opts), f"{cls.__name__}: options in attribute-name order")
    check(set(opts) == {k for k in dir(cls) if isinstance(getattr(cls, k), Option)}, f"{cls.__name__}: option set")
    for k, o in opts.items():
        check(getattr(cls, k) is o, f"{cls.__name__}.{k}: option identity")
    # class docstring
    doc = cls.__doc__
    lines = doc.split("\n")
    check(lines[0] == f'"{cls.mtype}" SunVox {cls.mgroup} Module' and lines[1] == "", f"{cls.__name__}: doc head")
    check("Behaviors:" in lines, f"{cls.__name__}: doc behaviors")
    for b in cls.behaviors:
        check(f"- {b.name}" in lines, f"{cls.__name__}: doc behavior {b.name}")
    if ctls:
        at = lines.index("Controllers:")
        check(lines[at + 1 : at + 5] == ["", RULE4, "{:40s} {:40s} {:40s} {:40s}".format("Number", "Name", "Type", "Default"), RULE4],
              f"{cls.__name__}: doc table head")
        rows = lines[at + 5 : at + 5 + len(ctls)]
        for i, ((k, c), row) in enumerate(zip(ctls.items(), rows), 1):
            want = "{:40s} {:40s} {!r:40s} {!r:40s}".format("``{0:02x}`` ({0:d})".format(i), k, c.value_type, c.default)
            check(row == want, f"{cls.__name__}: doc row {i}: {row!r}")
        check(lines[at + 5 + len(ctls) :] == [RULE4, ""], f"{cls.__name__}: doc tail")
    else:
        check(lines[-1] == "This module has no controllers.", f"{cls.__name__}: doc without controllers")
    # enum docstrings
    for k in dir(cls):
        e = getattr(cls, k)
        if isinstance(e, type) and issubclass(e, Enum):
            if cls.__name__ == "DrumSynth" and k.endswith("NOTE"):
                # attached to the class after its creation, so never documented
                check(e.__doc__ is None, f"{cls.__name__}.{k}: enum doc untouched")
            else:
                check(e.__doc__ == enum_doc(e), f"{cls.__name__}.{k}: enum doc")
check(total >= 502, f"controllers visited: {total}")
check(Module.controllers == {} and Module.options == {}, "base Module has nothing")
check("mtype" not in Module.__dict__ and None not in MODULE_CLASSES, "base Module is not registered")

# ---- against the specification ---------------------------------------------------
spec_path = os.path.join(os.getcwd(), "specs", "fileformat.yaml")
try:
    import yaml
except ImportError:  # pragma: no cover
    yaml = None
if yaml is not None and os.path.exists(spec_path):
    with open(spec_path) as f:
        spec = yaml.safe_load(f)["module_types"]
    by_name = {c.__name__: c for c in classes}
    seen = 0
    for tname, tspec in spec.items():
        cls = by_name.get(tname)
        check(cls is not None, f"spec type {tname} has a class")
        if cls is None:
            continue
        spec_ctls = [next(iter(d.items())) for d in tspec.get("controllers") or []]
        got = list(cls.controllers.items())
        check(len(got) >= len(spec_ctls), f"{tname}: has all spec controllers")
        m = cls()
        for i, ((sname, sdef), (k, c)) in enumerate(zip(spec_ctls, got), 1):
            seen += 1
            check(k.rstrip("_") == sname.rstrip("_"), f"{tname} #{i}: {k} vs spec {sname}")
            check(c.number == i, f"{tname}.{k}: number")
            if "min" in sdef and type(c.value_type) is Range:
                check((c.value_type.min, c.value_type.max) == (sdef["min"], sdef["max"]), f"{tname}.{k}: range")
            want = sdef.get("default")
            have = getattr(m, k)
            if "enum" in sdef:
                want_value = tspec["enums"][sdef["enum"]][want]
                check(isinstance(have, Enum) and have.value == want_value and c.default is have,
                      f"{tname}.{k}: enum default {have!r} vs {want!r}")
            elif tname == "SpectraVoice" and k.startswith("h_"):
                pass  # mirrors the selected harmonic, set by SpectraVoice.__init__
            else:
                check(have == want and c.default == want, f"{tname}.{k}: default {have!r} vs spec {want!r}")
    check(seen == 502, f"spec controllers compared: {seen}")


# ---- freshly defined classes -------------------------------------------------------
class Shape(IntEnum):
    sine = 0
    square = 1


class BaseThing:
    name = "Thing"
    mtype = "CheckThing"
    mgroup = "Effect"
    flags = default_flags = 0x51

    class Curve(IntEnum):
        lin = 0
        exp = 7

    zeta = Controller((0, 10), 5)
    alpha = Controller(Curve, Curve.exp)
    mid_value = Controller((-5, 5), 0)
    beta = Controller(bool, True)
    opt_z = Option(name="opt_z", byte=0, bit=1, size=1, default=False)
    opt_a = Option(name="opt_a", byte=0, bit=0, size=1, default=True)


try:
    class Thing(BaseThing, Module):
        """Docs of Thing."""

        behaviors = set()
        shape = Shape
        omega = Controller((0, 1), 1)

    check(list(Thing.controllers) == ["zeta", "alpha", "mid_value", "beta", "omega"], f"Thing order {list(Thing.controllers)}")
    check([c.number for c in Thing.controllers.values()] == [1, 2, 3, 4, 5], "Thing numbers")
    check([c.name for c in Thing.controllers.values()] == list(Thing.controllers), "Thing names")
    check(Thing.controllers["mid_value"].label == "Mid Value", "Thing label")
    check(list(Thing.options) == ["opt_a", "opt_z"], "Thing options")
    check(MODULE_CLASSES["CheckThing"] is Thing, "Thing registered")
    check(Thing.Curve.__doc__ == enum_doc(Thing.Curve) and Shape.__doc__ == enum_doc(Shape), "Thing enum docs")
    check("Docs of Thing." in Thing.__doc__.split("\n"), "Thing doc keeps original text")
    check("``05`` (5)" in Thing.__doc__ and "``06``" not in Thing.__doc__, "Thing doc numbering")

    class SubThing(Thing):
        mtype = "CheckSubThing"
        first = Controller((0, 3), 2)
        beta_alias = Thing.beta

    check(MODULE_CLASSES["CheckSubThing"] is SubThing, "SubThing registered")
    # subclass: inherited controllers keep definition order, new ones follow; alias sorts with its target
    check(list(SubThing.controllers) == ["zeta", "alpha", "mid_value", "beta", "beta_alias", "omega", "first"],
          f"SubThing order {list(SubThing.controllers)}")
    check(SubThing.controllers["beta"] is SubThing.controllers["beta_alias"], "alias identity")
    check(Thing.beta.name == "beta_alias" and Thing.beta.number == 5, f"alias: last name wins ({Thing.beta.name}, {Thing.beta.number})")
    check(SubThing.first.number == 7 and SubThing.omega.number == 6, "SubThing numbers")
    check(list(Thing.controllers) == ["zeta", "alpha", "mid_value", "beta", "omega"], "parent dict untouched")
    check(SubThing.controllers is not Thing.controllers and SubThing.options is not Thing.options, "own dicts")
    check(list(SubThing.options) == ["opt_a", "opt_z"], "SubThing options inherited")
    t = Thing(zeta=10, alpha="lin")
    check((t.zeta, t.alpha, t.mid_value, t.beta, t.omega) == (10, Thing.Curve.lin, 0, True, 1), "Thing instance values")
    check(t.opt_a is True and t.opt_z is False, "Thing instance options")
finally:
    MODULE_CLASSES.pop("CheckThing", None)
    MODULE_CLASSES.pop("CheckSubThing", None)

if failures:
    print("FAIL")
    for f in failures[:40]:
        print("  ", f)
    sys.exit(1)
print("PASS")
