"""Behaviour check for MetaModule and its per-instance user-defined controllers.

Run from the repository root:
    PYTHONPATH=<root>/src/python python check.py
Prints PASS and exits 0 when everything behaves as documented here.
"""
import glob
import io
import os
import sys
from struct import pack

from rv.api import Project, Synth, m, read_sunvox_file
from rv.controller import Range
from rv.modules.metamodule import (
    MAX_USER_DEFINED_CONTROLLERS,
    MetaModule,
    UserDefined,
    UserDefinedProxy,
    slugify,
)
from rv.modules.module import Chunk

FAILURES = []


def check(cond, msg):
    if not cond:
        FAILURES.append(msg)


def raises(exc_type, fn, *args):
    try:
        fn(*args)
    except exc_type as e:
        return type(e) is exc_type
    except Exception as e:
        FAILURES.append(f"expected {exc_type.__name__}, got {type(e).__name__}: {e}")
        return True
    return False


def synth_bytes(mod):
    f = io.BytesIO()
    Synth(mod).write_to(f)
    return f.getvalue()


def attached_flags(mod):
    return [c.attached(mod) for c in mod.user_defined]


def state(mod):
    return (
        synth_bytes(mod),
        dict(mod.controller_values),
        dict(mod.option_values),
        attached_flags(mod),
        [c.label for c in mod.user_defined],
        [repr(c.value_type) for c in mod.user_defined],
        [c.default for c in mod.user_defined],
        [(v.module, v.controller) for v in mod.mappings.values],
        mod.user_defined_aliases,
    )


def new_metamodule(**kw):
    """A MetaModule whose project holds an Amplifier (1) and a Filter (2)."""
    project = Project()
    project.attach_module(m.Amplifier(volume=300))
    project.attach_module(m.Filter())
    mod = m.MetaModule(project=project, **kw)
    # Give the first controllers real targets so that writes can propagate.
    targets = [(1, 0), (1, 1), (1, 2), (2, 0), (2, 1)]
    for i, target in enumerate(targets):
        mod.mappings.values[i] = MetaModule.Mapping(target)
    return mod, project


def test_construction():
    a, b = m.MetaModule(), m.MetaModule()
    check(len(a.user_defined) == MAX_USER_DEFINED_CONTROLLERS == 96, "96 controllers")
    check(a.user_defined is not b.user_defined, "user_defined list shared")
    check(
        all(x is not y for x, y in zip(a.user_defined, b.user_defined)),
        "UserDefined objects shared",
    )
    check(all(type(c) is UserDefined for c in a.user_defined), "UserDefined type")
    check(
        [c.name for c in a.user_defined]
        == [f"user_defined_{i}" for i in range(1, 97)],
        "names",
    )
    check([c.number for c in a.user_defined] == list(range(6, 102)), "numbers")
    check(
        all(c.value_type == Range(0, 44100) and c.default == 0 for c in a.user_defined),
        "value type / default",
    )
    check(all(c.label is None for c in a.user_defined), "no labels")
    check(attached_flags(a) == [False] * 96, "nothing attached")
    orders = [c._order for c in a.user_defined]
    check(orders == sorted(orders) and len(set(orders)) == 96, "creation order")
    check(a.chnk == 104, "chnk")
    check(a.project is not b.project, "embedded project shared")
    check(a.project.metamodule is a and b.project.metamodule is b, "backlink")
    check(a.mappings is not b.mappings, "mappings shared")
    check(len(a.mappings.values) == 96, "mapping count")
    check(
        list(a.controllers)[:5]
        == ["volume", "input_module", "play_patterns", "bpm", "tpl"],
        "built-in controllers first",
    )
    check(list(a.controllers)[5] == "user_defined_1", "then the user-defined ones")
    check(len(a.controllers) == 101, "controller count")
    check(
        all(a.controller_values[f"user_defined_{i}"] == 0 for i in range(1, 97)),
        "initial values",
    )
    given = Project()
    c = m.MetaModule(project=given, volume=5, user_defined_controllers=2, name="mm")
    check(c.project is given and given.metamodule is c, "project kw")
    check(c.volume == 5 and c.name == "mm", "kw passed on")
    check(attached_flags(c) == [True, True] + [False] * 94, "option kw attaches")
    check(attached_flags(a) == [False] * 96, "attaching leaked to another module")

    # class-level access gives the proxies
    check(type(MetaModule.user_defined_1) is UserDefinedProxy, "proxy on class")
    check(MetaModule.user_defined_96.index == 95, "proxy index")
    proxy = MetaModule.user_defined_3
    check(proxy.__get__(None, MetaModule) is proxy, "proxy __get__ without instance")
    check(proxy.__set__(None, 5) is None, "proxy __set__ without instance")
    check(proxy.controller(a) is a.user_defined[2], "proxy controller")
    check(proxy.controller(b) is b.user_defined[2], "proxy controller per instance")
    check(proxy.instance_value_type(a) == Range(0, 44100), "proxy value type")
    check(proxy.attached(a) is False and proxy.attached(c) is False, "proxy attached")
    check(MetaModule.user_defined_2.attached(c) is True, "proxy attached 2")
    proxy.attach(a)
    check(a.user_defined[2].attached(a) and not b.user_defined[2].attached(b), "attach")
    proxy.detach(a)
    check(not a.user_defined[2].attached(a), "detach")


def test_attachment():
    a, b = m.MetaModule(), m.MetaModule()
    before_b = state(b)
    for count in (0, 1, 5, 95, 96, 3):
        a.user_defined_controllers = count
        check(
            attached_flags(a) == [True] * count + [False] * (96 - count),
            f"attachment for {count}",
        )
        check(attached_flags(b) == [False] * 96, f"attachment leak for {count}")
    a.user_defined_controllers = 500  # options are clamped
    check(a.user_defined_controllers == 96 and all(attached_flags(a)), "clamped high")
    a.user_defined_controllers = -4
    check(a.user_defined_controllers == 0 and not any(attached_flags(a)), "clamped low")
    # out-of-range raw option values (e.g. from a file)
    a.option_values["user_defined_controllers"] = 200
    a.recompute_controller_attachment()
    check(all(attached_flags(a)), "count above 96 attaches everything")
    a.option_values["user_defined_controllers"] = -3
    a.recompute_controller_attachment()
    check(not any(attached_flags(a)), "negative count detaches everything")
    a.option_values["user_defined_controllers"] = True
    a.recompute_controller_attachment()
    check(attached_flags(a) == [True] + [False] * 95, "bool count")
    a.option_values["user_defined_controllers"] = 4
    a.recompute_controller_attachment()
    a.option_values["user_defined_controllers"] = 2.5
    check(raises(TypeError, a.recompute_controller_attachment), "float count")
    check(attached_flags(a) == [True] * 4 + [False] * 92, "nothing done on TypeError")
    a.option_values["user_defined_controllers"] = 4
    check(state(b) == before_b, "B changed while A's attachment changed")
    # saving recomputes attachment of that module only
    a.user_defined[10].attach(a)
    b.user_defined[0].attach(b)
    synth_bytes(a)
    check(attached_flags(a) == [True] * 4 + [False] * 92, "save recomputes")
    check(b.user_defined[0].attached(b), "saving A recomputed B")


def test_aliases():
    a, _ = new_metamodule(user_defined_controllers=4)
    b, _ = new_metamodule(user_defined_controllers=4)
    before_b = state(b)
    check(a.user_defined_aliases == [None] * 4, "no labels -> None aliases")
    a.user_defined[0].label = "Cutoff Freq"
    a.user_defined[1].label = "1st Thing"
    a.user_defined[2].label = ""
    a.user_defined[3].label = "!!!"
    a.user_defined[4].label = "Hidden"  # not attached
    check(
        a.user_defined_aliases == ["u_cutoff_freq", "u__1st_thing", None, "u__"],
        f"aliases: {a.user_defined_aliases}",
    )
    check(slugify("") == "_" and slugify("9 Lives") == "_9_lives", "slugify")
    check(b.user_defined_aliases == [None] * 4, "labels leaked")
    check(all(c.label is None for c in b.user_defined), "labels leaked 2")
    check(UserDefined.label is None, "label written to the class")
    names = dir(a)
    check("u_cutoff_freq" in names and "u__1st_thing" in names, "dir has aliases")
    check("u_hidden" not in names and None not in names, "dir skips unattached/None")
    check("u_cutoff_freq" not in dir(b), "dir of other module")

    a.u_cutoff_freq = 1000
    check(a.user_defined_1 == 1000, "alias write reaches the controller")
    check(a.controller_values["user_defined_1"] == 1000, "controller_values")
    check("u_cutoff_freq" not in vars(a), "alias is not an instance attribute")
    check(a.u_cutoff_freq == 1000, "alias read")
    a.user_defined_2 = 77
    check(a.u__1st_thing == 77, "alias read of second controller")
    a.u__ = 5
    check(a.user_defined_4 == 5 and a.user_defined_3 == 0, "alias index skips None")
    check(b.user_defined_1 == 0 and b.user_defined_2 == 0, "values leaked")
    check(raises(AttributeError, getattr, b, "u_cutoff_freq"), "alias on other module")
    check(raises(AttributeError, getattr, a, "u_hidden"), "unattached alias read")
    check(raises(AttributeError, getattr, a, "no_such_thing"), "unknown attribute")
    check(not hasattr(a, "u_nothing"), "hasattr for unknown alias")
    check(getattr(a, "u_nothing", "dflt") == "dflt", "getattr default")
    b.u_cutoff_freq = 9  # not an alias there: becomes a plain attribute
    check(vars(b).get("u_cutoff_freq") == 9 and b.user_defined_1 == 0, "plain attr")
    del b.u_cutoff_freq
    a.u_hidden = 3  # unattached: plain attribute as well
    check(vars(a).get("u_hidden") == 3 and a.user_defined_5 == 0, "unattached write")
    del a.u_hidden
    # controllers that don't exist
    check(raises(KeyError, getattr, a, "user_defined_97"), "user_defined_97 read")
    check(raises(KeyError, setattr, a, "user_defined_97", 1), "user_defined_97 write")
    check(raises(KeyError, setattr, a, "user_defined_0", 1), "user_defined_0 write")
    check("user_defined_97" not in vars(a), "no attribute created")
    # reducing the count hides aliases again
    a.user_defined_controllers = 1
    check(a.user_defined_aliases == ["u_cutoff_freq"], "aliases follow attachment")
    check(raises(AttributeError, getattr, a, "u__1st_thing"), "hidden alias")
    check(a.user_defined[1].label == "1st Thing", "label kept when detached")
    a.user_defined_controllers = 4
    check(state(b) == before_b, "B changed by alias traffic on A")

    # an object that never ran __init__
    bare = object.__new__(MetaModule)
    check(bare.user_defined_aliases == [], "aliases before construction")
    check(raises(AttributeError, getattr, bare, "anything"), "bare getattr")
    check(raises(AttributeError, getattr, bare, "user_defined"), "bare user_defined")
    check(raises(AttributeError, getattr, bare, "user_defined_1"), "bare controller")
    bare.zzz = 1
    check(vars(bare) == {"zzz": 1}, "bare setattr is a plain attribute")


def test_mappings():
    a, project = new_metamodule()
    b, project_b = new_metamodule()
    amp, filt = project.modules[1], project.modules[2]
    Mapping = MetaModule.Mapping
    values = a.mappings.values
    values[0] = Mapping((1, 0))  # Amplifier.volume
    values[1] = Mapping((0, 0))  # unused (Output)
    values[2] = Mapping((9, 0))  # no such module
    values[3] = Mapping((2, 999))  # no such controller
    values[4] = Mapping((2, 1))  # Filter.freq
    values[5] = Mapping((1, 1))  # Amplifier.balance, beyond the count below
    values[6] = Mapping((3, 0))  # empty slot, see below
    project.modules.append(None)
    before_b = state(b)
    a.user_defined_controllers = 5
    a.update_user_defined_controllers()
    ud = a.user_defined
    check(ud[0].value_type == Range(0, 1024), f"mapped type: {ud[0].value_type!r}")
    check(ud[0].default == 256, "mapped default")
    check(a.controller_values["user_defined_1"] == 300, "mapped value")
    check(a.user_defined_1 == 300, "mapped value via attribute")
    for i in (1, 2, 3):
        check(ud[i].value_type == Range(0, 44100), f"unmapped {i} type kept")
        check(ud[i].default == 0, f"unmapped {i} default kept")
        check(a.controller_values[f"user_defined_{i + 1}"] == 0, f"unmapped {i} value")
    filter_freq = list(m.Filter.controllers.values())[1]
    check(ud[4].value_type == filter_freq.value_type, "second mapping type")
    check(ud[4].default == filter_freq.default, "second mapping default")
    check(a.user_defined_5 == filt.controller_values[filter_freq.name], "2nd value")
    check(ud[5].value_type == Range(0, 44100), "mapping beyond count ignored")
    a.user_defined_controllers = 7
    a.update_user_defined_controllers()
    check(ud[5].value_type == m.Amplifier.controllers["balance"].value_type, "count 7")
    check(ud[6].value_type == Range(0, 44100), "empty module slot skipped")
    check(MetaModule.user_defined_1.instance_value_type(a) == Range(0, 1024), "proxy")
    check(
        MetaModule.user_defined_1.instance_value_type(b) == Range(0, 44100),
        "proxy other",
    )
    check(state(b) == before_b, "B changed by A's mappings")
    check(m.MetaModule().user_defined[0].value_type == Range(0, 44100), "new module")

    # propagation in both directions, per module
    a.user_defined_1 = 100
    check(amp.volume == 100, "write goes down into the embedded project")
    check(project_b.modules[1].volume == 300, "write reached another project")
    amp.volume = 17
    # Embedded changes are matched on the 1-based controller number, so the
    # change of controller 1 (volume) arrives at the mapping (1, 1): number 6.
    check(a.user_defined_6 == 17 and a.user_defined_1 == 100, "embedded change up")
    check(amp.balance == 17 - 128, "and is propagated down through that mapping")
    check(b.user_defined_1 == 0, "embedded change reached another metamodule")
    check(state(b) == before_b, "B changed by propagation in A")

    # saved and restored
    project.modules.pop()
    a.mappings.values[6] = Mapping((0, 0))
    a.user_defined[0].label = "Vol"
    a.user_defined[4].label = "Freq"
    data = synth_bytes(a)
    loaded = a.clone()
    check(synth_bytes(loaded) == data, "clone bytes")
    check(loaded.user_defined[0].label == "Vol", "label round trip")
    check(loaded.user_defined[4].label == "Freq", "label round trip 2")
    check(loaded.user_defined[1].label is None, "unlabelled stays None")
    check(attached_flags(loaded) == [True] * 7 + [False] * 89, "attachment loaded")
    check(loaded.user_defined[0].value_type == Range(0, 1024), "loaded mapped type")
    check(loaded.user_defined_1 == 100 and loaded.u_vol == 100, "loaded value + alias")
    check(loaded.project.modules[1].volume == 17, "loaded embedded value")
    check(loaded.user_defined_6 == 17, "loaded value of the sixth controller")
    check(
        [(v.module, v.controller) for v in loaded.mappings.values[:6]]
        == [(1, 0), (0, 0), (9, 0), (2, 999), (2, 1), (1, 1)],
        "mappings round trip",
    )
    check(loaded.project is not a.project, "clone has its own project")
    loaded.user_defined[0].label = "Changed"
    loaded.u_changed = 1
    loaded.mappings.values[0].controller = 1
    loaded.user_defined_controllers = 0
    check(synth_bytes(a) == data, "mutating the clone changed the original")
    second = a.clone()
    a.user_defined[0].label = "Other"
    a.user_defined_1 = 3
    a.user_defined_controllers = 2
    check(synth_bytes(second) == data, "mutating the original changed a clone")
    check(state(b) == before_b, "B changed by save/load of A")


def test_label_chunks():
    a, b = m.MetaModule(), m.MetaModule()

    def label_chunk(chnm, data):
        chunk = Chunk()
        chunk.chnm, chunk.chdt = chnm, data
        return chunk

    a.load_chunk(label_chunk(8, b"First\0"))
    a.load_chunk(label_chunk(9, b"No terminator"))
    a.load_chunk(label_chunk(10, b"Cut\0junk\0more"))
    a.load_chunk(label_chunk(11, b"\0"))
    a.load_chunk(label_chunk(12, b""))
    a.load_chunk(label_chunk(103, bytearray(b"Last\0")))
    labels = [c.label for c in a.user_defined]
    check(labels[:5] == ["First", "No terminator", "Cut", "", ""], f"{labels[:5]}")
    check(labels[95] == "Last" and labels[5:95] == [None] * 90, "other labels")
    check(all(c.label is None for c in b.user_defined), "labels leaked")
    check(raises(IndexError, a.load_chunk, label_chunk(104, b"x\0")), "chnm too big")
    check(raises(TypeError, a.load_chunk, label_chunk(8, None)), "missing CHDT")
    check(a.user_defined[0].label == "First", "label kept after failed load")
    # chunks 3..7 are ignored
    before = state(a)
    for chnm in (3, 4, 5, 6, 7):
        a.load_chunk(label_chunk(chnm, b"ignored\0"))
    check(state(a) == before, "chunks 3..7 ignored")
    # labels are only written for attached controllers
    a.user_defined_controllers = 3
    written = list(a.specialized_iff_chunks())
    tail = [(k, v) for k, v in written if k in (b"CHNM", b"CHDT")][-6:]
    check(
        tail
        == [
            (b"CHNM", pack("<I", 8)),
            (b"CHDT", b"First\0"),
            (b"CHNM", pack("<I", 9)),
            (b"CHDT", b"No terminator\0"),
            (b"CHNM", pack("<I", 10)),
            (b"CHDT", b"Cut\0"),
        ],
        "label chunks written",
    )
    # mapping chunk: reset first, then padded to 96
    a.mappings.values[50].module = 7
    a.load_chunk(label_chunk(1, pack("<HHHH", 1, 2, 3, 4)))
    check(len(a.mappings.values) == 96, "mappings padded")
    check(
        [(v.module, v.controller) for v in a.mappings.values[:3]]
        == [(1, 2), (3, 4), (0, 0)],
        "mappings loaded",
    )
    check(a.mappings.values[50].module == 0, "mappings reset before load")
    check(b.mappings.values[0].module == 0, "mapping load leaked")
    # options chunk
    a.load_chunk(label_chunk(2, bytes([9])))
    check(a.option_values["user_defined_controllers"] == 9, "options chunk")
    check(b.option_values["user_defined_controllers"] == 0, "options leaked")


def test_files():
    files = sorted(glob.glob(os.path.join("tests", "files", "metamodule*.sunsynth")))
    check(len(files) >= 4, "metamodule test files not found; run from the repo root")
    for path in files:
        label = os.path.basename(path)
        one = read_sunvox_file(path).module
        two = read_sunvox_file(path).module
        ref = state(two)
        check(state(one)[0] == ref[0], f"{label}: two loads differ")
        check(one.user_defined is not two.user_defined, f"{label}: shared list")
        count = one.user_defined_controllers
        one.user_defined_controllers = (count + 5) % 97
        for i, ctl in enumerate(one.user_defined):
            ctl.label = f"L{i}"
            ctl.value_type = Range(0, 10)
            ctl.default = 1
        one.mappings.values[0].module = 1
        one.mappings.values.reverse()
        for mod in one.project.modules:
            if mod is not None and "volume" in mod.controllers:
                mod.volume = 1
        one.volume = 2
        check(state(two) == ref, f"{label}: mutating one load changed the other")
        again = read_sunvox_file(path).module
        check(state(again) == ref, f"{label}: reload differs after mutation")
        copy = two.clone()
        check(synth_bytes(copy) == ref[0], f"{label}: clone bytes")
        copy.user_defined_controllers = (count + 1) % 97
        copy.user_defined[0].label = "X"
        check(state(two) == ref, f"{label}: clone mutation leaked")


def main():
    test_construction()
    test_attachment()
    test_aliases()
    test_mappings()
    test_label_chunks()
    test_files()
    if FAILURES:
        for failure in FAILURES:
            print("FAIL:", failure)
        sys.exit(1)
    print("PASS")


if __name__ == "__main__":
    main()
