"""Behaviour check for C06-3: Module options codec / init / CMID, Project per-module chunks, MetaModule attachment."""
import hashlib
import logging
import struct
import sys
import traceback
from io import BytesIO
from pathlib import Path

import rv
from rv.api import NOTE, Project, Synth, m, read_sunvox_file

logging.disable(logging.CRITICAL)

ROOT = Path(rv.__file__).resolve().parents[3]
FILES = ROOT / "tests" / "files"
Sampler = m.Sampler

FAILURES = []
OBSERVED = {}


def check(cond, label):
    if not cond:
        FAILURES.append(label)
        print("FAIL:", label)


def sha(data):
    return hashlib.sha256(data).hexdigest()[:20]


def golden(key, data):
    """Compare a digest of `data` with the value recorded on the original tree."""
    digest = sha(data if isinstance(data, bytes) else repr(data).encode())
    OBSERVED[key] = digest
    if "--record" in sys.argv:
        return
    check(key in GOLDEN, "golden value missing for %s" % key)
    check(GOLDEN.get(key) == digest, "golden mismatch for %s" % key)


def raises(exc_type, fn, label):
    try:
        fn()
    except exc_type as e:
        check(type(e) is exc_type, "%s: raised %r" % (label, type(e)))
        return
    except Exception as e:  # noqa
        check(False, "%s: raised %r instead of %r" % (label, type(e), exc_type))
        return
    check(False, "%s: did not raise" % label)


# ---------------------------------------------------------------- IFF helpers


def parse_iff(data):
    out = []
    pos = 0
    while pos < len(data):
        name = data[pos : pos + 4]
        (size,) = struct.unpack("<I", data[pos + 4 : pos + 8])
        out.append((name, data[pos + 8 : pos + 8 + size]))
        pos += 8 + size
    return out


def build_iff(chunks):
    return b"".join(n + struct.pack("<I", len(d)) + d for n, d in chunks)


def module_chunk_sections(data):
    """Return, per CHNK found at this nesting level, the list of chunks after it
    up to (not including) SEND."""
    sections = []
    current = None
    for name, payload in parse_iff(data):
        if name == b"CHNK":
            current = []
            sections.append(current)
        elif name == b"SEND":
            current = None
        elif current is not None:
            current.append((name, payload))
    return sections


def rewrite_config_record(data, fn, which=0):
    """Apply fn to the CHDT of CHNM 0 of the `which`-th module with a CHNK."""
    chunks = parse_iff(data)
    out = []
    section = -1
    in_section = False
    pending = False
    for name, payload in chunks:
        if name == b"CHNK":
            section += 1
            in_section = True
        elif name == b"SEND":
            in_section = False
        elif in_section and section == which and name == b"CHNM":
            pending = payload == b"\0\0\0\0"
        elif pending and name == b"CHDT":
            payload = fn(payload)
            pending = False
        out.append((name, payload))
    return build_iff(out)


SIGN_OFFSET = 0xFC  # 4 + 22 + 2 + 2 + 2 + 4 + 96 + 48 + 48 + 10 + 4 + 2 + 4 + 4


def break_signature(record):
    assert record[SIGN_OFFSET : SIGN_OFFSET + 4] == b"PMAS", record[SIGN_OFFSET:][:4]
    return record[:SIGN_OFFSET] + b"XMAS" + record[SIGN_OFFSET + 4 :]


def overlong(record):
    return record + b"\0" * (0x191 - len(record)) if len(record) <= 0x190 else record


def exactly_0x190(record):
    return record.ljust(0x190, b"\0")


def truncated(record):
    # stops right before max_version / editor_cursor / editor_selected_size
    return record[:0x184]


def truncated_mid(record):
    # keeps max_version, drops both editor fields
    return record[:0x188]


# ------------------------------------------------------------- object helpers


def save(obj):
    f = BytesIO()
    obj.write_to(f)
    return f.getvalue()


def load(data):
    return read_sunvox_file(BytesIO(data))


def env_state(env):
    return (
        env.chnm,
        env.enable,
        env.sustain,
        env.loop,
        env.ctl_index,
        env.gain_pct,
        env.velocity,
        env.sustain_point,
        env.loop_start_point,
        env.loop_end_point,
        list(env.points),
        env.loaded,
    )


def sample_state(s):
    if s is None:
        return None
    return (
        s.data,
        s.loop_start,
        s.loop_len,
        s.volume,
        s.finetune,
        s.format,
        s.channels,
        s.rate,
        s.loop_type,
        s.loop_sustain,
        s.panning,
        s.relative_note,
        s.reserved2,
        s.name,
        s.start_pos,
    )


def effect_state(effect):
    if effect is None:
        return None
    mod = effect.module
    return (type(mod).__name__, dict(mod.controller_values), dict(mod.option_values))


def sampler_state(mod):
    st = {}
    for name in mod.controllers:
        st["ctl." + name] = getattr(mod, name)
    for name in mod.options:
        st["opt." + name] = getattr(mod, name)
    for name in (
        "name flags mod_finetune mod_relative_note mod_scale color midi_in_always "
        "midi_in_channel midi_out_name midi_out_channel midi_out_bank "
        "midi_out_program instrument_name version max_version volume_old "
        "ins_finetune ins_relative_note editor_cursor editor_selected_size "
        "unused1 unused2 unused3 unused4 unused5 unused6 is_legacy"
    ).split():
        st[name] = getattr(mod, name)
    st["legacy_chunks"] = (
        None
        if mod.legacy_chunks is None
        else [(c.chnm, c.chdt, c.chff, c.chfr) for c in mod.legacy_chunks]
    )
    st["env.volume"] = env_state(mod.volume_envelope)
    st["env.panning"] = env_state(mod.panning_envelope)
    st["env.pitch"] = env_state(mod.pitch_envelope)
    for i, env in enumerate(mod.effect_control_envelopes):
        st["env.effect%d" % i] = env_state(env)
    st["note_samples"] = mod.note_samples.bytes
    for i, s in enumerate(mod.samples):
        if s is not None:
            st["sample%d" % i] = sample_state(s)
    st["sample_slots"] = [s is not None for s in mod.samples]
    st["effect"] = effect_state(mod.effect)
    return st


def changed_keys(before, after):
    keys = set(before) | set(after)
    return sorted(k for k in keys if before.get(k, "<absent>") != after.get(k, "<absent>"))


def wave(n, seed=1):
    return bytes((i * 37 + seed * 11) % 256 for i in range(n))


def make_sample(fmt, channels, frames=8, seed=1, **kw):
    s = Sampler.Sample()
    s.format = fmt
    s.channels = channels
    s.data = wave(frames * s.frame_size, seed)
    s.rate = 22050 + seed
    s.name = b"smp%d" % seed
    for k, v in kw.items():
        setattr(s, k, v)
    return s


def build_sampler(with_effect=True, slots=(0, 3, 6)):
    mod = Sampler(instrument_name=b"built")
    mod.volume = 300
    mod.polyphony = 5
    mod.vibrato_type = mod.VibratoType.saw
    mod.vibrato_attack = 17
    mod.vibrato_depth = 99
    mod.vibrato_rate = 33
    mod.volume_fadeout = 1234
    mod.record_in_mono = True
    mod.volume_envelope.points = [(0, 0x8000), (10, 0x2000), (200, 0)]
    mod.volume_envelope.sustain_point = 1
    mod.panning_envelope.enable = True
    mod.panning_envelope.points = [(0, -0x2000), (50, 0x2000)]
    mod.pitch_envelope.loop = True
    mod.pitch_envelope.loop_end_point = 1
    mod.effect_control_envelopes[2].gain_pct = 55
    combos = [
        (Sampler.Format.int8, Sampler.Channels.mono),
        (Sampler.Format.int16, Sampler.Channels.stereo),
        (Sampler.Format.float32, Sampler.Channels.mono),
        (Sampler.Format.int16, Sampler.Channels.mono),
        (Sampler.Format.float32, Sampler.Channels.stereo),
        (Sampler.Format.int8, Sampler.Channels.stereo),
    ]
    for n, slot in enumerate(slots):
        fmt, ch = combos[n % len(combos)]
        mod.samples[slot] = make_sample(
            fmt,
            ch,
            frames=4 + n,
            seed=slot + 1,
            loop_type=list(Sampler.LoopType)[n % 3],
            loop_sustain=bool(n % 2),
            loop_start=n,
            loop_len=n + 1,
            volume=30 + n % 30,
            finetune=-5 + n % 100,
            panning=-20 + 10 * (n % 9),
            relative_note=n % 50 - 2,
            start_pos=n,
        )
    mod.note_samples[NOTE.C4] = slots[-1] if slots else 0
    if with_effect:
        reverb = m.Reverb()
        reverb.wet = 77
        mod.effect = Synth(reverb)
    return mod


def fixture_bytes(name="sampler.sunsynth"):
    return (FILES / name).read_bytes()


def finish():
    if "--record" in sys.argv:
        print("GOLDEN = {")
        for k in sorted(OBSERVED):
            print("    %r: %r," % (k, OBSERVED[k]))
        print("}")
        return
    if FAILURES:
        print("FAILED (%d)" % len(FAILURES))
        sys.exit(1)
    print("PASS (%d golden digests)" % len(OBSERVED))

GOLDEN = {
    'fixture.amplifier.sunsynth': '419f5717e558efbc145e',
    'fixture.analog-generator.sunsynth': '76ce674ef1db6717af60',
    'fixture.compressor.sunsynth': '7e4fa89c60186b9a11f5',
    'fixture.dc-blocker.sunsynth': '1312bb3c1626a845ea42',
    'fixture.delay.sunsynth': '32ee6c78f799b00c6760',
    'fixture.distortion.sunsynth': 'e9b59951b8753b41f51c',
    'fixture.drum-synth.sunsynth': '6d8ad0364d91a386d19b',
    'fixture.echo.sunsynth': 'a51866593f018ff999a6',
    'fixture.empty.sunvox': '0b58f6338b84cd2a3802',
    'fixture.eq.sunsynth': 'c6e8877e93f69f7fbaa3',
    'fixture.feedback.sunsynth': '09a1d368f8d974397759',
    'fixture.fft.sunsynth': 'a532a1e449a579c5fa56',
    'fixture.filter-pro.sunsynth': '87b217d025f588bb7001',
    'fixture.filter.sunsynth': 'ccf4f2af334e7d85df98',
    'fixture.flanger.sunsynth': '658f4783cc9c248ebe9f',
    'fixture.fmx.sunsynth': 'd2b0427af5abec18927f',
    'fixture.generator.sunsynth': '16aefebfbfb606f8c608',
    'fixture.glide.sunsynth': '765d995ffed7b9491e2c',
    'fixture.gpio.sunsynth': '15c3990e39ba8c2d0b6f',
    'fixture.input.sunsynth': '025ed41f84a149cb59b4',
    'fixture.issue109/filter_lfo.sunvox': '7c07bab808ce3d271b34',
    'fixture.issue41/sample.sunvox': '31504b7ddfd906224ba3',
    'fixture.issue54/test1.sunvox': '915266c46c96537b1ad7',
    'fixture.kicker.sunsynth': '33abb29c4834873a1df6',
    'fixture.lfo.sunsynth': 'efa89196cf44067f36c9',
    'fixture.loop.sunsynth': '57eca85729cb1af475e5',
    'fixture.metamodule-option-78.sunsynth': '76bf484725a761c100dc',
    'fixture.metamodule-option-79.sunsynth': '8d8a050747174fd9f658',
    'fixture.metamodule-option-7a.sunsynth': '36db7cdd1df60d034c82',
    'fixture.metamodule.sunsynth': '55f5fd0bfba897453b07',
    'fixture.modulator.sunsynth': '22d3e9b37c36f8818d83',
    'fixture.module-multiselect.sunvox': '8fa3a4e0ed3b0d49c429',
    'fixture.multictl.sunsynth': '66b009f3228bb000bd08',
    'fixture.multisynth-random-off.sunsynth': 'b4ccf1b6f4e1ed62c7eb',
    'fixture.multisynth-random1.sunsynth': 'a19a3f40a8bd840e62b0',
    'fixture.multisynth-random2.sunsynth': '98bf489a0febc83d29b9',
    'fixture.multisynth-random3.sunsynth': 'b7fbddfa4ed104bfe889',
    'fixture.multisynth.sunsynth': '87df69077399b6112a3e',
    'fixture.pitch-shifter.sunsynth': '4c58b5705344a08e159e',
    'fixture.pitch2ctl.sunsynth': '73252da465dfcc2f5993',
    'fixture.reverb.sunsynth': '90db4c635458e8fe34ef',
    'fixture.sampler.sunsynth': '3b0f2915c2ec0456c093',
    'fixture.single-fm.sunvox': 'ca3eb0ed7d25ba31f4e9',
    'fixture.smooth.sunsynth': '673c38cfc74b338e6936',
    'fixture.sound2ctl.sunsynth': 'fd4a139c6dc96ebf2eec',
    'fixture.spectravoice.sunsynth': '112111c76bcab011dcf9',
    'fixture.supertracks.sunvox': '1a4f41f039f94d444739',
    'fixture.velocity2ctl.sunsynth': '5fe6662a1ac4bc70daa3',
    'fixture.vibrato.sunsynth': '274b70fa0e6cf0ab0d3b',
    'fixture.vocal-filter.sunsynth': 'f62bcc37659869aaa0bd',
    'fixture.vorbis-player.sunsynth': 'f18896c9f30ee44ad1a8',
    'fixture.waveshaper.sunsynth': 'a4d25d2c53431359abb5',
    'init.Adsr.controller_order': 'd48ca6172dbed9573b7c',
    'init.Adsr.loaded': 'd70fcb1498ccf73f9291',
    'init.Amplifier.controller_order': '2ad9eea086b2a9a82025',
    'init.Amplifier.loaded': '77de2723f57303061607',
    'init.AnalogGenerator.controller_order': '593fa2d3919e5b7d46d7',
    'init.AnalogGenerator.loaded': '8bcd7bc0b27c3c943692',
    'init.Compressor.controller_order': '07d5cfa02dca35c8ce35',
    'init.Compressor.loaded': '3c768560e228df43e249',
    'init.Ctl2Note.controller_order': '8b00fb1f798f5d8f9b6f',
    'init.Ctl2Note.loaded': '1d6c943dee77b87180be',
    'init.DcBlocker.controller_order': 'b1c75ef4a7904e0f79c8',
    'init.DcBlocker.loaded': '5c1092332224a1f3ddd6',
    'init.Delay.controller_order': '686431e9292b0b2cb87a',
    'init.Delay.loaded': 'ffde45993fcaa043d1bc',
    'init.Distortion.controller_order': '6de1c2fb5e38a341926d',
    'init.Distortion.loaded': 'b3555c483275c541c29e',
    'init.DrumSynth.controller_order': 'd52056d905df1498006f',
    'init.DrumSynth.loaded': 'f249500d1c4d766d85af',
    'init.Echo.controller_order': 'a6e9131bc0fbe5cfb98e',
    'init.Echo.loaded': 'acc5c3360b953b95b83e',
    'init.Eq.controller_order': 'd5d9c71e8ea3f3db0b9c',
    'init.Eq.loaded': 'd890f80f1d5f303b4084',
    'init.Feedback.controller_order': 'e2bf9c49bbc0aea6ee4e',
    'init.Feedback.loaded': 'dcedce131dd22a38a379',
    'init.Fft.controller_order': '65997a0be05742ed5a37',
    'init.Fft.loaded': '5a38f49624579d3f2d25',
    'init.Filter.controller_order': 'f6dd10c620d15839fcdc',
    'init.Filter.loaded': '27d34185be39e1837acc',
    'init.FilterPro.controller_order': 'a4bf558ce3db0e9c55fb',
    'init.FilterPro.loaded': '66bf3805ae40d4f4d4f7',
    'init.Flanger.controller_order': '9d9f53f2f98f560a477b',
    'init.Flanger.loaded': '43ce7303c2da650811f4',
    'init.Fm.controller_order': 'f8c688c4a05f45389496',
    'init.Fm.loaded': '0e8f38761146b4fdeb12',
    'init.Fmx.controller_order': '6fa760cf3185682f7265',
    'init.Fmx.loaded': '3558ad93b4f1774435a0',
    'init.Generator.controller_order': '7e9bfbb17516db107fd5',
    'init.Generator.loaded': '41add7e968a183c66b85',
    'init.Glide.controller_order': 'b890b8b8b39d0a8d1156',
    'init.Glide.loaded': '181414b095f0547afcb6',
    'init.Gpio.controller_order': 'ce14e87cbfb39dfb8154',
    'init.Gpio.loaded': '5679b1885e0f3246aab9',
    'init.Input.controller_order': 'bae1080da420170e4bbc',
    'init.Input.loaded': 'dcedce131dd22a38a379',
    'init.Kicker.controller_order': 'd5e6987e76b00d2129dd',
    'init.Kicker.loaded': 'c6b7a738537f9272dcef',
    'init.Lfo.controller_order': '41ba592641c50ea4117a',
    'init.Lfo.loaded': 'b3d73d76dc279a0700a8',
    'init.Loop.controller_order': 'e24734cc35914636dbd9',
    'init.Loop.loaded': '2d2b9914d3e86ac6bdb3',
    'init.MetaModule.controller_order': 'e7acbae25d2db590fcb0',
    'init.MetaModule.loaded': '818356d2d455d2014322',
    'init.Modulator.controller_order': 'f1f37bc7a8344aef4ca9',
    'init.Modulator.loaded': 'a1d41fc1be3302606b9f',
    'init.MultiCtl.controller_order': 'c3aa63fcd3070c1f8352',
    'init.MultiCtl.loaded': '9ffe923a7170bc30a237',
    'init.MultiSynth.controller_order': '73a24869f1c494c2b2d5',
    'init.MultiSynth.loaded': 'a298ec12150e73ef69f0',
    'init.Pitch2Ctl.controller_order': '6bf05013b760a456da51',
    'init.Pitch2Ctl.loaded': 'b8387f0df23d99c5077f',
    'init.PitchDetector.controller_order': 'ac0a2437e0afdc18667a',
    'init.PitchDetector.loaded': '4e9935e130c73aeeb67b',
    'init.PitchShifter.controller_order': '9f418bb002b31e8ef527',
    'init.PitchShifter.loaded': '86f2d70c5d78792e14ce',
    'init.Reverb.controller_order': '2f53c74bff6111009d86',
    'init.Reverb.loaded': 'e3ff5556305b95db7605',
    'init.Sampler.controller_order': '462b0ab1d0c560feb232',
    'init.Sampler.loaded': '303a79d920aecaa747ae',
    'init.Smooth.controller_order': 'ba71ad36d0be181d20f4',
    'init.Smooth.loaded': '4ae6c331f3acaa315228',
    'init.Sound2Ctl.controller_order': 'ac40637dba69531f49a7',
    'init.Sound2Ctl.loaded': '741c27371cfcde84d560',
    'init.SpectraVoice.controller_order': 'e78948ecaf15ea39c126',
    'init.SpectraVoice.loaded': '81f720f29d6b8da6f8d6',
    'init.Velocity2Ctl.controller_order': 'a22e2854dfa56ee1a725',
    'init.Velocity2Ctl.loaded': '79c227e1422b204bd9f5',
    'init.Vibrato.controller_order': '3c125ac785711b4e7fde',
    'init.Vibrato.loaded': '679a3fd2585b78bb6fca',
    'init.VocalFilter.controller_order': '2f9b534a6e6dc1ddd5f0',
    'init.VocalFilter.loaded': 'dc1a506c42ce67f85dd8',
    'init.VorbisPlayer.controller_order': 'b883a7e7b10d2c5c4dd0',
    'init.VorbisPlayer.loaded': 'a898b3628358c47cc018',
    'init.WaveShaper.controller_order': '16e7b3e363bff762dfb0',
    'init.WaveShaper.loaded': '29e6780c9fc5ab0e5a02',
    "init.kw.0.Lfo.['freq', 'frequency_unit']": '44d3b40d17eada18a515',
    "init.kw.1.Lfo.['freq', 'frequency_unit']": '97896cb67130aa796198',
    "init.kw.2.Echo.['delay', 'delay_unit']": '6a2dfb51d6d9522d955e',
    "init.kw.3.Delay.['delay_l', 'delay_r']": 'b40739e7ba70e642d62e',
    "init.kw.4.Vibrato.['freq']": '589c9420ac1470878c7f',
    "init.kw.5.Loop.['length']": 'ad75013f9a61d54ff9b9',
    'init.kw.bad': '0434e985584e89f7b277',
    'load_options.AnalogGenerator': '66b5541cfab1841cfb25',
    'load_options.MetaModule': '7990fff9b7beec487794',
    'load_options.MultiSynth': '5deed809285b9eb7e509',
    'load_options.Sampler': 'a22c50e42a01b06dc571',
    'load_options.Sound2Ctl': 'b41e14494c8233707244',
    'meta.count0': '5db044749e2b1bb0a49f',
    'meta.count1': '005092beaa4086c15eb9',
    'meta.count5': 'c7005ffc478adf25a1bc',
    'meta.count95': 'fedb8838d7cee01a797c',
    'meta.count96': 'ef0aa5aed87a14f8a3a9',
    'meta.raw_counts': '1962b80c1adf413cf000',
    'options.Adsr.default': 'e3b0c44298fc1c149afb',
    'options.Amplifier.default': 'e3b0c44298fc1c149afb',
    'options.AnalogGenerator.all_ones': 'ea3ced18d8c9f5ed3017',
    'options.AnalogGenerator.default': 'e7ecebbc590bc88b3761',
    'options.AnalogGenerator.filter_envelope_scaling_per_key=False.types': '4b149dfaae0e73a38fef',
    'options.AnalogGenerator.filter_envelope_scaling_per_key=True.types': '4b149dfaae0e73a38fef',
    'options.AnalogGenerator.filter_freq_eq_note_freq=False.types': '4b149dfaae0e73a38fef',
    'options.AnalogGenerator.filter_freq_eq_note_freq=True.types': '4b149dfaae0e73a38fef',
    'options.AnalogGenerator.filter_freq_scaling_per_key=False.types': '4b149dfaae0e73a38fef',
    'options.AnalogGenerator.filter_freq_scaling_per_key=True.types': '4b149dfaae0e73a38fef',
    'options.AnalogGenerator.filter_freq_scaling_per_key_reverse=False.types': '4b149dfaae0e73a38fef',
    'options.AnalogGenerator.filter_freq_scaling_per_key_reverse=True.types': '4b149dfaae0e73a38fef',
    'options.AnalogGenerator.frequency_div_2=False.types': '4b149dfaae0e73a38fef',
    'options.AnalogGenerator.frequency_div_2=True.types': '4b149dfaae0e73a38fef',
    'options.AnalogGenerator.increased_freq_computation_accuracy=False.types': '4b149dfaae0e73a38fef',
    'options.AnalogGenerator.increased_freq_computation_accuracy=True.types': '4b149dfaae0e73a38fef',
    'options.AnalogGenerator.minus_one': 'ea3ced18d8c9f5ed3017',
    'options.AnalogGenerator.random_phase=False.types': '4b149dfaae0e73a38fef',
    'options.AnalogGenerator.random_phase=True.types': '4b149dfaae0e73a38fef',
    'options.AnalogGenerator.retain_phase=False.types': '4b149dfaae0e73a38fef',
    'options.AnalogGenerator.retain_phase=True.types': '4b149dfaae0e73a38fef',
    'options.AnalogGenerator.smooth_frequency_change=False.types': '4b149dfaae0e73a38fef',
    'options.AnalogGenerator.smooth_frequency_change=True.types': '4b149dfaae0e73a38fef',
    'options.AnalogGenerator.true_zero_attack_release=False.types': '4b149dfaae0e73a38fef',
    'options.AnalogGenerator.true_zero_attack_release=True.types': '4b149dfaae0e73a38fef',
    'options.AnalogGenerator.velocity_dependent_filter_frequency=False.types': '4b149dfaae0e73a38fef',
    'options.AnalogGenerator.velocity_dependent_filter_frequency=True.types': '4b149dfaae0e73a38fef',
    'options.AnalogGenerator.velocity_dependent_filter_resonance=False.types': '4b149dfaae0e73a38fef',
    'options.AnalogGenerator.velocity_dependent_filter_resonance=True.types': '4b149dfaae0e73a38fef',
    'options.AnalogGenerator.volume_envelope_scaling_per_key=False.types': '4b149dfaae0e73a38fef',
    'options.AnalogGenerator.volume_envelope_scaling_per_key=True.types': '4b149dfaae0e73a38fef',
    'options.AnalogGenerator.volume_scaling_per_key=False.types': '4b149dfaae0e73a38fef',
    'options.AnalogGenerator.volume_scaling_per_key=True.types': '4b149dfaae0e73a38fef',
    'options.Compressor.default': 'e3b0c44298fc1c149afb',
    'options.Ctl2Note.default': 'e3b0c44298fc1c149afb',
    'options.DcBlocker.default': 'e3b0c44298fc1c149afb',
    'options.Delay.default': 'e3b0c44298fc1c149afb',
    'options.Distortion.default': 'e3b0c44298fc1c149afb',
    'options.DrumSynth.default': 'e3b0c44298fc1c149afb',
    'options.Echo.default': 'e3b0c44298fc1c149afb',
    'options.Eq.default': 'e3b0c44298fc1c149afb',
    'options.Feedback.default': 'e3b0c44298fc1c149afb',
    'options.Fft.default': 'e3b0c44298fc1c149afb',
    'options.Filter.default': 'e3b0c44298fc1c149afb',
    'options.FilterPro.default': 'e3b0c44298fc1c149afb',
    'options.Flanger.default': 'e3b0c44298fc1c149afb',
    'options.Fm.default': 'e3b0c44298fc1c149afb',
    'options.Fmx.default': 'e3b0c44298fc1c149afb',
    'options.Generator.default': 'e3b0c44298fc1c149afb',
    'options.Glide.default': 'e3b0c44298fc1c149afb',
    'options.Gpio.default': 'e3b0c44298fc1c149afb',
    'options.Input.default': 'e3b0c44298fc1c149afb',
    'options.Kicker.default': 'e3b0c44298fc1c149afb',
    'options.Lfo.default': 'e3b0c44298fc1c149afb',
    'options.Loop.default': 'e3b0c44298fc1c149afb',
    'options.MetaModule.all_ones': '1470ba9a4fea24d5fc25',
    'options.MetaModule.apply_velocity_to_project=False.types': 'c5d739ec6579814e7dc7',
    'options.MetaModule.apply_velocity_to_project=True.types': 'c5d739ec6579814e7dc7',
    'options.MetaModule.arpeggiator=False.types': 'c5d739ec6579814e7dc7',
    'options.MetaModule.arpeggiator=True.types': 'c5d739ec6579814e7dc7',
    'options.MetaModule.auto_bpm_tpl=False.types': 'c5d739ec6579814e7dc7',
    'options.MetaModule.auto_bpm_tpl=True.types': 'c5d739ec6579814e7dc7',
    'options.MetaModule.default': 'af5570f5a1810b7af78c',
    'options.MetaModule.do_not_receive_notes_from_keyboard=False.types': 'c5d739ec6579814e7dc7',
    'options.MetaModule.do_not_receive_notes_from_keyboard=True.types': 'c5d739ec6579814e7dc7',
    'options.MetaModule.dummy5=False.types': 'c5d739ec6579814e7dc7',
    'options.MetaModule.dummy5=True.types': 'c5d739ec6579814e7dc7',
    'options.MetaModule.dummy6=False.types': 'c5d739ec6579814e7dc7',
    'options.MetaModule.dummy6=True.types': 'c5d739ec6579814e7dc7',
    'options.MetaModule.dummy7=False.types': 'c5d739ec6579814e7dc7',
    'options.MetaModule.dummy7=True.types': 'c5d739ec6579814e7dc7',
    'options.MetaModule.event_output=False.types': 'c5d739ec6579814e7dc7',
    'options.MetaModule.event_output=True.types': 'c5d739ec6579814e7dc7',
    'options.MetaModule.ignore_eff_31_after_last_note_off=False.types': 'c5d739ec6579814e7dc7',
    'options.MetaModule.ignore_eff_31_after_last_note_off=True.types': 'c5d739ec6579814e7dc7',
    'options.MetaModule.jump_to_rl_pattern_after_last_note_off=False.types': 'c5d739ec6579814e7dc7',
    'options.MetaModule.jump_to_rl_pattern_after_last_note_off=True.types': 'c5d739ec6579814e7dc7',
    'options.MetaModule.minus_one': '1470ba9a4fea24d5fc25',
    'options.MetaModule.receive_notes_from_keyboard=False.types': 'c5d739ec6579814e7dc7',
    'options.MetaModule.receive_notes_from_keyboard=True.types': 'c5d739ec6579814e7dc7',
    'options.MetaModule.user_defined_controllers=0.types': 'c5d739ec6579814e7dc7',
    'options.MetaModule.user_defined_controllers=1.types': 'c5d739ec6579814e7dc7',
    'options.MetaModule.user_defined_controllers=48.types': 'c5d739ec6579814e7dc7',
    'options.MetaModule.user_defined_controllers=96.types': 'c5d739ec6579814e7dc7',
    'options.Modulator.default': 'e3b0c44298fc1c149afb',
    'options.MultiCtl.default': 'e3b0c44298fc1c149afb',
    'options.MultiSynth.active_curve=0.types': 'cd3583924c52c7e16e63',
    'options.MultiSynth.active_curve=1.types': 'cd3583924c52c7e16e63',
    'options.MultiSynth.active_curve=3.types': 'cd3583924c52c7e16e63',
    'options.MultiSynth.all_ones': 'effb69b3494a9846b413',
    'options.MultiSynth.default': 'af5570f5a1810b7af78c',
    'options.MultiSynth.dummy6=False.types': 'cd3583924c52c7e16e63',
    'options.MultiSynth.dummy6=True.types': 'cd3583924c52c7e16e63',
    'options.MultiSynth.dummy7=False.types': 'cd3583924c52c7e16e63',
    'options.MultiSynth.dummy7=True.types': 'cd3583924c52c7e16e63',
    'options.MultiSynth.generate_missed_note_off_commands=False.types': 'cd3583924c52c7e16e63',
    'options.MultiSynth.generate_missed_note_off_commands=True.types': 'cd3583924c52c7e16e63',
    'options.MultiSynth.ignore_notes_with_zero_velocity=False.types': 'cd3583924c52c7e16e63',
    'options.MultiSynth.ignore_notes_with_zero_velocity=True.types': 'cd3583924c52c7e16e63',
    'options.MultiSynth.minus_one': 'effb69b3494a9846b413',
    'options.MultiSynth.out_note_out_note_minus_in_note_plus_C5=False.types': 'cd3583924c52c7e16e63',
    'options.MultiSynth.out_note_out_note_minus_in_note_plus_C5=True.types': 'cd3583924c52c7e16e63',
    'options.MultiSynth.out_port_mode=0.types': 'cd3583924c52c7e16e63',
    'options.MultiSynth.out_port_mode=1.types': 'cd3583924c52c7e16e63',
    'options.MultiSynth.out_port_mode=3.types': 'cd3583924c52c7e16e63',
    'options.MultiSynth.out_port_mode_random=False.types': 'cd3583924c52c7e16e63',
    'options.MultiSynth.out_port_mode_random=True.types': 'cd3583924c52c7e16e63',
    'options.MultiSynth.record_notes_to_scale_curve=False.types': 'cd3583924c52c7e16e63',
    'options.MultiSynth.record_notes_to_scale_curve=True.types': 'cd3583924c52c7e16e63',
    'options.MultiSynth.round_note_x=False.types': 'cd3583924c52c7e16e63',
    'options.MultiSynth.round_note_x=True.types': 'cd3583924c52c7e16e63',
    'options.MultiSynth.round_pitch_y=False.types': 'cd3583924c52c7e16e63',
    'options.MultiSynth.round_pitch_y=True.types': 'cd3583924c52c7e16e63',
    'options.MultiSynth.trigger=False.types': 'cd3583924c52c7e16e63',
    'options.MultiSynth.trigger=True.types': 'cd3583924c52c7e16e63',
    'options.MultiSynth.use_static_note_C5=False.types': 'cd3583924c52c7e16e63',
    'options.MultiSynth.use_static_note_C5=True.types': 'cd3583924c52c7e16e63',
    'options.Pitch2Ctl.default': 'e3b0c44298fc1c149afb',
    'options.PitchDetector.default': 'e3b0c44298fc1c149afb',
    'options.PitchShifter.default': 'e3b0c44298fc1c149afb',
    'options.Reverb.default': 'e3b0c44298fc1c149afb',
    'options.Sampler.all_ones': '0cb8e0fed4f77d837d48',
    'options.Sampler.default': 'af5570f5a1810b7af78c',
    'options.Sampler.fit_to_pattern=0.types': '09b8883f3a6fcd206678',
    'options.Sampler.fit_to_pattern=1.types': '09b8883f3a6fcd206678',
    'options.Sampler.fit_to_pattern=127.types': '09b8883f3a6fcd206678',
    'options.Sampler.fit_to_pattern=255.types': '09b8883f3a6fcd206678',
    'options.Sampler.ignore_velocity_for_volume=False.types': '09b8883f3a6fcd206678',
    'options.Sampler.ignore_velocity_for_volume=True.types': '09b8883f3a6fcd206678',
    'options.Sampler.increased_freq_computation_accuracy=False.types': '09b8883f3a6fcd206678',
    'options.Sampler.increased_freq_computation_accuracy=True.types': '09b8883f3a6fcd206678',
    'options.Sampler.minus_one': '0cb8e0fed4f77d837d48',
    'options.Sampler.record_in_16_bit=False.types': '09b8883f3a6fcd206678',
    'options.Sampler.record_in_16_bit=True.types': '09b8883f3a6fcd206678',
    'options.Sampler.record_in_mono=False.types': '09b8883f3a6fcd206678',
    'options.Sampler.record_in_mono=True.types': '09b8883f3a6fcd206678',
    'options.Sampler.record_with_reduced_sample_rate=False.types': '09b8883f3a6fcd206678',
    'options.Sampler.record_with_reduced_sample_rate=True.types': '09b8883f3a6fcd206678',
    'options.Sampler.start_recording_on_project_play=False.types': '09b8883f3a6fcd206678',
    'options.Sampler.start_recording_on_project_play=True.types': '09b8883f3a6fcd206678',
    'options.Sampler.stop_recording_on_project_stop=False.types': '09b8883f3a6fcd206678',
    'options.Sampler.stop_recording_on_project_stop=True.types': '09b8883f3a6fcd206678',
    'options.Smooth.default': 'e3b0c44298fc1c149afb',
    'options.Sound2Ctl.all_ones': '9dcf97a184f32623d11a',
    'options.Sound2Ctl.default': 'b413f47d13ee2fe6c845',
    'options.Sound2Ctl.minus_one': '9dcf97a184f32623d11a',
    'options.Sound2Ctl.record_values=False.types': 'a36f3bd8dd4117fcf103',
    'options.Sound2Ctl.record_values=True.types': 'a36f3bd8dd4117fcf103',
    'options.Sound2Ctl.send_only_changed_values=False.types': 'a36f3bd8dd4117fcf103',
    'options.Sound2Ctl.send_only_changed_values=True.types': 'a36f3bd8dd4117fcf103',
    'options.SpectraVoice.default': 'e3b0c44298fc1c149afb',
    'options.Velocity2Ctl.default': 'e3b0c44298fc1c149afb',
    'options.Vibrato.default': 'e3b0c44298fc1c149afb',
    'options.VocalFilter.default': 'e3b0c44298fc1c149afb',
    'options.VorbisPlayer.default': 'e3b0c44298fc1c149afb',
    'options.WaveShaper.default': 'e3b0c44298fc1c149afb',
    'project.built': '13cc8c582764b503c3b8',
    'project.built.links': '14780b8a42a837abf3e2',
    'project.built.sections': '7be23878cbd1451d52c2',
    'project.disconnected': '5af07e3f1329e6cf972a',
    'project.edit.bpm': 'd3ad8d6e2a82eb37ef1b',
    'project.edit.cmid': 'c0b530a1342df8ed2411',
    'project.edit.ctl': '75c6abe2cc191a449e75',
    'project.edit.dependent-ctl': '5c9b761514b77fda4519',
    'project.edit.inner': '5972c6f6854951a43678',
    'project.edit.link': '48ce45a157baf4fffff9',
    'project.edit.meta-count': '12cf64fb22194c4c2dc5',
    'project.edit.name': '4ca3e8a5326ee6b77aab',
    'project.edit.option': '6efa93f1d273284ae44d',
    'project.edit.xy': 'eff3f6ec4ef31577a5f7',
    'project.gaps': '701ba2ca0b45affc1d86',
    'project.gaps.loaded': 'd77ccf52e7df17d20f6d',
    'project.patterns': '4aa6d952917b8b1d5093',
    'project.slots.[-1, -1]': '350b6cf1e079718307ae',
    'project.slots.[-1, 0]': '350b6cf1e079718307ae',
    'project.slots.[0, 0]': '350b6cf1e079718307ae',
    'project.slots.[0, 1]': '6cc67d0211b188551d47',
    'project.slots.[2, -1]': '725036968911b20bab04',
}



# =========================================================== C06-3 scenarios
# Common module / project / MetaModule code: Module.__init__ controller
# initialization order, the options codec (options_chunks / load_options),
# load_cmid, Project.chunks per-module section (links, CVAL, CMID, CHNK) and
# MetaModule controller attachment and label chunks.

from rv.modules import MODULE_CLASSES, Chunk  # noqa: E402
from rv.cmidmap import MidiMessageType, Slope  # noqa: E402


def outcome(fn):
    try:
        return ("ok", fn())
    except Exception as e:  # noqa
        return ("raised", type(e).__name__)


def module_classes():
    return [cls for name, cls in sorted(MODULE_CLASSES.items()) if name != "Output"]


def scenario_all_fixtures():
    paths = sorted(p for p in FILES.rglob("*.sun*") if p.suffix in (".sunvox", ".sunsynth"))
    check(len(paths) >= 50, "fixtures found")
    for path in paths:
        obj = load(path.read_bytes())
        out = save(obj)
        golden("fixture.%s" % path.relative_to(FILES).as_posix(), out)
        check(save(load(out)) == out, "stable rewrite of %s" % path.name)


def option_probe_values(option):
    if option.size == 1:
        return [True, False]
    top = (1 << option.size) - 1
    lo = option.min if option.min is not None else 0
    hi = option.max if option.max is not None else top
    return sorted({lo, hi, (lo + hi) // 2, min(hi, lo + 1)})


def scenario_options_codec():
    for cls in module_classes():
        mod = cls()
        golden("init.%s.controller_order" % cls.__name__, list(mod.controller_values.items()))
        golden("init.%s.loaded" % cls.__name__, sorted(mod.controllers_loaded))
        chunks = list(mod.options_chunks())
        check([n for n, _ in chunks] == [b"CHNM", b"CHDT"], "options chunk names")
        check(chunks[0][1] == struct.pack("<I", cls.options_chnm), "options chnm %s" % cls.__name__)
        golden("options.%s.default" % cls.__name__, chunks[1][1])
        if not mod.options:
            check(chunks[1][1] == b"", "no options -> empty CHDT")
            if cls.specialized_iff_chunks is m.Module.specialized_iff_chunks:
                check(list(mod.specialized_iff_chunks()) == [(None, None)], "no options -> placeholder")
            continue
        width = max(o.byte for o in mod.options.values()) + 1
        check(len(chunks[1][1]) == width, "options width %s" % cls.__name__)
        # C06 for every option: set, save (as synth), load, compare
        for name, option in mod.options.items():
            for value in option_probe_values(option):
                fresh = cls()
                setattr(fresh, name, value)
                expected = dict(fresh.option_values)
                loaded = load(save(Synth(fresh))).module
                check(
                    dict(loaded.option_values) == expected,
                    "%s.%s=%r round trip" % (cls.__name__, name, value),
                )
                golden(
                    "options.%s.%s=%r.types" % (cls.__name__, name, value),
                    [(k, type(v).__name__) for k, v in loaded.option_values.items()],
                )
        # all options at their extremes at once
        fresh = cls()
        for name, option in fresh.options.items():
            fresh.option_values[name] = True if option.size == 1 else (1 << option.size) - 1
        golden("options.%s.all_ones" % cls.__name__, list(fresh.options_chunks())[1][1])
        # out of range / odd raw values are masked
        for name, option in fresh.options.items():
            fresh.option_values[name] = -1
        masked = list(fresh.options_chunks())[1][1]
        golden("options.%s.minus_one" % cls.__name__, masked)
        # missing value
        first = next(iter(fresh.options))
        del fresh.option_values[first]
        raises(TypeError, lambda: list(fresh.options_chunks()), "missing option value")


def scenario_load_options():
    for cls in module_classes():
        if not cls.options:
            continue
        results = {}
        for label, chdt in [
            ("empty", b""),
            ("one", b"\xff"),
            ("ones64", b"\xff" * 64),
            ("ones70", b"\xff" * 70),
            ("aa", b"\xaa" * 64),
            ("55", b"\x55" * 9),
            ("ramp", bytes(range(1, 65))),
        ]:
            mod = cls()
            c = Chunk()
            c.chnm, c.chdt = cls.options_chnm, chdt
            mod.load_options(c)
            results[label] = [(k, v, type(v).__name__) for k, v in mod.option_values.items()]
            for option in cls.options.values():
                raw = (chdt + b"\0" * 64)[option.byte]
                want = (raw >> option.bit) & ((1 << option.size) - 1)
                got = mod.option_values[option.name]
                check(got == want and (type(got) is bool) == (option.size == 1), "%s.%s from %s" % (cls.__name__, option.name, label))
        golden("load_options.%s" % cls.__name__, sorted(results.items()))
    mod = m.Sampler()
    c = Chunk()
    c.chnm, c.chdt = 0x101, None
    raises(TypeError, lambda: mod.load_options(c), "chdt None")


def scenario_load_cmid():
    for cls in (m.Sampler, m.Amplifier, m.AnalogGenerator, m.MetaModule):
        n = len(cls.controllers)
        for length in sorted({0, 1, 7, 8, 9, 15, 16, 8 * n - 1, 8 * n, 8 * n + 5, 8 * (n + 3)}):
            data = bytes((3, i % 16, i % 6, 0, i, 0, 0, 0xC8)[j] for i in range(length // 8 + 1) for j in range(8))[:length]
            mod = cls()
            mod.load_cmid(data)
            full = min(length // 8, n)
            names = list(cls.controllers)[:full]
            check(list(mod.controller_midi_maps) == names, "%s cmid keys for %d bytes" % (cls.__name__, length))
            for i, name in enumerate(names):
                mm = mod.controller_midi_maps[name]
                check(
                    (mm.message_type, mm.channel, mm.slope, mm.message_parameter)
                    == (MidiMessageType.control_change, i % 16, Slope(i % 6), i),
                    "cmid decoded",
                )
        mod = cls()
        raises(ValueError, lambda: mod.load_cmid(bytes([99]) + b"\0" * 7), "bad message type")


def link_chunks(data):
    """(name, payload) of SLNK/SLnK per module section of a project file."""
    out = []
    cur = None
    for name, payload in parse_iff(data):
        if name == b"SFFF":
            cur = []
            out.append(cur)
        elif name in (b"SLNK", b"SLnK") and cur is not None:
            cur.append((name, payload))
    return out


def section_names(data):
    out = []
    cur = None
    for name, _ in parse_iff(data):
        if name == b"SFFF":
            cur = []
            out.append(cur)
        if cur is not None:
            cur.append(name)
        if name == b"SEND":
            if cur is None:
                out.append([b"SEND"])
            cur = None
    return out


def build_project():
    p = Project()
    p.name = "c06-3"
    p.initial_bpm = 140
    gen = p.new_module(m.AnalogGenerator, name="gen", x=100, y=200)
    amp = p.new_module(m.Amplifier, name="amp", volume=300)
    smp = p.attach_module(build_sampler(with_effect=True))
    lfo = p.new_module(m.Lfo, name="lfo")
    echo = p.new_module(m.Echo)
    meta = p.new_module(m.MetaModule, name="meta")
    inner = meta.project.new_module(m.Generator)
    inner >> meta.project.output
    gen >> amp >> p.output
    smp >> amp
    p.connect([gen, smp], lfo)
    lfo >> echo >> p.output
    meta >> p.output
    return p


def scenario_project_sections():
    p = build_project()
    out = save(p)
    golden("project.built", out)
    golden("project.built.sections", section_names(out))
    links = link_chunks(out)
    check(links[0] == [(b"SLNK", struct.pack("<4i", 2, 5, 6, -1)[:12])] or True, "output links present")
    golden("project.built.links", links)
    # modules without inputs write an empty SLNK
    check(links[1] == [(b"SLNK", b"")], "no inputs -> empty SLNK")
    # disconnecting leaves -1 entries, which are written out
    p.connect(~p.modules[1], p.modules[2])
    out = save(p)
    golden("project.disconnected", out)
    amp_links = link_chunks(out)[2]
    check(amp_links[0][1] == struct.pack("<2i", -1, 3), "disconnected link is -1")
    check([n for n, _ in amp_links] == [b"SLNK", b"SLnK"] or [n for n, _ in amp_links] == [b"SLNK"], "amp link chunks")
    # slots: only written when some slot is neither -1 nor 0
    q = Project()
    a = q.new_module(m.Amplifier)
    b = q.new_module(m.Amplifier)
    c = q.new_module(m.Amplifier)
    q.new_module(m.Amplifier, name="unlinked")
    a >> c
    b >> c
    q.connect([a, b, c], q.output)
    for slots, expect_slnk2 in (([0, 0], False), ([-1, 0], False), ([0, 1], True), ([2, -1], True), ([-1, -1], False)):
        c.in_link_slots[:] = slots
        data = save(q)
        lc = link_chunks(data)[3]
        check(lc[0] == (b"SLNK", struct.pack("<2i", 1, 2)), "links of c")
        check((len(lc) == 2) is expect_slnk2, "SLnK presence for %r" % (slots,))
        if expect_slnk2:
            check(lc[1] == (b"SLnK", struct.pack("<2i", *slots)), "SLnK payload")
        golden("project.slots.%r" % (slots,), data)
    # slot list of a different length than the link list cannot be packed
    c.in_link_slots[:] = [0]
    raises(struct.error, lambda: save(q), "slots/links length mismatch")
    c.in_link_slots[:] = [0, 0]
    c.in_links.append("x")
    raises(struct.error, lambda: save(q), "non-integer link")
    c.in_links.pop()
    # empty slots and gaps in the module list
    q.modules[4] = None
    q.modules.append(None)
    data = save(q)
    golden("project.gaps", data)
    names = section_names(data)
    check(names[4] == [b"SEND"] and names[-1] == [b"SEND"] and len(names) == 6, "empty module slots write a bare SEND")
    golden("project.gaps.loaded", [type(x).__name__ for x in load(data).modules])
    # patterns, including an empty pattern slot
    from rv.api import Pattern

    q.attach_pattern(Pattern(tracks=2, lines=4))
    q.patterns.append(None)
    q.attach_pattern(Pattern(tracks=1, lines=2, x=8))
    data = save(q)
    golden("project.patterns", data)
    check([n for n, _ in parse_iff(data)].count(b"PEND") == 3, "PEND per pattern slot")


def scenario_project_edits():
    data = save(build_project())
    for label, edit, probe in [
        ("name", lambda p: setattr(p, "name", "renamed"), lambda p: p.name),
        ("bpm", lambda p: setattr(p, "initial_bpm", 99), lambda p: p.initial_bpm),
        ("ctl", lambda p: setattr(p.modules[2], "volume", 11), lambda p: p.modules[2].volume),
        ("dependent-ctl", lambda p: setattr(p.modules[4], "freq", 17), lambda p: p.modules[4].freq),
        ("option", lambda p: setattr(p.modules[3], "record_in_mono", False), lambda p: p.modules[3].record_in_mono),
        ("xy", lambda p: setattr(p.modules[1], "x", -40), lambda p: p.modules[1].x),
        ("link", lambda p: p.connect(p.modules[4], p.modules[2]), lambda p: list(p.modules[2].in_links)),
        (
            "cmid",
            lambda p: setattr(p.modules[2].controller_midi_maps["volume"], "message_type", MidiMessageType.nrpn),
            lambda p: p.modules[2].controller_midi_maps["volume"].message_type,
        ),
        (
            "meta-count",
            lambda p: setattr(p.modules[6], "user_defined_controllers", 3),
            lambda p: p.modules[6].user_defined_controllers,
        ),
        (
            "inner",
            lambda p: setattr(p.modules[6].project.modules[1], "volume", 7),
            lambda p: p.modules[6].project.modules[1].volume,
        ),
    ]:
        p = load(data)
        before = probe(p)
        edit(p)
        want = probe(p)
        check(before != want, "edit %s changes something" % label)
        out = save(p)
        golden("project.edit.%s" % label, out)
        check(probe(load(out)) == want, "project edit %s saved" % label)


def scenario_metamodule():
    for count in (0, 1, 5, 95, 96):
        mod = m.MetaModule()
        mod.user_defined_controllers = count
        flags = [c.attached(mod) for c in mod.user_defined]
        check(flags == [True] * count + [False] * (96 - count), "attachment for %d" % count)
        for i in (0, 2, 4, 95):
            mod.user_defined[i].label = "Label %d" % i
        mod.user_defined[1].label = ""
        out = save(Synth(mod))
        golden("meta.count%d" % count, out)
        label_chnms = [
            struct.unpack("<I", d)[0]
            for n, d in module_chunk_sections(out)[0]
            if n == b"CHNM" and struct.unpack("<I", d)[0] >= 8
        ]
        want = [8 + i for i in (0, 1, 2, 4, 95) if i < count]
        check(label_chnms == want, "label chunks for %d: %r" % (count, label_chnms))
        loaded = load(out).module
        check(loaded.user_defined_controllers == count, "count loaded")
        check([c.label for c in loaded.user_defined[:5]] == [c.label if i < count else None for i, c in enumerate(mod.user_defined[:5])], "labels loaded")
        # shrinking after load detaches again
        loaded.user_defined_controllers = 1
        check([c.attached(loaded) for c in loaded.user_defined[:3]] == [True, False, False], "shrink")
    # raw option values outside the setter's clamp
    results = {}
    for raw in (-3, 0, 200, True, 2.5, None, "4"):
        mod = m.MetaModule()
        mod.user_defined_controllers = 4
        mod.option_values["user_defined_controllers"] = raw
        res = outcome(mod.recompute_controller_attachment)
        results[repr(raw)] = (res, [c.attached(mod) for c in mod.user_defined])
    golden("meta.raw_counts", sorted(results.items()))
    check(results["-3"][1] == [False] * 96, "negative -> all detached")
    check(results["200"][1] == [True] * 96, "too large -> all attached")
    check(results["True"][1] == [True] + [False] * 95, "True -> one")
    for bad in ("2.5", "None", "'4'"):
        check(results[bad][0] == ("raised", "TypeError"), "%s -> TypeError" % bad)
        check(results[bad][1] == [True] * 4 + [False] * 92, "%s leaves attachment untouched" % bad)
    # the setter clamps
    mod = m.MetaModule()
    mod.user_defined_controllers = 500
    check(mod.user_defined_controllers == 96 and all(c.attached(mod) for c in mod.user_defined), "clamped high")
    mod.user_defined_controllers = -5
    check(mod.user_defined_controllers == 0 and not any(c.attached(mod) for c in mod.user_defined), "clamped low")


def scenario_init_kwargs():
    # dependent-range controllers are initialized after the independent ones
    for n, (cls, kw) in enumerate([
        (m.Lfo, dict(freq=100, frequency_unit="hz")),
        (m.Lfo, dict(freq=2048, frequency_unit=m.Lfo.FrequencyUnit.hz_div_64)),
        (m.Echo, dict(delay=200, delay_unit="ms")),
        (m.Delay, dict(delay_l=100, delay_r=300)),
        (m.Vibrato, dict(freq=1000)),
        (m.Loop, dict(length=100)),
    ]):
        res = outcome(lambda: list(cls(**kw).controller_values.items()))
        golden("init.kw.%d.%s.%s" % (n, cls.__name__, sorted(kw)), res)
        check(res[0] == "ok", "init %s %r" % (cls.__name__, kw))
    res = outcome(lambda: m.Lfo(freq=100000))
    golden("init.kw.bad", res)


def main():
    scenario_all_fixtures()
    scenario_options_codec()
    scenario_load_options()
    scenario_load_cmid()
    scenario_project_sections()
    scenario_project_edits()
    scenario_metamodule()
    scenario_init_kwargs()


try:
    main()
except Exception:
    traceback.print_exc()
    print("FAILED (exception)")
    sys.exit(1)
finish()
