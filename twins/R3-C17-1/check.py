"""Behaviour check for Module.__init__ / Controller.set_initial / Controller.propagate.

Run as: cd <root> && PYTHONPATH=<root>/src/python python check.py
"""
import hashlib
import io
import logging
import sys
from enum import Enum

import rv.api  # noqa: F401  (registers all module classes)
from rv import errors
from rv.controller import Controller, DependentRange, Range
from rv.errors import ControllerValueError, override_raise_controller_value_errors
from rv.modules import MODULE_CLASSES, Module
from rv.synth import Synth

logging.disable(logging.CRITICAL)

FAILURES = []


def check(cond, msg):
    if not cond:
        FAILURES.append(msg)


def norm(v):
    if isinstance(v, Enum):
        return f"{type(v).__name__}.{v.name}"
    if isinstance(v, (list, tuple)):
        return [norm(x) for x in v]
    if isinstance(v, (bytes, bytearray)):
        return bytes(v).hex()
    if isinstance(v, (int, float, str, bool)) or v is None:
        return repr(v)
    return type(v).__name__


ATTRS = [
    "index", "mod_finetune", "mod_relative_note", "x", "y", "layer", "mod_scale",
    "color", "midi_in_always", "midi_in_channel", "midi_out_name",
    "midi_out_channel", "midi_out_bank", "midi_out_program", "name",
    "_visualization", "in_links", "in_link_slots", "out_links", "out_link_slots",
]


def snapshot(mod):
    return {
        "cls": type(mod).__name__,
        "ctl": [(k, norm(v)) for k, v in mod.controller_values.items()],
        "loaded": sorted(mod.controllers_loaded),
        "opt": [(k, norm(v)) for k, v in mod.option_values.items()],
        "optattr": [(k, norm(getattr(mod, k))) for k in mod.options],
        "attrs": [(a, norm(getattr(mod, a, "<missing>"))) for a in ATTRS],
        "midimaps": sorted(mod.controller_midi_maps),
    }


def to_bytes(mod):
    f = io.BytesIO()
    Synth(mod).write_to(f)
    return f.getvalue()


def valid_alternative(mod, name, ctl):
    """A valid value for the controller different from its current one if possible."""
    t = ctl.instance_value_type(mod)
    cur = mod.controller_values[name]
    if isinstance(t, Range):
        return t.min if cur != t.min else t.max
    if t is bool:
        return not cur
    if isinstance(t, type) and issubclass(t, Enum):
        members = list(t)
        return members[-1] if cur != members[-1] else members[0]
    return cur


KW = dict(
    index=7, finetune=-3, relative_note=5, x=100, y=-20, layer=3, mod_scale=300,
    color=(1, 2, 3), midi_in_always=True, midi_in_channel=4, midi_out_name="dev",
    midi_out_channel=2, midi_out_bank=9, midi_out_program=11, name="custom",
    visualization=0x12345,
)

dump = []
names = sorted(MODULE_CLASSES)
for mtype in names:
    cls = MODULE_CLASSES[mtype]
    a, b = cls(), cls()
    dump.append(("default", mtype, snapshot(a)))
    check(snapshot(a) == snapshot(b), f"{mtype}: two defaults differ")
    for attr in ("controller_values", "controllers_loaded", "controller_midi_maps",
                 "option_values", "in_links", "in_link_slots", "out_links",
                 "out_link_slots"):
        check(getattr(a, attr) is not getattr(b, attr), f"{mtype}: shared {attr}")
    check(len({id(a.in_links), id(a.in_link_slots), id(a.out_links),
               id(a.out_link_slots)}) == 4, f"{mtype}: aliasing link lists")
    check(set(a.controllers_loaded) == set(a.controllers), f"{mtype}: loaded set")
    check(list(a.controller_values) ==
          [k for k, c in a.controllers.items()
           if not isinstance(c.value_type, DependentRange)] +
          [k for k, c in a.controllers.items()
           if isinstance(c.value_type, DependentRange)],
          f"{mtype}: controller value insertion order")

    # note: writing fills the controller_midi_maps defaultdict, so take bytes first
    before_bytes = to_bytes(b)
    before_snap = snapshot(b)
    # mutate every controller, option, link list and attribute of a
    for name, ctl in a.controllers.items():
        if not ctl.attached(a):
            continue
        try:
            setattr(a, name, valid_alternative(a, name, ctl))
        except Exception as e:  # recorded so both trees must agree
            dump.append(("seterr", mtype, name, type(e).__name__))
    for name, opt in a.options.items():
        cur = getattr(a, name)
        if isinstance(cur, bool):
            setattr(a, name, not cur)
    a.in_links.append(1)
    a.in_link_slots.append(2)
    a.out_links.append(3)
    a.out_link_slots.append(4)
    a.controller_midi_maps["zzz"]
    a.x, a.y, a.color, a.mod_scale = 1, 2, (9, 9, 9), 77
    dump.append(("mutated", mtype, snapshot(a)))
    check(snapshot(b) == before_snap, f"{mtype}: mutation of A leaked into B snapshot")
    check(to_bytes(b) == before_bytes, f"{mtype}: mutation of A leaked into B bytes")
    c = cls()
    to_bytes(c)
    check(snapshot(c) == before_snap, f"{mtype}: later construction sees leaked state")
    check(cls.controllers is type(c).controllers, f"{mtype}: registry replaced")

    k = cls(**KW)
    dump.append(("kw", mtype, snapshot(k)))
    dump.append(("kwbytes", mtype, hashlib.sha256(to_bytes(k)).hexdigest()))
    if mtype != "Output":
        check(k.name == "custom" and k.index == 7, f"{mtype}: name/index kw")
    check(k.mod_scale == 300 and k.color == (1, 2, 3), f"{mtype}: kw attrs")
    if mtype != "Output":
        check(cls().name == cls.name, f"{mtype}: default name")
    else:
        check(cls().name == "Output" and k.name == "Output", "Output name fixed")

    # "scale" keyword: module-level alias unless the class has a scale controller
    try:
        s = cls(scale=10, mod_scale=20)
        dump.append(("scale", mtype, norm(s.mod_scale), snapshot(s)["ctl"]))
        if "scale" in cls.controllers:
            check(s.mod_scale == 20, f"{mtype}: scale ctl vs mod_scale")
        else:
            check(s.mod_scale == 10, f"{mtype}: scale kw overrides mod_scale")
    except Exception as e:
        dump.append(("scale-err", mtype, type(e).__name__, str(e)))

    # keyword-initialised controllers (independent pass then dependent pass)
    kw = {}
    probe = cls()
    for name, ctl in cls.controllers.items():
        if ctl.attached(probe):
            kw[name] = valid_alternative(probe, name, ctl)
    try:
        m = cls(**kw)
        dump.append(("ctlkw", mtype, snapshot(m)["ctl"]))
    except Exception as e:
        dump.append(("ctlkw-err", mtype, type(e).__name__, str(e)))

# --- dependent ranges, enum-by-name, errors and warn-only mode -----------------
m = rv.api.m
lfo = m.Lfo(frequency_unit="ms", freq=3000, waveform="sin")
check(lfo.frequency_unit is m.Lfo.FrequencyUnit.ms, "enum by name")
check(lfo.freq == 3000 and lfo.waveform is m.Lfo.Waveform.sin, "lfo kw")
check(list(lfo.controller_values)[-1] == "freq", "dependent controller set last")
dump.append(("lfo", snapshot(lfo)))
lfo2 = m.Lfo(freq=3000)  # warn-only range: stored regardless
check(lfo2.freq == 3000, "warn-only range keeps value")

for bad_kw in ({"volume": 99999}, {"volume": -1}, {"waveform": "nope"},
               {"waveform": 1234}):
    try:
        m.Lfo(index=0x1F, **bad_kw)
        dump.append(("bad", sorted(bad_kw.items()), "no error"))
    except Exception as e:
        dump.append(("bad", sorted(map(str, bad_kw.items())), type(e).__name__, str(e),
                     type(e.__cause__).__name__))

try:
    m.Amplifier(volume=5000)
    check(False, "out of range must raise")
except ControllerValueError as e:
    check(str(e) == "0(Amplifier).volume=5000 is not within [0, 1024]", f"msg {e}")
    check(type(e.__cause__).__name__ == "RangeValidationError", "cause")
amp = m.Amplifier(index=0x2A)
try:
    amp.volume = -5
    check(False, "assignment out of range must raise")
except ControllerValueError as e:
    check(str(e) == "2a(Amplifier).volume=-5 is not within [0, 1024]", f"msg2 {e}")
check(amp.volume == 256, "failed assignment leaves value alone")

records = []


class H(logging.Handler):
    def emit(self, record):
        records.append((record.name, record.levelname, record.getMessage(),
                        record.exc_info is not None))


logging.disable(logging.NOTSET)
h = H()
logging.getLogger("rv.controller").addHandler(h)
with override_raise_controller_value_errors(False):
    w = m.Amplifier(volume=5000, index=3)
    check(w.volume == 5000, "warn mode stores the raw value")
    w.balance = 999
    check(w.balance == 999, "warn mode stores assigned value")
logging.getLogger("rv.controller").removeHandler(h)
logging.disable(logging.CRITICAL)
dump.append(("warnings", records))
check(records == [
    ("rv.controller", "WARNING", "3(Amplifier).volume=5000 is not within [0, 1024]", True),
    ("rv.controller", "WARNING", "3(Amplifier).balance=999 is not within [-128, 128]", True),
], f"warning records {records}")
check(errors.RAISE_CONTROLLER_VALUE_ERRORS is True, "flag restored")

# --- propagate(): hook order and arguments ------------------------------------
calls = []


class Hooked(m.Amplifier):
    def on_volume_changed(self, value, down, up):
        calls.append(("specific", value, down, up, self.controller_values["volume"]))
        # install generic hook lazily: must still be seen by the same propagate()
        self.on_controller_changed = self._generic

    def _generic(self, controller, value, down, up):
        calls.append(("generic", controller.name, value, down, up))


hk = Hooked()
check(calls == [], "construction does not fire hooks")
hk.volume = 12
type(hk).volume.propagate(hk, 13)
type(hk).volume.propagate(hk, 14, up=True)
hk.balance = 5
check(calls == [
    ("specific", 12, True, True, 12), ("generic", "volume", 12, True, True),
    ("specific", 13, False, False, 13), ("generic", "volume", 13, False, False),
    ("specific", 14, False, True, 14), ("generic", "volume", 14, False, True),
    ("generic", "balance", 5, True, True),
], f"hook calls {calls}")
hk.on_volume_changed = "not callable"
hk.volume = 15
check(calls[-1] == ("generic", "volume", 15, True, True), "non-callable hook skipped")
check(Hooked.volume is m.Amplifier.volume, "descriptor access on class")
check(isinstance(Hooked.volume, Controller), "class access returns controller")

# t is None controllers and set_initial directly
ctl = Controller(None, 5)
ctl.name = "thing"
holder = m.Amplifier()
ctl.set_initial(holder, "whatever")
check(holder.controller_values["thing"] is None, "value_type None stores None")
ctl2 = Controller(m.Lfo.Waveform, m.Lfo.Waveform.sin)
ctl2.name = "wf"
ctl2.set_initial(holder, "saw")
check(holder.controller_values["wf"] is m.Lfo.Waveform.saw, "enum from str")
ctl2.set_initial(holder, 2)
check(holder.controller_values["wf"] is m.Lfo.Waveform.sin2, "enum from int")
ctl3 = Controller((0, 10), 0)
ctl3.name = "r"
ctl3.set_initial(holder, "5") if False else None
check("thing" not in m.Amplifier().controller_values, "no leak of ad-hoc controllers")

digest = hashlib.sha256(repr(dump).encode()).hexdigest()
EXPECTED = "ba721e92417f217739b09c9259addc6d6bcafb05904584c4abcc9713e849d131"
if EXPECTED.startswith("@@"):
    print("digest", digest)
else:
    check(digest == EXPECTED, f"behaviour dump digest changed: {digest}")

if FAILURES:
    print("FAIL")
    for f_ in FAILURES:
        print(" -", f_)
    sys.exit(1)
print("PASS")
